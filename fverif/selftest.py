"""Mutation self-test of the checkers (not one of the registered checks).

Each entry is a single-site textual edit applied to a scratch copy of /repo/src (removed afterwards):
  kind 'break'    : a realistic change that violates a property; the listed checks must exit 1 (VIOLATION)
  kind 'preserve' : a behaviour-preserving edit; the listed checks must still exit 0
The kill matrix is written to /verif/selftest/RESULTS.json.
"""

import concurrent.futures as cf
import json
import os
import shutil
import subprocess
import tempfile
import time

VERIF = os.path.dirname(os.path.dirname(os.path.abspath(__file__)))

B, K = "break", "preserve"

CORPUS = [
    # ---- C01
    (B, "C01", "mechanics/_solidbody_incompressible.py", "constraint = np.divide(bulk_H, self.V, out=bulk_H)", "constraint = bulk_H"),
    (B, "C01", "mechanics/_multipoint.py", "L[t.reshape(-1, 1), c] = -self.multiplier\n            L[c.reshape(-1, 1), t] = -self.multiplier\n            L[c.reshape(-1, 1), c] = eye(len(c)) * self.multiplier * len(self.points)",
     "L[t.reshape(-1, 1), c] = self.multiplier\n            L[c.reshape(-1, 1), t] = -self.multiplier\n            L[c.reshape(-1, 1), c] = eye(len(c)) * self.multiplier * len(self.points)"),
    (B, "C01", "tools/_newton.py", "            K *= body.assemble.multiplier", "            K *= 1"),
    (B, "C01,C03", "constitution/_kinematics.py", "dFsdF = (\n            dya(dJdF, dJdF, parallel=parallel) - cdya_il(dJdF, dJdF, parallel=parallel)\n        ) / J", "dFsdF = (\n            dya(dJdF, dJdF, parallel=parallel) + cdya_il(dJdF, dJdF, parallel=parallel)\n        ) / J"),
    # ---- C02
    (B, "C02", "assembly/_cartesian.py", '"aJqc,iJkLqc,bLqc,qc->aibkc"', '"aJqc,iJkLqc,bLqc,qc->akbic"'),
    (B, "C02", "assembly/_axi.py", "fun[-1, -1, -1, -1] / R**2,", "fun[-1, -1, -1, -1] / R,"),
    (B, "C02", "assembly/_axi.py", "values[0] += np.pad(values[1], ((0, 0), (1, 0), (0, 0)))", "values[0] += np.pad(values[1], ((0, 0), (0, 1), (0, 0)))"),
    (B, "C02", "assembly/_integral.py", "K[j, i] = res[a].T", "K[j, i] = res[a]"),
    (B, "C02,C08", "field/_base.py", "dim * np.repeat(cells, dim)", "cells.shape[1] * np.repeat(cells, dim)"),
    (B, "C02", "assembly/_cartesian.py", "fun = fun[tuple([slice(2)] * function_dimension)]", "fun = fun[tuple([slice(1, 3)] * function_dimension)]"),
    # ---- C03
    (B, "C03", "constitution/hyperelasticity/_neo_hooke_nearly_incompressible.py", "np.multiply(-2 / 3, A4b, out=A4b)", "np.multiply(-1 / 3, A4b, out=A4b)"),
    (B, "C03", "constitution/_mixed.py", "/ (9 * J**2)", "/ (3 * J**2)"),
    (B, "C03", "constitution/hyperelasticity/_ogden_roxburgh.py", "np.exp(-(z**2))", "np.exp(-z)"),
    (B, "C03", "constitution/small_strain/models/_linear_elastic_plastic_isotropic.py", "(1 + K / (3 * μ))", "(1 + K / μ)"),
    (B, "C03", "constitution/tensortrax/_hyperelastic.py", "IJKL...->iJkL...", "IJKL...->iLkJ..."),
    (B, "C03,C15", "constitution/small_strain/_material_strain.py", "reshape(sv, shape).copy()", "reshape(sv, shape)"),
    (B, "C03", "constitution/hyperelasticity/_neo_hooke_nearly_incompressible.py", "        else:\n            P.fill(0)\n", "        else:\n            pass\n"),
    # ---- C04
    (B, "C04", "element/_hexahedron.py", "[[0, t - 1, 1 + s], [t - 1, 0, r - 1], [1 + s, r - 1, 0]],", "[[0, t - 1, 1 + s], [t - 1, 0, r - 1], [1 + s, -1 - r, 0]],"),
    (B, "C04", "element/_lagrange.py", "k = [self._AT @ np.append(0, self._polynomial(ra, n)[:-1]) for ra in r]", "k = [self._AT @ self._polynomial(ra, n) for ra in r]"),
    (B, "C04,C05", "element/_hexahedron.py", "self._faces = np.array([12, 14, 10, 16, 4, 22])", "self._faces = np.array([14, 12, 10, 16, 4, 22])"),
    # ---- C05
    (B, "C05", "quadrature/_triangle.py", "-9 / 32", "-9 / 16"),
    (B, "C05", "quadrature/_gauss_legendre.py", "np.polynomial.legendre.leggauss(1 + order)", "np.polynomial.legendre.leggauss(max(1, order))"),
    (B, "C05", "quadrature/_tetra.py", "a = 0.13819660", "a = 0.13819760"),
    (B, "C05", "quadrature/_sphere.py", "w2 = 0.0199301476312", "w2 = 0.0199301476412"),
    # ---- C06
    (B, "C06", "region/_region.py", '"aIqc,IJqc->aJqc"', '"aIqc,JIqc->aJqc"'),
    (B, "C06", "region/_region.py", "if np.any(region.dV < 0):", "if np.any(region.dV > 0):"),
    (B, "C06,C10", "field/_axi.py", "g[-1, -1] = self.interpolate(dtype=dtype, order=order)[1] / self.radius", "g[-1, -1] = self.interpolate(dtype=dtype, order=order)[0] / self.radius"),
    # ---- C07
    (B, "C07", "tools/_newton.py", "if 1 + iteration == maxiter and not success:", "if 1 + iteration == maxiter or not success:"),
    (B, "C07", "solve/_solve.py", "du1 = solver(K11, -r1 - dr0.reshape(*r1.shape))", "du1 = solver(K11, -r1 + dr0.reshape(*r1.shape))"),
    (B, "C07", "solve/_solve.py", "du[dof0] = ext0 - u0", "du[dof0] = ext0"),
    (B, "C07", "tools/_newton.py", "if success and items is not None:", "if items is not None:"),
    # ---- C08
    (B, "C08", "dof/_loadcase.py", "skipax = ~np.eye(3).astype(bool)", "skipax = np.eye(3).astype(bool)"),
    (B, "C08", "field/_container.py", "self.offsets = np.cumsum(self.fieldsizes)[:-1]", "self.offsets = np.cumsum(self.fieldsizes)[1:]"),
    (B, "C08", "dof/_tools.py", "mask[dof0] = False", "mask[dof0[1:]] = False"),
    (B, "C08", "dof/_loadcase.py", 'bounds["left-x"] = Boundary(f, skip=active, **{fx: left})', 'bounds["left-x"] = Boundary(f, skip=inactive, **{fx: left})'),
    # ---- C09
    (B, "C09,C19", "tools/_post.py", "return ((forces_first_field.reshape(-1, dim))[boundary.points]).sum(axis=0)", "return ((forces_first_field.reshape(-1, dim))[boundary.points[:1]]).sum(axis=0)"),
    # ---- C10
    (B, "C10,C01", "mechanics/_solidbody_incompressible.py", "self.results.state.p[:] = self.bulk * (self.results.state.J - 1)", "self.results.state.p[:] = self.bulk * self.results.state.J"),
    # ---- C11
    (B, "C11", "constitution/tensortrax/models/lagrange/_morph.py", "LG = sym(dev(invC @ dC)) @ CG", "LG = sym(dev(invC @ dC)) @ F"),
    (B, "C11", "constitution/tensortrax/models/hyperelastic/_mooney_rivlin.py", "I2 = (I1**2 - J3**2 * trace(C @ C)) / 2", "I2 = (I1**2 - J3 * trace(C @ C)) / 2"),
    (B, "C11,C03", "constitution/hyperelasticity/_neo_hooke_compressible.py", "Pb = np.multiply(iFT, -mu + lmbda_lnJ, out=iFT)", "Pb = np.multiply(transpose(iFT), -mu + lmbda_lnJ, out=iFT)"),
    # ---- C12
    (B, "C12", "constitution/jax/models/hyperelastic/_yeoh.py", "C20 * (I1 - 3) ** 2", "C20 * (I1 - 3) ** 3"),
    (B, "C12", "constitution/jax/models/hyperelastic/_storakers.py", "[0, -1e-4, 1e-4]", "[0, -1e-2, 1e-2]"),
    (B, "C12", "constitution/linear_elasticity/_linear_elastic.py", "nu_eff = nu / (1 - nu)", "nu_eff = nu / (1 + nu)"),
    (B, "C12", "constitution/linear_elasticity/_lame_converter.py", "μ1 = C[3, 3] - C[4, 4] + C[5, 5]", "μ1 = C[3, 3] + C[4, 4] - C[5, 5]"),
    # ---- C13
    (B, "C13", "region/_boundary.py", "i = [11, 9, 8, 10, 8, 12]", "i = [9, 11, 8, 10, 8, 12]"),
    (B, "C13", "region/_boundary.py", "dA = -dA_1 * self.quadrature.weights.reshape(-1, 1)", "dA = dA_1 * self.quadrature.weights.reshape(-1, 1)"),
    (B, "C13", "region/_boundary.py", "self._mask = counts == 1", "self._mask = counts >= 1"),
    # ---- C14
    (B, "C14", "mechanics/_pointload.py", "force[self.apply_on][self.points] *= 2 * np.pi * radius", "force[self.apply_on][self.points] *= np.pi * radius"),
    (B, "C14", "mechanics/_solidbody_gravity.py", "self.results.density * self.results.gravity.reshape(-1, 1, 1)", "self.results.gravity.reshape(-1, 1, 1)"),
    # ---- C15
    (B, "C15", "mechanics/_step.py", "item.update(value[substep])", "item.update(value[substep - 1])"),
    (B, "C15", "mechanics/_solidbody.py", "self.results.stress, self.results._statevars = gradient[:-1], gradient[-1]", "self.results.stress, self.results.statevars = gradient[:-1], gradient[-1]"),
    # ---- C16
    (B, "C16", "mesh/_tools.py", "k = [3, 7, 4, 6, 6, 2]", "k = [3, 7, 4, 6, 2, 6]"),
    (B, "C16", "mesh/_convert.py", "j = [1, 2, 3, 0, 5, 6, 7, 4, 4, 5, 6, 7]", "j = [1, 2, 3, 0, 5, 6, 7, 4, 4, 5, 7, 6]"),
    (B, "C16", "mesh/_tools.py", '"hexahedron": ([0, 1, 2, 3], [4, 5, 6, 7]),', '"hexahedron": ([0, 1, 2, 3],),'),
    (B, "C16", "mesh/_convert.py", "        number_of_vertices = 4\n", "        number_of_vertices = 3\n"),
    # ---- C17
    (B, "C17", "math/_tensor.py", "x1 = np.multiply(A[0, 2], A[1, 1], out=x1)", "x1 = np.multiply(A[0, 2], A[1, 0], out=x1)"),
    (B, "C17", "math/_tensor.py", "B[dim[0] :] *= 2", "B[dim[0] - 1 :] *= 2"),
    (B, "C17", "math/_tensor.py", '"ijkm...,ml...->ijkl..."', '"ijkm...,lm...->ijkl..."'),
    # ---- C18
    (B, "C18", "mechanics/_free_vibration.py", "M = mass[self.dof1][:, self.dof1]", "M = mass[self.dof1][:, : len(self.dof1)]"),
    (B, "C18", "mechanics/_free_vibration.py", "frequency = np.sqrt(self.eigenvalues[n]) / (2 * np.pi)", "frequency = np.sqrt(self.eigenvalues[n])"),
    # ---- C19
    (B, "C19", "tools/_project.py", "1 / region.mesh.cells_per_point,", "1 + 0 * region.mesh.cells_per_point,"),
    (B, "C19", "view/_solid.py", "tovoigt(stress.mean(-2)).T", "tovoigt(stress.mean(-1)).T"),
    # ---- C20
    (B, "C20", "tools/_save.py", 'point_data["Displacements"] = u.values', 'point_data["Displacements"] = u.values * 2'),
    (B, "C20,C16", "mesh/_container.py", "        for m in self.meshes:\n            m.update(points=points)\n\n    def pop", "        for m in self.meshes:\n            m.points = points\n\n    def pop"),
    # ---- further classes learnt from the sub-agent round (falsy guards, aliasing, configuration-specific slips)
    (B, "C02", "assembly/expression/_bilinear.py", "            aibj = zip(idx_a.ravel(), idx_i.ravel(), idx_b.ravel(), idx_j.ravel())\n\n            def contribution", "            aibj = zip(*np.indices(values.shape[:4]).reshape(4, -1))\n\n            def contribution"),
    (B, "C18,C01", "tools/_newton.py", "if body.assemble.multiplier is not None:\n            K *= body.assemble.multiplier", "if body.assemble.multiplier:\n            K *= body.assemble.multiplier"),
    (B, "C13", "region/_boundary.py", "tangents.append(dX_1 / np.linalg.norm(dX_1, axis=0))", "tangents.append(dX_1)"),
    (B, "C19", "tools/_project.py", "        values = np.average(values, axis=-2, weights=weights)\n        values = np.expand_dims(values, axis=-2)\n\n    shape = values.shape[:-2]", "        values = np.mean(values, axis=-2)\n        values = np.expand_dims(values, axis=-2)\n\n    shape = values.shape[:-2]"),
    (B, "C20", "mechanics/_job.py", "                    time += 1", "                    time += i"),
    # ---- classes learnt in round 6 (eigen-pair order, absolute thresholds, alternative spellings of an argument, stress-based materials)
    (B, "C12", "constitution/tensortrax/models/hyperelastic/_saint_venant_kirchhoff_orthotropic.py", 'E = einsum("a...,aij...->ij...", Ek, M)', 'E = einsum("j...,aij...->ij...", Ek, M)'),
    (B, "C12", "constitution/tensortrax/models/hyperelastic/_saint_venant_kirchhoff_orthotropic.py", "            Ek = (λ2 ** (k / 2) - 1) / k\n", "            Ek = (λ2 ** (k / 2) - 1) / 2\n"),
    (B, "C01,C14", "mechanics/_multipoint.py", "        self.points = self.points[self.points != ids[centerpoint]]\n", "        pass\n"),
    (B, "C13", "region/_boundary.py", "        normals = dA / dV\n", "        normals = np.divide(dA, dV, out=np.zeros_like(dA), where=dV > 1e-9)\n"),
    (B, "C18", "mechanics/_free_vibration.py", "        self.eigenvalues, self.eigenvectors = solver(A=K, M=M, sigma=sigma, **kwargs)", "        self.eigenvalues, self.eigenvectors = solver(A=K, M=M, sigma=sigma, **kwargs)\n        self.eigenvalues = np.abs(self.eigenvalues)"),
    (B, "C08,C09", "dof/_tools.py", "            value = value.ravel()\n", '            value = value.ravel(order="K")\n'),
    (B, "C03", "constitution/_mixed.py", "        self._FA4bb = ddot(F, self._A4bb, mode=(2, 4), parallel=self.parallel)", "        self._FA4bb = ddot(self._A4bb, F, mode=(4, 2), parallel=self.parallel)"),
    (B, "C02", "assembly/expression/_bilinear.py", "                len_ubasis = values.shape[3]", "                len_ubasis = values.shape[2]"),
    (B, "C06,C04", "element/_quad.py", "        d2hdrds[sa == 0] = ra[sa == 0] * -s", "        d2hdrds[sa == 0] = ra[sa == 0] * -r"),
    # ---- the repairs of rounds 7 and 8 reverted or bent (each obligation that found a defect has to keep finding it)
    (B, "C08", "mesh/_dual.py", "        cells_new = cells_new + offset\n", "        cells_new += offset\n"),
    (B, "C02", "assembly/expression/_mixed.py", "sym=sym and i == j", "sym=sym"),
    (B, "C12", "constitution/linear_elasticity/_linear_elastic.py", "        e[2, 2] = -nu / (1 - nu) * (e[0, 0] + e[1, 1])", "        e[2, 2] = -nu / (1 - nu) * (F[0, 0] + F[1, 1])"),
    (B, "C01,C14", "mechanics/_multipoint.py", "        self.points = np.unique(ids[self.points])\n", "        self.points = np.unique(self.points)\n"),
    (B, "C18", "mechanics/_free_vibration.py", 'kwargs.pop("sigma", 0)', 'kwargs.get("sigma", 0)'),
    (B, "C03", "constitution/_base.py", 'out = kwargs.pop("out", None)\n        gradients', 'out = kwargs.get("out", None)\n        gradients'),
    (B, "C03", "constitution/hyperelasticity/_neo_hooke_nearly_incompressible.py", "            A4.fill(0)\n", "            np.multiply(A4, 0, out=A4)\n"),
    (B, "C13", "region/_boundary.py", "        if self.evaluate_gradient:\n            self.dA, self.dV, self.normals, self.tangents = self._init_faces()\n\n    def _init_faces",
     "        if self.evaluate_gradient and not hasattr(self, \"dA\"):\n            self.dA, self.dV, self.normals, self.tangents = self._init_faces()\n\n    def _init_faces"),
    (B, "C16", "mesh/_tools.py", "        points_new = np.asarray(points)[index]\n", "        points_new = np.round(np.asarray(points)[index], decimals)\n"),
    (B, "C07", "solve/_solve.py", "    dr0 = K10.dot(ext0 - u0)\n", "    dr0 = K10.dot(np.zeros_like(u0) if np.isscalar(ext0) else ext0 - u0)\n"),
    (B, "C02", "assembly/expression/_mixed.py", "        self.dx = self.v.field[0].region.dV if dx is None else dx\n        self._form = IntegralForm(np.zeros(len(v.field.fields))", "        self.dx = self.v.field[0].region.dV\n        self._form = IntegralForm(np.zeros(len(v.field.fields))"),
    (B, "C15", "mechanics/_job.py", '                    if "x0" in kwargs.keys():\n                        kwargs["x0"].link(substep.x)\n', '                    if "x0" in kwargs.keys() and i == 0:\n                        kwargs["x0"].link(substep.x)\n'),
    (B, "C09,C01", "tools/_newton.py", "            r *= body.assemble.multiplier", "            r = r * body.assemble.multiplier"),
    (B, "C06,C19", "region/_region.py", "            region.h = np.ascontiguousarray(np.expand_dims(region.element.h, -1))", "            region.h = np.ascontiguousarray(np.expand_dims(getattr(region.element, \"h0\", region.element.h), -1))\n            region.element.h0 = region.element.h"),
    (B, "C16", "mesh/_tools.py", "        points_phi = phi\n        n = len(points_phi)\n", "        points_phi = phi\n"),
    (B, "C19", "tools/_project.py", "    idx[: len(dim)] = idx[: len(dim)][::-1]", "    idx[: len(dim)] = np.roll(idx[: len(dim)], 1)"),
    # ---- round 9: the two further repairs reverted, and its classes
    (B, "C06", "region/_region.py", "                        region.d2hdrdr\n                        - np.einsum(\"aMqc,MIJqc->aIJqc\", region.dhdX, d2Xdrdr),\n", "                        region.d2hdrdr,\n"),
    (B, "C09", "mechanics/_curve.py", ".values[self.boundary.points[0]].copy())", ".values[self.boundary.points[0]])"),
    (B, "C15", "dof/_boundary.py", "        self.value = value  #\n", "        if isinstance(self.value, np.ndarray):\n            self.value[...] = value\n        else:\n            self.value = value\n"),
    (B, "C10", "field/_dual.py", "            RegionQuadraticQuad: RegionConstantQuad,", "            RegionQuadraticQuad: RegionQuad,"),
    (B, "C17,C20", "math/_tensor.py", "        B[dim[0] :] *= 2", "        B[3:] *= 2"),
    (B, "C09,C08", "dof/_loadcase.py", "                lefts[i] = f.region.mesh.points[:, axis].min()", "                lefts[i] = f.region.mesh.points[:, axes].min()"),
    (B, "C03", "constitution/hyperelasticity/_neo_hooke_nearly_incompressible.py", "        mu = self.mu\n        bulk = self.bulk\n\n        J = det(F)\n        iFT = transpose(inv(F, J))\n\n        A4 = out", "        mu = self.kwargs.get(\"mu\")\n        bulk = self.kwargs.get(\"bulk\")\n\n        J = det(F)\n        iFT = transpose(inv(F, J))\n\n        A4 = out"),
    # ---- round 10: repairs reverted and its classes
    (B, "C04,C06", "element/_lagrange.py", "def lagrange_quad(order):\n    \"Return the cell-connectivity for an arbitrary-order Lagrange quad.\"\n\n    # a cell of order zero has one (constant) point only\n    if order == 0:\n        return np.zeros(1, dtype=int)\n",
     "def lagrange_quad(order):\n    \"Return the cell-connectivity for an arbitrary-order Lagrange quad.\"\n"),
    (B, "C16", "mesh/_tools.py", "    if points_phi[-1] - points_phi[0] == 360:", "    if points_phi[-1] == 360:"),
    (B, "C07,C08", "dof/_tools.py", "offsets = np.insert(field.offsets, 0, 0)", "offsets = np.insert(np.array(field.fieldsizes)[:-1], 0, 0)"),
    (B, "C13", "region/_boundary.py", "            point_selection = np.arange(len(mesh.points))[mask]", "            point_selection = np.flatnonzero(mask)"),
    (B, "C19", "tools/_project.py", "    A = IntegralFormCartesian(np.ones((1, 1)), v=v, dV=dV, u=u).assemble()", "    A = IntegralFormCartesian(np.ones((1, 1)), v=v, dV=region.dV, u=u).assemble()"),
    # ---- round 12: the repair reverted and the three classes its misses taught
    (B, "C14", "mechanics/_pointload.py", "        np.add.at(force[self.apply_on], self.points, self.values)\n", "        force[self.apply_on][self.points] += self.values\n"),
    (B, "C06", "region/_region.py", "                if np.any(region.dV < 0):\n", "                if np.any(region.dV.sum(axis=1) < 0):\n"),
    (K, "C06", "region/_region.py", "                if np.any(region.dV < 0):\n", "                if np.any(np.any(region.dV < 0, axis=0)):\n"),
    # ---- round 11: the repair reverted and its classes
    (B, "C01,C14", "mechanics/_multipoint.py", "        self.points = np.unique(ids[self.points])\n", "        self.points = ids[self.points]\n"),
    (B, "C01,C14", "mechanics/_multipoint.py", "        self.points = np.unique(np.arange(self.mesh.npoints)[self.points])\n", "        self.points = np.arange(self.mesh.npoints)[self.points]\n"),
    (B, "C15,C03", "constitution/_mixed.py", "        return [dWdF, dWdp, dWdJ, statevars_new]", "        return [dWdF, dWdp, dWdJ, statevars]"),
    (B, "C19", "quadrature/_gauss_legendre.py", "        points[self.points != 0] = 1 / points[self.points != 0]", "        nz = np.all(points != 0, axis=-1)\n        points[nz] = 1 / points[nz]"),
    (B, "C11", "constitution/tensortrax/models/hyperelastic/microsphere/_framework_affine.py",
     "    λa = det(C) ** (1 / 6) * sqrt(einsum(\"ai,ij...,aj->a...\", r, inv(C), r))\n    ψa, statevars_new", "    λa = sqrt(det(C) ** (1 / 6) * einsum(\"ai,ij...,aj->a...\", r, inv(C), r))\n    ψa, statevars_new"),
    (B, "C18", "mechanics/_free_vibration.py", "        values = np.zeros(sum(field.fieldsizes))\n", "        values = np.concatenate([f.values.ravel() for f in field.fields]).astype(float)\n"),
    (B, "C13", "region/_boundary.py", "        if mesh is not None and not hasattr(mesh, \"cells_faces\"):\n            mesh = self._mesh_boundary_cells(mesh)\n", ""),
    (B, "C20", "tools/_save.py", "    point_data = dict(point_data)\n", ""),
    (B, "C17,C16", "math/_spatial.py", "        if axis < 0:\n            axis += 3\n", ""),
    (B, "C08", "mesh/_dual.py", "        points_new = np.pad(points_new, ((0, npoints - len(points_new)), (0, 0)))", "        points_new = np.pad(points_new, ((npoints - len(points_new), 0), (0, 0)))"),
    (B, "C12", "constitution/tensortrax/models/hyperelastic/_blatz_ko.py", "    return mu / 2 * (I2 / I3 + 2 * sqrt(I3) - 5)", "    return mu * (I2 / I3 + 2 * sqrt(I3) - 5)"),
    (B, "C12", "constitution/tensortrax/models/hyperelastic/_yeoh.py", "C10 * (I1 - 3)", "C10 / 2 * (I1 - 3)"),
    (K, "C12", "constitution/tensortrax/models/hyperelastic/_blatz_ko.py", "    return mu / 2 * (I2 / I3 + 2 * sqrt(I3) - 5)", "    return (I2 / I3 + 2 * sqrt(I3) - 5) * mu * 0.5"),
    (K, "C18", "mechanics/_free_vibration.py", "        dof0, self.dof1 = partition(x, self.boundaries)", "        self.dof0, self.dof1 = partition(x, self.boundaries)"),
    (K, "C11", "constitution/tensortrax/models/hyperelastic/microsphere/_framework_affine.py",
     "    λa = det(C) ** (1 / 6) * sqrt(einsum(\"ai,ij...,aj->a...\", r, inv(C), r))\n    ψa, statevars_new", "    λa = sqrt(det(C) ** (1 / 3) * einsum(\"ai,ij...,aj->a...\", r, inv(C), r))\n    ψa, statevars_new"),
    # ---- behaviour-preserving edits: the listed checks must stay silent
    (K, "C04", "element/_quad.py", "            * 0.25\n        )\n\n    def gradient", "            / 4\n        )\n\n    def gradient"),
    (K, "C17,C03", "math/_tensor.py", "    out = np.add(A, transpose(A), out=out)\n    return np.multiply(out, 0.5, out=out)", "    out = np.add(A, transpose(A), out=out)\n    return np.divide(out, 2, out=out)"),
    (K, "C17", "math/_tensor.py", 'return einsum("ik...,kj...->ij...", A, B, **kwargs)', 'return einsum("im...,mj...->ij...", A, B, **kwargs)'),
    (K, "C03,C11", "constitution/hyperelasticity/_neo_hooke_compressible.py", "W = mu * (trace(C) / 2 - lnJ)", "W = mu * (0.5 * trace(C) - lnJ)"),
    (K, "C02,C01", "assembly/_cartesian.py", "caibk1 = np.tile(cbk, (1, cai.shape[1] * self.v.dim, 1)).ravel()", "ntile = cai.shape[1] * self.v.dim\n            caibk1 = np.tile(cbk, (1, ntile, 1)).ravel()"),
    (K, "C07,C15", "tools/_newton.py", "        if success:\n            break\n", "        if success is True or success:\n            break\n"),
    (K, "C07", "solve/_solve.py", "du[dof1] = du1\n    du[dof0] = ext0 - u0", "du[dof0] = ext0 - u0\n    du[dof1] = du1"),
    (K, "C05", "quadrature/_triangle.py", "scheme.points = np.ones((1, 2)) / 3", "scheme.points = np.full((1, 2), 1 / 3)"),
    (K, "C08", "dof/_tools.py", "    mask = np.ones_like(dof.ravel(), dtype=bool)\n", "    mask = np.ones(dof.size, dtype=bool)\n"),
    (K, "C13", "region/_boundary.py", "    i = [3, 1, 0, 2]\n    j = [0, 2, 1, 3]", "    i = list((3, 1, 0, 2))\n    j = list((0, 2, 1, 3))"),
    (K, "C16", "mesh/_tools.py", "points_new[:, axis] += move", "points_new[:, axis] = points_new[:, axis] + move"),
    (K, "C12,C11", "constitution/jax/models/hyperelastic/_neo_hooke.py", "return mu / 2 * (det(C) ** (-1 / 3) * trace(C) - 3)", "J3 = det(C) ** (-1 / 3)\n    return (J3 * trace(C) - 3) * mu / 2"),
    (K, "C15", "mechanics/_step.py", "            if stop:\n                break\n", "            if stop is True:\n                break\n"),
    (K, "C20", "mechanics/_job.py", "                    time += 1", "                    time = time + 1"),
    (K, "C06", "region/_region.py", "                region.dV = np.multiply(\n                    J, region.quadrature.weights.reshape(-1, 1), out=J\n                )", "                region.dV = J * region.quadrature.weights.reshape(-1, 1)"),
    (K, "C13", "region/_boundary.py", "        normals = dA / dV\n", "        normals = np.divide(dA, dV, out=np.zeros_like(dA), where=dV > 0)\n"),
    (K, "C12", "constitution/tensortrax/models/hyperelastic/_saint_venant_kirchhoff_orthotropic.py", 'E = einsum("a...,aij...->ij...", Ek, M)', 'E = einsum("b...,bij...->ij...", Ek, M)'),
    (K, "C08,C09", "dof/_tools.py", "            value = value.ravel()\n", '            value = value.reshape(-1)\n'),
    (K, "C08", "mesh/_dual.py", "        cells_new = cells_new + offset\n", "        cells_new = offset + cells_new\n"),
    (K, "C03", "constitution/hyperelasticity/_neo_hooke_nearly_incompressible.py", "            A4.fill(0)\n", "            A4[...] = 0\n"),
    (K, "C18", "mechanics/_free_vibration.py", 'sigma = kwargs.pop("sigma", 0)\n        self.eigenvalues, self.eigenvectors = solver(A=K, M=M, sigma=sigma, **kwargs)', 'kwargs.setdefault("sigma", 0)\n        self.eigenvalues, self.eigenvectors = solver(A=K, M=M, **kwargs)'),
    (K, "C07", "solve/_solve.py", "    dr0 = K10.dot(ext0 - u0)\n", "    du0 = ext0 - u0\n    dr0 = K10.dot(du0)\n"),
    (K, "C06", "region/_region.py", "                        region.d2hdrdr\n                        - np.einsum(\"aMqc,MIJqc->aIJqc\", region.dhdX, d2Xdrdr),\n", "                        -(np.einsum(\"aMqc,MIJqc->aIJqc\", region.dhdX, d2Xdrdr) - region.d2hdrdr),\n"),
    (K, "C09", "mechanics/_curve.py", ".values[self.boundary.points[0]].copy())", ".values[self.boundary.points[0]] + 0)"),
    (K, "C16", "mesh/_tools.py", "    if points_phi[-1] - points_phi[0] == 360:", "    if (points_phi[-1] - points_phi[0]) == 360:"),
    (K, "C19,C18", "mechanics/_solidbody.py", "        return dot(P, transpose(F))\n\n    def _cauchy_stress", "        FT = transpose(F)\n        return dot(P, FT)\n\n    def _cauchy_stress"),
]


def run_one(idx, entry, jobs):
    kind, pids, relf, old, new = entry
    tmp = tempfile.mkdtemp(prefix="fvself_")
    res = dict(idx=idx, kind=kind, file=relf, old=old[:60], new=new[:60], checks={})
    try:
        # the tree the edits are applied to: /repo's sources (a clean copy of them can be named while something else patches /repo)
        shutil.copytree(os.environ.get("FVERIF_SELFTEST_SRC", "/repo/src"), os.path.join(tmp, "src"), ignore=shutil.ignore_patterns("__pycache__", "*.egg-info"))
        p = os.path.join(tmp, "src", "felupe", relf)
        s = open(p).read()
        n = s.count(old)
        if n != 1:
            res["error"] = "pattern occurs %d times" % n
            return res
        open(p, "w").write(s.replace(old, new))
        import py_compile
        py_compile.compile(p, doraise=True)
        for pid in pids.split(","):
            t0 = time.time()
            r = subprocess.run(["python3-vt", "-m", "fverif", "check", pid, "--repo", tmp, "--jobs", str(jobs)], cwd=VERIF, capture_output=True, text=True, timeout=1800,
                               env=dict(os.environ, FVERIF_EVIDENCE_DIR=os.path.join(tmp, "ev"), FVERIF_REPLAY_DIR=os.path.join(tmp, "rp")))
            first = [l for l in r.stdout.splitlines() if l.strip().startswith("violated")][:1]
            res["checks"][pid] = dict(exit=r.returncode, wall=round(time.time() - t0, 1), first=first[0][:200] if first else "")
    except Exception as e:  # noqa
        res["error"] = "%s: %s" % (type(e).__name__, e)
    finally:
        shutil.rmtree(tmp, ignore_errors=True)
    return res


def main(args):
    only = args.only
    entries = [(i, e) for i, e in enumerate(CORPUS) if only is None or only in e[1] or only == e[0]]
    workers = 4
    jobs = 4
    out = []
    t0 = time.time()
    with cf.ThreadPoolExecutor(workers) as ex:
        futs = [ex.submit(run_one, i, e, jobs) for i, e in entries]
        for f in cf.as_completed(futs):
            r = f.result()
            out.append(r)
            exp = 1 if r["kind"] == B else 0
            okk = "error" not in r and all(c["exit"] == exp for c in r["checks"].values()) if r["kind"] == K else ("error" not in r and any(c["exit"] == 1 for c in r["checks"].values()))
            print("%-8s %-3d %-55s %s %s" % (r["kind"], r["idx"], r["file"], {k: v["exit"] for k, v in r["checks"].items()}, "ok" if okk else "UNEXPECTED " + r.get("error", "")))
    out.sort(key=lambda r: r["idx"])
    killed = sum(1 for r in out if r["kind"] == B and any(c["exit"] == 1 for c in r["checks"].values()))
    nb = sum(1 for r in out if r["kind"] == B)
    silent = sum(1 for r in out if r["kind"] == K and "error" not in r and all(c["exit"] == 0 for c in r["checks"].values()))
    nk = sum(1 for r in out if r["kind"] == K)
    summary = dict(breaking=nb, killed=killed, preserving=nk, silent=silent, wall_s=round(time.time() - t0, 1))
    os.makedirs(os.path.join(VERIF, "selftest"), exist_ok=True)
    if only is None:
        with open(os.path.join(VERIF, "selftest", "RESULTS.json"), "w") as f:
            json.dump(dict(summary=summary, entries=out), f, indent=1)
    print(summary)
    return 0 if (killed == nb and silent == nk) else 1
