"""C20.O3: fem.save(..., point_data=d) fills the caller's dictionary in place; a later save with the same dictionary and no forces writes
the reaction forces of the earlier call.  Run with felupe on sys.path (before / after the fix)."""
import os
import tempfile

import meshio
import numpy as np
import felupe as fem

mesh = fem.Cube(n=3)
region = fem.RegionHexahedron(mesh)
field = fem.FieldContainer([fem.Field(region, dim=3)])
mine = {"Mine": np.arange(mesh.npoints, dtype=float)}
forces = np.arange(field[0].values.size, dtype=float)
with tempfile.TemporaryDirectory() as tmp:
    fem.save(region, field, forces=forces, filename=os.path.join(tmp, "a.vtu"), point_data=mine)
    fem.save(region, field, filename=os.path.join(tmp, "b.vtu"), point_data=mine)
    keys = sorted(meshio.read(os.path.join(tmp, "b.vtu")).point_data)
print("caller's dictionary afterwards:", sorted(mine), " second file:", keys)
ok = sorted(mine) == ["Mine"] and keys == ["Displacements", "Mine"]
print("OK" if ok else "DEFECT")
raise SystemExit(0 if ok else 1)
