"""C08 -- one global numbering of unknowns; boundary conditions partition it exactly (DESIGN.md section 3, C08)."""

import itertools
from fractions import Fraction

import numpy as np

from .. import ring, npmodel, micro
from ..ring import P, sym, is_zero, ZERO, ONE
from ..common import new_interp, symarray, finish_info, method_where
from ..interp import InterpRaise

SPEC = dict(
    level="proof",
    rule="O1: Field._indices_per_cell, Indices and Boundary.apply_mask are evaluated from source with *symbolic point ids*: "
    "cai[c,a,i] == dim*cells[c,a]+i, indices.dof[p,i] == dim*p+i, Boundary.dof == indices.dof[mask]. O2: FieldContainer.offsets == "
    "cumsum(fieldsizes)[:-1] and all eight arithmetic operators, math.values and dof.apply split / concatenate the global vector with these "
    "offsets in container order (symbolic increments). O3/O4: dof.partition / dof.apply are evaluated from source, with felupe's own "
    "Boundary objects, on lattice meshes (2D and 3D, one point without cells, mixed container with a dual field) for an exhaustive family of "
    "boundary dictionaries (coordinate predicates on every lattice value, modes and/or, every skip tuple, point and dof masks, scalar and "
    "array values, overlapping boundaries on both fields); the result is compared with the set semantics: dof0 = sorted union of the "
    "boundaries' unknowns (shifted by the field offset) plus the unknowns of points without cells, dof1 = sorted complement, ext0 = the "
    "prescribed value at the position of its unknown. O5: symmetry / uniaxial / biaxial / shear for every discrete argument combination in "
    "2D and 3D: the prescribed unknowns and values equal the mechanics table coded in the checker (a symmetry plane fixes the displacement "
    "component normal to it, move acts on the longitudinal component of the right face, clamped fixes the transversal components, ...).",
    trusted_base=["numpy integer / boolean array semantics (native)", "isclose on the exact lattice coordinates == equality",
                  "load-case table in fverif/props/c08.py (spec; follows the code's and every caller's reading of symmetry, whose docstring table lists the complemented skip tuples)"],
    explanation="index-set semantics decided by exhaustive enumeration of the discrete configurations on small lattice meshes + symbolic point ids for the numbering formulas",
    exhaustive=True,
    not_decided=["coordinate predicates on runtime meshes with inexact coordinates"],
    assumptions=[],
)

FLOORS = {"load-case configurations": ("loadcase_configs", 300), "partition configurations": ("partition_configs", 100)}


def tasks(tier):
    return [
        ("numbering", "run_numbering", {}),
        ("offsets", "run_offsets", {}),
        ("partition 2d", "run_partition", dict(dim=2)),
        ("partition 3d", "run_partition", dict(dim=3)),
        ("loadcases 2d", "run_loadcases", dict(dim=2)),
        ("loadcases 3d", "run_loadcases", dict(dim=3)),
        # the point without cells carries the lowest id: its unknowns of the scalar field are in range for any numbering rule
        ("partition 2d, cell-less point first", "run_partition", dict(dim=2, orphan="first")),
        ("partition 3d, cell-less point first", "run_partition", dict(dim=3, orphan="first")),
        ("loadcases 2d, cell-less point first", "run_loadcases", dict(dim=2, orphan="first")),
        # more than one point without cells (several control points / unused nodes)
        ("partition 2d, two cell-less points", "run_partition", dict(dim=2, orphan="two")),
        ("partition 3d, two cell-less points", "run_partition", dict(dim=3, orphan="two")),
        ("loadcases 2d, two cell-less points", "run_loadcases", dict(dim=2, orphan="two")),
        ("loadcases 3d, two cell-less points", "run_loadcases", dict(dim=3, orphan="two")),
        # where the set of points without cells comes from, and the dual meshes mixed containers are built on
        ("three fields 2d", "run_three_fields", dict(dim=2)),
        ("three fields 3d", "run_three_fields", dict(dim=3)),
        ("points without cells", "run_discrete_geometry", {}),
        ("dual mesh", "run_dual_mesh", {}),
    ]


# ------------------------------------------------------------------------------------------
class LatticeMesh:
    """points on the lattice {0, 1/2, 1}^dim plus one point without cells (coordinates 2, 3, 4)"""

    def __init__(self, dim, orphan="last"):
        self.dim = dim
        vals = [Fraction(0), Fraction(1, 2), Fraction(1)]
        pts = [list(p) for p in itertools.product(vals, repeat=dim)]
        far = [Fraction(2 + k) for k in range(dim)]  # the largest coordinate differs from axis to axis
        if orphan == "first":
            pts.insert(0, far)
        else:
            pts.append(far)
        if orphan == "two":
            pts.append([Fraction(-(k + 1), 4) for k in range(dim)])  # a second point without cells, on none of the lattice planes; it makes the smallest coordinate differ from axis to axis
        self.coords = pts
        self.points = npmodel.array(pts, dtype=npmodel.DType("float"))
        self.npoints = len(pts)
        # two cells that together use every lattice point (content irrelevant for the dof tools)
        n = self.npoints - (2 if orphan == "two" else 1)
        half = n // 2 + 1
        self.cells = np.array([list(range(half)), list(range(n - half, n))])
        self.orphan = n
        self.points_with_cells = np.arange(n)
        if orphan == "first":
            self.cells = self.cells + 1
            self.orphan = 0
            self.points_with_cells = np.arange(1, n + 1)
        self.orphans = [self.orphan] + ([n + 1] if orphan == "two" else [])
        self.ncells = 2
        self.ndof = self.npoints * dim
        self.points_without_cells = np.array(self.orphans)
        self.cell_type = "fake"


class LatticeRegion:
    def __init__(self, mesh):
        self.mesh = mesh
        self.quadrature = micro.FakeQuadrature(1, mesh.dim)
        self.h = None


def make_container(it, dim, mixed=True, orphan="last"):
    mesh = LatticeMesh(dim, orphan)
    reg = LatticeRegion(mesh)
    F = it.get("felupe.field._base:Field")
    f0 = it.call(F, [reg], dict(dim=dim))
    it.setattr(f0, "values", symarray("U", (mesh.npoints, dim)))
    fields = [f0]
    if mixed:
        dmesh = LatticeMesh(dim, orphan)
        dreg = LatticeRegion(dmesh)
        f1 = it.call(F, [dreg], dict(dim=1))
        it.setattr(f1, "values", symarray("Q", (dmesh.npoints, 1)))
        fields.append(f1)
    fc = micro.container(it, fields)
    return fc, fields, mesh


def run_numbering(col):
    it = new_interp()
    F = it.get("felupe.field._base:Field")
    fn = F.find("_indices_per_cell")[0]
    for dim in (1, 2, 3):
        cells = symarray("n", (2, 3))
        cai, ai = it.call(fn, [None, cells, dim], {})
        cai = npmodel.to_obj(cai)
        bad = [(c, a, i) for c in range(2) for a in range(3) for i in range(dim) if not is_zero(P(cai[c, a, i]) - (cells[c, a] * dim + i))]
        flat = npmodel.to_obj(ai[0])
        okai = all(is_zero(P(flat[(c * 3 + a) * dim + i]) - (cells[c, a] * dim + i)) for c in range(2) for a in range(3) for i in range(dim)) and all(not P(v).t for v in npmodel.to_obj(ai[1]))
        col.add("C08.O1", "Field._indices_per_cell dim=%d" % dim, "cai[c,a,i] == dim * cells[c,a] + i for symbolic point ids; ai = (flattened row-major, zeros)", not bad and cai.shape == (2, 3, dim) and okai,
                "%s: %s" % (method_where(F, "_indices_per_cell"), bad[:4]))
    for dim in (2, 3):
        fc, fields, mesh = make_container(it, dim, mixed=False)
        ind = it.getattr(fields[0], "indices")
        dof = npmodel.to_int_array(np.asarray(it.getattr(ind, "dof")))
        okd = dof.shape == (mesh.npoints, dim) and all(dof[p, i] == dim * p + i for p in range(mesh.npoints) for i in range(dim))
        col.add("C08.O1", "Indices.dof dim=%d" % dim, "indices.dof[p,i] == dim * p + i; shape (npoints*dim, 1)", okd and tuple(it.getattr(ind, "shape")) == (mesh.npoints * dim, 1))
        B = it.get("felupe.dof._boundary:Boundary")
        mask = np.zeros((mesh.npoints, dim), dtype=bool)
        mask[1, 0] = mask[3, dim - 1] = mask[4, 0] = True
        b = it.call(B, [fields[0]], dict(mask=mask))
        got = sorted(npmodel.to_int_array(np.asarray(it.getattr(b, "dof"))).tolist())
        want = sorted([dim * 1 + 0, dim * 3 + dim - 1, dim * 4 + 0])
        pts = sorted(npmodel.to_int_array(np.asarray(it.getattr(b, "points"))).tolist())
        col.add("C08.O1", "Boundary.apply_mask dof-mask dim=%d" % dim, "Boundary.dof == indices.dof[mask] and Boundary.points == points with any selected component", got == want and pts == [1, 3, 4], "%s %s" % (got, pts))
    finish_info(col, it)


def run_offsets(col):
    it = new_interp()
    fc, fields, mesh = make_container(it, 2)
    n0, n1 = mesh.npoints * 2, mesh.npoints
    offs = npmodel.to_int_array(np.asarray(it.getattr(fc, "offsets"))).tolist()
    col.add("C08.O2", "FieldContainer.offsets", "offsets == cumsum(fieldsizes)[:-1] (start index of every field but the first)", offs == [n0] and list(it.getattr(fc, "fieldsizes")) == [n0, n1], str(offs))
    vals = it.get("felupe.math._field:values")
    v = npmodel.to_obj(it.call(vals, [fc], {}))
    U, Q = fields[0].attrs["values"], fields[1].attrs["values"]
    okv = all(is_zero(P(v[2 * p + i]) - U[p, i]) for p in range(mesh.npoints) for i in range(2)) and all(is_zero(P(v[n0 + p]) - Q[p, 0]) for p in range(mesh.npoints))
    col.add("C08.O2", "math.values", "global vector = field values raveled row-major, fields in container order", okv and v.shape == (n0 + n1,))
    dx = symarray("dx", (n0 + n1,))
    ops = {"__add__": lambda a, b: a + b, "__sub__": lambda a, b: a - b, "__mul__": lambda a, b: a * b, "__truediv__": lambda a, b: a * ring.inv(b)}
    for name, ref in ops.items():
        for inplace in (False, True):
            meth = name if not inplace else "__i" + name[2:]
            work = it.call_method(fc, "copy", [])
            res = it.call_method(work, meth, [dx])
            got = []
            for f in res.attrs["fields"]:
                got.extend(npmodel.to_obj(f.attrs["values"]).reshape(-1).tolist())
            bad = [k for k in range(n0 + n1) if not is_zero(P(got[k]) - ref(P(v[k]), dx[k]))]
            same = (res is work) == inplace
            untouched = all(is_zero(P(a) - P(b)) for a, b in zip(npmodel.to_obj(it.call(vals, [fc], {})), v))
            col.add("C08.O2", "FieldContainer.%s" % meth, "entry k of a global vector acts on global unknown k: the vector is split at the offsets, each part reshaped (points, dim) for its field; "
                    "the non-in-place form leaves the operand unchanged", not bad and same and untouched, "entries %s" % bad[:5])
    # a list of per-field arrays is accepted as well
    parts = [symarray("p0", (mesh.npoints, 2)), symarray("p1", (mesh.npoints, 1))]
    res = it.call_method(fc, "__add__", [parts])
    g0 = npmodel.to_obj(res.attrs["fields"][0].attrs["values"])
    col.add("C08.O2", "FieldContainer.__add__ (list)", "a list with one array per field is applied field-wise", is_zero(P(g0[1, 1]) - U[1, 1] - parts[0][1, 1]))
    finish_info(col, it)


# ------------------------------------------------------------------------------------------
def selected_points(mesh, spec):
    """spec: dict(fx=..., fy=..., fz=..., mode='or'|'and') -> set of point ids"""
    preds = []
    for ax, key in enumerate(("fx", "fy", "fz")[:mesh.dim]):
        if key in spec:
            preds.append((ax, spec[key]))
    out = set()
    for p, c in enumerate(mesh.coords):
        hits = [c[ax] == val for ax, val in preds]
        if not hits:
            continue
        if (spec.get("mode", "or") == "or" and any(hits)) or (spec.get("mode") == "and" and all(hits)):
            out.add(p)
    return out


def run_partition(col, dim, orphan="last"):
    it = new_interp()
    fc, fields, mesh = make_container(it, dim, mixed=True, orphan=orphan)
    B = it.get("felupe.dof._boundary:Boundary")
    part = it.get("felupe.dof._tools:partition")
    appl = it.get("felupe.dof._tools:apply")
    n0 = mesh.npoints * dim
    ntot = n0 + mesh.npoints
    H = Fraction(1, 2)
    skips = list(itertools.product((False, True), repeat=dim))
    specs = []
    for key, val in (("fx", 0), ("fy", 1), ("fx", H)) + ((("fz", 0),) if dim == 3 else ()):
        for skip in skips:
            specs.append(dict(kw={key: val, "skip": skip}, sel={key: Fraction(val)}, skip=skip))
    for mode in ("or", "and"):
        specs.append(dict(kw=dict(fx=0, fy=1, mode=mode), sel=dict(fx=Fraction(0), fy=Fraction(1), mode=mode), skip=(False,) * dim))
        specs.append(dict(kw=dict(fx=1, fy=H, mode=mode, skip=(True,) + (False,) * (dim - 1)), sel=dict(fx=Fraction(1), fy=H, mode=mode), skip=(True,) + (False,) * (dim - 1)))
    count = 0
    U, Q = fields[0].attrs["values"], fields[1].attrs["values"]
    uflat = npmodel.to_obj(U).reshape(-1).tolist() + npmodel.to_obj(Q).reshape(-1).tolist()
    where = method_where(it.get("felupe.dof._boundary:Boundary"), "__init__")

    def expected(bdefs):
        """bdefs: list of (field index, set of (point, comp), value accessor) in dictionary order"""
        pres = {}
        for fi, dofs, val in bdefs:
            off = 0 if fi == 0 else n0
            d = dim if fi == 0 else 1
            order = sorted(dofs)
            for k, (p, i) in enumerate(order):
                pres[off + d * p + i] = val(k, p, i, order)
        missing = [dim * o + i for o in mesh.orphans for i in range(dim)] + [n0 + o for o in mesh.orphans]
        dof0 = sorted(set(pres) | set(missing))
        dof1 = [k for k in range(ntot) if k not in set(dof0)]
        ext0 = [pres.get(k, uflat[k]) for k in dof0]
        return dof0, dof1, ext0

    def run_case(label, bounds, bdefs):
        nonlocal count
        count += 1
        d0, d1 = it.call(part, [fc, bounds], {})
        d0 = npmodel.to_int_array(np.asarray(d0)).tolist()
        d1 = npmodel.to_int_array(np.asarray(d1)).tolist()
        e0 = npmodel.to_obj(np.asarray(it.call(appl, [fc, bounds, np.array(d0, dtype=int)], {}))).reshape(-1)
        w0, w1, we = expected(bdefs)
        okk = d0 == w0 and d1 == w1 and sorted(d0 + d1) == list(range(ntot)) and not (set(d0) & set(d1))
        label = label + {"last": "", "first": " [cell-less point first]", "two": " [two cell-less points]"}[orphan]
        col.add("C08.O3", "partition dim=%d %s" % (dim, label),
                "dof0 == sorted union of the boundaries' unknowns (+ field offset) and the unknowns of points without cells; dof1 == sorted complement; disjoint and covering", okk,
                "%s: dof0 %s expected %s" % (where, d0[:12], w0[:12]))
        okv = len(e0) == len(we) and all(is_zero(P(a) - P(b)) for a, b in zip(e0, we))
        col.add("C08.O4", "apply dim=%d %s" % (dim, label), "ext0 lists each boundary's value at the position of its unknown (later boundaries win); unknowns prescribed only through missing cells keep their current value", okv,
                "%s: %s" % (method_where(it.get("felupe.dof._boundary:Boundary"), "apply_mask"), [(str(a), str(b)) for a, b in zip(e0, we) if not is_zero(P(a) - P(b))][:3]))

    # single boundaries with scalar values
    for k, sp in enumerate(specs):
        val = sym("v%d" % k)
        b = it.call(B, [fields[0]], dict(value=val, **sp["kw"]))
        pts = selected_points(mesh, sp["sel"])
        dofs = {(p, i) for p in pts for i in range(dim) if not sp["skip"][i]}
        run_case("single %s" % sp["kw"], {"b": b}, [(0, dofs, lambda kk, p, i, order, val=val: val)])
    # overlapping boundaries on both fields, dictionary order matters
    for (k1, s1), (k2, s2) in itertools.islice(itertools.combinations(enumerate(specs), 2), 0, 40, 3):
        v1, v2, v3 = sym("w1"), sym("w2"), sym("w3")
        b1 = it.call(B, [fields[0]], dict(value=v1, **s1["kw"]))
        b2 = it.call(B, [fields[0]], dict(value=v2, **s2["kw"]))
        b3 = it.call(B, [fields[1]], dict(value=v3, fx=1))
        d1 = {(p, i) for p in selected_points(mesh, s1["sel"]) for i in range(dim) if not s1["skip"][i]}
        d2 = {(p, i) for p in selected_points(mesh, s2["sel"]) for i in range(dim) if not s2["skip"][i]}
        d3 = {(p, 0) for p in selected_points(mesh, dict(fx=Fraction(1)))}
        run_case("overlap %d+%d+dual" % (k1, k2), {"one": b1, "dual": b3, "two": b2},
                 [(0, d1, lambda kk, p, i, o: v1), (1, d3, lambda kk, p, i, o: v3), (0, d2, lambda kk, p, i, o: v2)])
    # boundaries on the scalar (dual) field: the coordinate predicates are those of the *mesh* dimension, whatever the field's dimension
    for k, (kw, sel) in enumerate([(dict(fy=1), dict(fy=Fraction(1))), (dict(fx=0, fy=H, mode="and"), dict(fx=Fraction(0), fy=H, mode="and")),
                                   (dict(fx=1, fy=0, mode="or"), dict(fx=Fraction(1), fy=Fraction(0), mode="or"))]
                                  + ([(dict(fz=H), dict(fz=H)), (dict(fy=0, fz=1, mode="and"), dict(fy=Fraction(0), fz=Fraction(1), mode="and"))] if dim == 3 else [])):
        val = sym("q%d" % k)
        b = it.call(B, [fields[1]], dict(value=val, **kw))
        pts = selected_points(mesh, sel)
        run_case("scalar field %s" % kw, {"b": b}, [(1, {(p, 0) for p in pts}, lambda kk, p, i, order, val=val: val)])
    # point mask and dof mask, array values
    pm = np.array([p % 3 == 0 for p in range(mesh.npoints)])
    for skip in skips:
        b = it.call(B, [fields[0]], dict(mask=pm, skip=skip, value=sym("pm")))
        dofs = {(p, i) for p in range(mesh.npoints) if pm[p] for i in range(dim) if not skip[i]}
        run_case("point mask skip=%s" % (skip,), {"m": b}, [(0, dofs, lambda kk, p, i, o: sym("pm"))])
        # the documented spelling of the flags is 0 / 1 (integers), with a point mask as well as with coordinate predicates
        iskip = tuple(int(x) for x in skip)
        b = it.call(B, [fields[0]], dict(mask=pm, skip=iskip, value=sym("pm")))
        run_case("point mask skip=%s" % (iskip,), {"m": b}, [(0, dofs, lambda kk, p, i, o: sym("pm"))])
        b = it.call(B, [fields[0]], dict(fx=0, skip=iskip, value=sym("pc")))
        run_case("fx=0 skip=%s" % (iskip,), {"m": b}, [(0, {(p, i) for p in selected_points(mesh, dict(fx=Fraction(0))) for i in range(dim) if not skip[i]}, lambda kk, p, i, o: sym("pc"))])
    dm = np.zeros((mesh.npoints, dim), dtype=bool)
    dm[2, 0] = dm[5, dim - 1] = dm[7, 0] = dm[7, dim - 1] = True
    sel = sorted({(2, 0), (5, dim - 1), (7, 0), (7, dim - 1)})
    arr = symarray("av", (len(sel),))
    b = it.call(B, [fields[0]], dict(mask=dm, value=arr))
    run_case("dof mask, value per unknown", {"m": b}, [(0, set(sel), lambda kk, p, i, o: arr[kk])])
    # array value per point x component (row-major like Boundary.dof)
    spts = sorted(selected_points(mesh, dict(fx=Fraction(0))))
    arr2 = symarray("a2", (len(spts), dim))
    b = it.call(B, [fields[0]], dict(fx=0, value=arr2))
    run_case("array value (points, dim)", {"m": b}, [(0, {(p, i) for p in spts for i in range(dim)}, lambda kk, p, i, o: arr2[spts.index(p), i])])
    # the same values held in column-major memory (e.g. the transpose of a (dim, points) product): the logical order counts, not the layout
    b = it.call(B, [fields[0]], dict(fx=0, value=np.asfortranarray(arr2)))
    run_case("array value (points, dim), column-major memory", {"m": b}, [(0, {(p, i) for p in spts for i in range(dim)}, lambda kk, p, i, o: arr2[spts.index(p), i])])
    b = it.call(B, [fields[0]], dict(fx=0, value=np.ascontiguousarray(arr2.T).T))
    run_case("array value (points, dim), transposed view", {"m": b}, [(0, {(p, i) for p in spts for i in range(dim)}, lambda kk, p, i, o: arr2[spts.index(p), i])])
    # one row of components broadcast over the selected points
    row = symarray("a3", (dim,))
    b = it.call(B, [fields[0]], dict(fx=0, value=row))
    run_case("array value (dim,) broadcast", {"m": b}, [(0, {(p, i) for p in spts for i in range(dim)}, lambda kk, p, i, o: row[i])])
    # empty dictionary: only the points without cells are prescribed
    run_case("empty dictionary", {}, [])
    col.info["partition_configs"] = col.info.get("partition_configs", 0) + count
    finish_info(col, it)


# ------------------------------------------------------------------------------------------
def run_loadcases(col, dim, orphan="last"):
    it = new_interp()
    fc, fields, mesh = make_container(it, dim, mixed=True, orphan=orphan)
    n0 = mesh.npoints * dim
    U = fields[0].attrs["values"]
    uflat = npmodel.to_obj(U).reshape(-1).tolist() + npmodel.to_obj(fields[1].attrs["values"]).reshape(-1).tolist()
    # min / max coordinate per axis, used when left / right are not given: both differ from axis to axis in the variant with two cell-less points
    lo = [min(c[k] for c in mesh.coords) for k in range(dim)]
    hi = [max(c[k] for c in mesh.coords) for k in range(dim)]
    count = 0
    mod = "felupe.dof._loadcase:"
    miss = [dim * o + i for o in mesh.orphans for i in range(dim)] + [n0 + o for o in mesh.orphans]

    def face(ax, val):
        return [p for p, c in enumerate(mesh.coords) if c[ax] == val]

    def compare(label, loadcase, pres, fname):
        nonlocal count
        count += 1
        d0 = npmodel.to_int_array(np.asarray(loadcase["dof0"])).tolist()
        d1 = npmodel.to_int_array(np.asarray(loadcase["dof1"])).tolist()
        e0 = npmodel.to_obj(np.asarray(loadcase["ext0"])).reshape(-1)
        w0 = sorted(set(pres) | set(miss))
        we = [pres.get(k, uflat[k]) for k in w0]
        okk = d0 == w0 and sorted(d0 + d1) == list(range(n0 + mesh.npoints)) and len(e0) == len(we) and all(is_zero(P(a) - P(b)) for a, b in zip(e0, we))
        label = label + {"last": "", "first": " [cell-less point first]", "two": " [two cell-less points]"}[orphan]
        col.add("C08.O5", "%s dim=%d %s" % (fname, dim, label), "prescribed unknowns and values equal the load case's mechanics table; partition and prescribed values returned consistently", okk,
                "dof/_loadcase.py %s: prescribed %s expected %s" % (fname, d0[:14], w0[:14]))

    def sym_planes(pres, symflags):
        for a in range(dim):
            if symflags[a]:
                for p in face(a, Fraction(0)):
                    pres[dim * p + a] = ZERO

    symsets = list(itertools.product((True, False), repeat=3))
    # symmetry alone
    symfun = it.get(mod + "symmetry")
    part = it.get("felupe.dof._tools:partition")
    appl = it.get("felupe.dof._tools:apply")
    for axes in symsets:
        for center in (0, Fraction(1, 2)):
            bounds = it.call(symfun, [fields[0]], dict(axes=axes, x=center, y=center, z=center))
            d0, d1 = it.call(part, [fc, bounds], {})
            e0 = it.call(appl, [fc, bounds, d0], {})
            pres = {}
            for a in range(dim):
                if axes[a]:
                    for p in face(a, Fraction(center)):
                        pres[dim * p + a] = ZERO
            compare("axes=%s centre=%s" % (axes, center), dict(dof0=d0, dof1=d1, ext0=e0), pres, "symmetry")
    # uniaxial
    uni = it.get(mod + "uniaxial")
    move = sym("move")
    for axis in range(dim):
        for clamped in (False, True):
            for symflags in symsets + [True, False]:
                for given in (False, True):
                    kw = dict(move=move, axis=axis, clamped=clamped, sym=symflags)
                    left, right = lo[axis], hi[axis]
                    if given:
                        kw.update(left=Fraction(1, 2), right=1)
                        left, right = Fraction(1, 2), Fraction(1)
                    bounds, lc = it.call(uni, [fc], kw)
                    sf = symflags if isinstance(symflags, tuple) else (symflags,) * 3
                    pres = {}
                    sym_planes(pres, sf)
                    if not sf[axis]:
                        for p in face(axis, left):
                            pres[dim * p + axis] = ZERO
                    if clamped:
                        for p in face(axis, right):
                            for i in range(dim):
                                if i != axis:
                                    pres[dim * p + i] = ZERO
                        if not sf[axis]:
                            for p in face(axis, left):
                                for i in range(dim):
                                    if i != axis:
                                        pres[dim * p + i] = ZERO
                    for p in face(axis, right):
                        pres[dim * p + axis] = move
                    compare("axis=%d clamped=%s sym=%s given=%s" % (axis, clamped, symflags, given), lc, pres, "uniaxial")
    # biaxial
    bi = it.get(mod + "biaxial")
    m0, m1 = sym("m0"), sym("m1")
    for axes in itertools.permutations(range(dim), 2):
        for clampes in itertools.product((False, True), repeat=2):
            for symflags in symsets[::1] + [True, False]:
                bounds, lc = it.call(bi, [fc], dict(moves=(m0, m1), axes=axes, clampes=clampes, sym=symflags))
                sf = symflags if isinstance(symflags, tuple) else (symflags,) * 3
                pres = {}
                sym_planes(pres, sf)
                for i_, (ax, mv) in enumerate(zip(axes, (m0, m1))):
                    if not sf[ax]:
                        for p in face(ax, lo[ax]):
                            pres[dim * p + ax] = -mv
                for i_, (ax, mv, cl) in enumerate(zip(axes, (m0, m1), clampes)):
                    if cl:
                        for p in face(ax, hi[ax]):
                            for i in range(dim):
                                if i != ax:
                                    pres[dim * p + i] = ZERO
                        if not sf[ax]:
                            for p in face(ax, lo[ax]):
                                for i in range(dim):
                                    if i != ax:
                                        pres[dim * p + i] = ZERO
                    for p in face(ax, hi[ax]):
                        pres[dim * p + ax] = mv
                compare("axes=%s clampes=%s sym=%s" % (axes, clampes, symflags), lc, pres, "biaxial")
    # shear
    sh = it.get(mod + "shear")
    s0, s1, s2 = sym("s0"), sym("s1"), sym("s2")
    for axes in itertools.permutations(range(dim), 2):
        for symflag in (True, False):
            for given in (False, True):
                kw = dict(moves=(s0, s1, s2), axes=axes, sym=symflag)
                bottom, top = lo[axes[1]], hi[axes[1]]
                if given:
                    kw.update(bottom=0, top=1)
                    bottom, top = Fraction(0), Fraction(1)
                bounds, lc = it.call(sh, [fc], kw)
                pres = {}
                if symflag:
                    for a in range(dim):
                        if a not in axes:
                            for p in face(a, Fraction(0)):
                                pres[dim * p + a] = ZERO
                for p in face(axes[1], bottom):
                    for i in range(dim):
                        if i != axes[1]:
                            pres[dim * p + i] = ZERO
                for p in face(axes[1], top):
                    for i in range(dim):
                        if i not in axes:
                            pres[dim * p + i] = ZERO
                for p in face(axes[1], bottom):
                    pres[dim * p + axes[1]] = s1
                for p in face(axes[1], top):
                    pres[dim * p + axes[1]] = s2
                for p in face(axes[1], top):
                    pres[dim * p + axes[0]] = s0
                compare("axes=%s sym=%s given=%s" % (axes, symflag, given), lc, pres, "shear")
    col.info["loadcase_configs"] = col.info.get("loadcase_configs", 0) + count
    finish_info(col, it)


def run_three_fields(col, dim):
    """O3/O4 on a container with three fields (u, p, J) of different sizes: boundaries on the second and on the third field land at the
    cumulative offsets n_u and n_u + n_p"""
    it = new_interp()
    mesh = LatticeMesh(dim, "last")
    F = it.get("felupe.field._base:Field")
    B = it.get("felupe.dof._boundary:Boundary")
    part = it.get("felupe.dof._tools:partition")
    appl = it.get("felupe.dof._tools:apply")
    fields, names = [], ("U", "Pp", "Jj")
    for k, d_ in enumerate((dim, 1, 1)):
        f = it.call(F, [LatticeRegion(LatticeMesh(dim, "last"))], dict(dim=d_))
        it.setattr(f, "values", symarray(names[k], (mesh.npoints, d_)))
        fields.append(f)
    fc = micro.container(it, fields)
    sizes = [mesh.npoints * dim, mesh.npoints, mesh.npoints]
    offs = [0, sizes[0], sizes[0] + sizes[1]]
    ntot = sum(sizes)
    uflat = sum((npmodel.to_obj(f.attrs["values"]).reshape(-1).tolist() for f in fields), [])
    va, vb, vc, vd = sym("va"), sym("vb"), sym("vc"), sym("vd")
    pm = np.array([p % 4 == 1 for p in range(mesh.npoints)])
    bounds = {"u": it.call(B, [fields[0]], dict(fx=0, value=va)), "p": it.call(B, [fields[1]], dict(fx=1, value=vb)),
              "J": it.call(B, [fields[2]], dict(fy=0, value=vc)), "J2": it.call(B, [fields[2]], dict(mask=pm, value=vd))}
    pres = {}
    for p in selected_points(mesh, dict(fx=Fraction(0))):
        for i in range(dim):
            pres[offs[0] + dim * p + i] = va
    for p in selected_points(mesh, dict(fx=Fraction(1))):
        pres[offs[1] + p] = vb
    for p in selected_points(mesh, dict(fy=Fraction(0))):
        pres[offs[2] + p] = vc
    for p in range(mesh.npoints):
        if pm[p]:
            pres[offs[2] + p] = vd
    missing = [dim * o + i for o in mesh.orphans for i in range(dim)] + [offs[1] + o for o in mesh.orphans] + [offs[2] + o for o in mesh.orphans]
    w0 = sorted(set(pres) | set(missing))
    we = [pres.get(k, uflat[k]) for k in w0]
    d0, d1 = it.call(part, [fc, bounds], {})
    d0 = npmodel.to_int_array(np.asarray(d0)).tolist()
    d1 = npmodel.to_int_array(np.asarray(d1)).tolist()
    e0 = npmodel.to_obj(np.asarray(it.call(appl, [fc, bounds, np.array(d0, dtype=int)], {}))).reshape(-1)
    col.add("C08.O3", "partition dim=%d three fields (u, p, J)" % dim, "the unknowns of the n-th field start at the sum of the sizes of all fields before it", d0 == w0 and sorted(d0 + d1) == list(range(ntot)),
            "dof/_tools.py partition: dof0 %s expected %s" % (d0[:10], w0[:10]))
    okv = len(e0) == len(we) and all(is_zero(P(a) - P(b)) for a, b in zip(e0, we))
    col.add("C08.O4", "apply dim=%d three fields (u, p, J)" % dim, "a boundary on the third field writes its value at offset n_u + n_p + its unknown", okv,
            "dof/_tools.py apply: %s" % [(k, str(a), str(b)) for k, (a, b) in enumerate(zip(e0, we)) if not is_zero(P(a) - P(b))][:3])
    finish_info(col, it)


def run_discrete_geometry(col):
    """O6: DiscreteGeometry.update derives points_without_cells / points_with_cells / cells_per_point from the connectivity -- the set that
    dof.partition adds to the prescribed unknowns.  Evaluated from source for every position of the unattached points."""
    it = new_interp()
    DG = it.get("felupe.mesh._discrete_geometry:DiscreteGeometry")
    w = method_where(DG, "update")
    npts = 7
    configs = [("none", [[0, 1, 2], [2, 3, 4], [4, 5, 6]]), ("last", [[0, 1, 2], [2, 3, 4], [3, 4, 5]]), ("first", [[1, 2, 3], [3, 4, 5], [4, 5, 6]]),
               ("middle", [[0, 1, 2], [2, 4, 5], [4, 5, 6]]), ("first and last", [[1, 2, 3], [2, 3, 4], [3, 4, 5]]), ("two in the middle", [[0, 1, 4], [1, 4, 5], [4, 5, 6]]),
               ("first two, last attached", [[2, 3, 4], [3, 4, 5], [4, 5, 6]])]
    pts = symarray("X", (npts, 2))

    def facts(cells):
        used = sorted({p for c in cells for p in c})
        return used, [p for p in range(npts) if p not in used], {p: sum(1 for c in cells for q in c if q == p) for p in used}

    def compare(m, cells):
        used, orphans, counts = facts(cells)
        pw = [int(v) for v in np.asarray(it.getattr(m, "points_without_cells")).reshape(-1)]
        pc = [int(v) for v in np.asarray(it.getattr(m, "points_with_cells")).reshape(-1)]
        cpp = np.asarray(it.getattr(m, "cells_per_point"))
        okc = all(int(P(cpp[p]).const_value()) == counts[p] for p in used) if cpp.shape[0] == npts else (not orphans and [int(P(v).const_value()) for v in cpp] == [counts[p] for p in used])
        return pw == orphans and pc == used and okc, "%s: points_without_cells %s (expected %s), points_with_cells %s, cells_per_point %s" % (w, pw, orphans, pc, [str(v) for v in cpp])

    for name, cells in configs:
        def chk(cells=cells):
            m = it.call(DG, [pts, np.array(cells)], {})
            return compare(m, cells)
        col.check("C08.O6", "DiscreteGeometry unattached points: %s" % name, "points_without_cells is exactly the set of point ids that occur in no cell (any position), points_with_cells its complement, cells_per_point the multiplicity of the attached ones", chk)
    # history: update(cells=...) on an existing geometry gives the facts of the new connectivity
    for (n1, c1), (n2, c2) in ((configs[0], configs[3]), (configs[1], configs[2]), (configs[2], configs[0])):
        def chk_u(c1=c1, c2=c2):
            m = it.call(DG, [pts, np.array(c1)], {})
            it.call_method(m, "update", [], dict(cells=np.array(c2)))
            return compare(m, c2)
        col.check("C08.O6", "DiscreteGeometry.update(cells): %s -> %s" % (n1, n2), "after update(cells=...) the derived sets describe the new connectivity", chk_u)
    finish_info(col, it)


def run_dual_mesh(col):
    """O7: mesh.dual (the meshes of dual fields in mixed containers): the returned connectivity, and -- since the first field's numbering is read
    from the parent connectivity -- the parent mesh is left as it was."""
    it = new_interp()
    dual = it.get("felupe.mesh._dual:dual")
    w = "mesh/_dual.py dual"
    pts = symarray("X", (7, 2))
    cells = np.array([[0, 1, 2, 3, 4, 5], [2, 1, 6, 4, 3, 5]])
    for disconnect in (True, False):
        for ppc in (None, 3, 1):
            for offset in (0, 2):
                def chk(disconnect=disconnect, ppc=ppc, offset=offset):
                    c_in = cells.copy()
                    p_in = pts.copy()
                    pn, cn, ct = it.call(dual, [p_in, c_in, "triangle6"], dict(points_per_cell=ppc, disconnect=disconnect, offset=offset, calc_points=True))
                    cn = npmodel.to_int_array(np.asarray(cn))
                    k = cells.shape[1] if ppc is None else ppc
                    want = (np.arange(2 * k).reshape(2, k) if disconnect else cells[:, :k]) + offset
                    untouched = np.array_equal(c_in, cells) and all(is_zero(P(a) - P(b)) for a, b in zip(p_in.reshape(-1), pts.reshape(-1)))
                    pn = npmodel.to_obj(np.asarray(pn))
                    enough = pn.shape[0] > int(want.max())
                    geo = True
                    if disconnect:
                        # corner t of cell c sits at the parent's coordinates of that corner
                        for c in range(2):
                            for t in range(k):
                                if any(not is_zero(P(pn[want[c, t], i]) - pts[cells[c, t], i]) for i in range(2)):
                                    geo = False
                    return np.array_equal(cn, want) and untouched and enough and geo, "%s: cells %s expected %s; parent arrays untouched: %s; %d points; coordinates %s" % (
                        w, cn.tolist(), want.tolist(), untouched, pn.shape[0], geo)
                col.check("C08.O7", "mesh.dual(points_per_cell=%s, disconnect=%s, offset=%d)" % (ppc, disconnect, offset),
                          "returns the leading corners of every cell (shared or one set per cell) shifted by the offset, enough points for them, and leaves the parent's points and cells untouched", chk)
    # more points requested than the cells need (npoints of the parent mesh, so that both fields of a container have one row per point):
    # the spare rows must not move the coordinates away from the ids the cells refer to
    def chk_np():
        pn, cn, ct = it.call(dual, [pts.copy(), cells.copy(), "triangle6"], dict(points_per_cell=3, disconnect=True, offset=0, calc_points=True, npoints=9))
        cn = npmodel.to_int_array(np.asarray(cn))
        pn = npmodel.to_obj(np.asarray(pn))
        geo = pn.shape[0] == 9 and all(is_zero(P(pn[cn[c, t], i]) - pts[cells[c, t], i]) for c in range(2) for t in range(3) for i in range(2))
        return geo, "%s: %d points; corner coordinates are those of the parent: %s" % (w, pn.shape[0], geo)
    col.check("C08.O7", "mesh.dual(points_per_cell=3, disconnect=True, calc_points=True, npoints=9)",
              "with more points requested than needed, every cell corner still sits at the parent's coordinates of that corner (spare points do not shift the ids)", chk_np)
    finish_info(col, it)
