import numpy as np, felupe as fem
rect = fem.Rectangle(a=(0, 1), b=(1, 2), n=2)
m = rect.revolve(phi=np.linspace(180, 360, 5))
r = fem.RegionHexahedron(m)
print("revolve 180..360: cells", m.ncells, "points", m.npoints, "volume", r.dV.sum(), "expected", np.pi*(2**2-1**2)*1*0.5, "min dV", r.dV.min())
p = fem.Point(a=5.0)
l = p.expand(n=3, z=1)
print("Point(5).expand:", l.points.tolist(), l.cell_type)
