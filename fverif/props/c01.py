"""C01 -- assembled tangent matrix == derivative of the assembled vector (DESIGN.md section 3, C01).

End-to-end on the symbolic micro-instance: every item class is instantiated from source on symbolic fields
(field values U[n,i], p, J symbolic; basis arrays symbolic; material = an arbitrary hyperelastic W(F) given as
an opaque function atom with derivative atoms), its vector and matrix are assembled by the analysed code and
K[I,J] == d r[I] / d x[J] is decided for every pair of global unknowns, together with K == K^T."""

from fractions import Fraction

import numpy as np

from .. import ring, npmodel, micro
from ..ring import P, sym, diff, is_zero, ZERO, ONE
from ..common import new_interp, symarray, finish_info, method_where, classes_in, list_modules
from ..interp import InterpRaise
from .c02 import regions, CELLS_A, CELLS_B, diff_dense
from .c03 import OpaqueHyper

SPEC = dict(
    level="proof",
    rule="every class under felupe/mechanics that builds Assemble(vector=, matrix=) (discovered) is instantiated from source on the "
    "symbolic micro-instance of C02 (fields built by felupe's own Field classes on a fake region; field values are generators); the "
    "material is an arbitrary hyperelastic energy W(F) as an opaque function atom (stress and elasticity are its derivative atoms, "
    "which is exactly what C03 proves for each concrete model). The dense assembled vector r and matrix K are compared: one obligation "
    "per pair (I, J) of global unknowns, K[I,J] == d r[I]/d x[J] (total derivative through extract -> material -> integral form -> "
    "sparse placement, including the condensed pressure update of the nearly-incompressible body), plus K == K^T where the property "
    "demands it. Load items: vector independent of the unknowns and matrix zero. Solver side: the multiplier is applied alike to vector and matrix.",
    trusted_base=[
        "C03 (each concrete material's hessian is the derivative of its gradient) -- here the material is an opaque hyperelastic W",
        "scipy.sparse summaries (dense abstract matrices, duplicates summed); numpy object-array semantics",
        "the micro-instance bound: 2 cells x 2 basis functions x 2 quadrature points, dims 2 and 3 (index algebra is size-polymorphic)",
    ],
    explanation="algebraic value numbering end-to-end; derivative by the ring's total derivative w.r.t. every field unknown",
    exhaustive=True,
    not_decided=["numerical equality on a concrete mesh (follows by the size-polymorphic index algebra, not re-proved)",
                 "AD-based materials (tensortrax/jax derive gradient and hessian from one function; C03.O9)"],
    assumptions=["real arithmetic", "generic point"],
)

FLOORS = {"item classes with Assemble": ("assemble_classes", 10), "item classes covered": ("assemble_classes_covered", 10)}

COVERED = {
    "SolidBody", "SolidBodyNearlyIncompressible", "SolidBodyPressure", "SolidBodyCauchyStress", "SolidBodyForce", "SolidBodyGravity",
    "PointLoad", "MultiPointConstraint", "MultiPointContact", "FormItem", "Truss", "TrussBody",
}


def _discover(it):
    import ast as _ast
    out = []
    for mn in list_modules("felupe.mechanics"):
        if mn == "felupe.mechanics":
            continue
        m = it.module(mn)
        for node in m.tree.body:
            if isinstance(node, _ast.ClassDef):
                uses = any(isinstance(n, _ast.Call) and getattr(n.func, "id", "") == "Assemble" for n in _ast.walk(node))
                if uses:
                    out.append((mn, node.name))
    return out


def tasks(tier):
    ts = [("discovery", "run_discovery", {})]
    for kind in ("Field2", "Field3", "PlaneStrain", "Axisymmetric"):
        ts.append(("SolidBody[%s]" % kind, "run_solidbody", dict(kind=kind)))
    for kind in ("Field2", "PlaneStrain", "Axisymmetric"):
        for mat in ("NearlyIncompressible", "ThreeFieldVariation"):
            if kind == "Axisymmetric" and mat == "ThreeFieldVariation" and tier == "quick":
                # (J/det F)**(1/3) with F33 = 1 + u_r/R nests two atoms: ~10 min; thorough tier only. The axisymmetric
                # block assembly itself is covered by the NearlyIncompressible variant and by C02.O6.
                continue
            ts.append(("SolidBody mixed[%s,%s]" % (kind, mat), "run_mixed", dict(kind=kind, mat=mat)))
    for kind in ("Field2", "Field3", "PlaneStrain", "Axisymmetric"):
        ts.append(("SolidBodyNearlyIncompressible[%s]" % kind, "run_nearly", dict(kind=kind)))
    for bk in ("SolidBody", "SolidBodyNearlyIncompressible"):
        ts.append(("state variables[%s]" % bk, "run_state_consistency", dict(body_kind=bk)))
    # matrix and vector differentiate one function only if the material's gradient / hessian do not re-use intermediates of an earlier call at
    # another state (Newton assembles vector then matrix at one state, but several bodies may share one material object)
    for fname, kw in (("run_threefield", dict(blocks="grad+FF")), ("run_neohooke", dict(cfg="mu+bulk")), ("run_ogden", dict(case="unloading"))):
        ts.append(("material evaluation history %s" % fname, "run_included", dict(modname="c03", fname=fname, kwargs=kw, oid="C01.O1h", select_oid="C03.O1h",
                                                                                why="the assembled matrix is the derivative of the assembled vector only if both evaluate the material as a function of the current state alone")))
    # a body evaluates its material for all quadrature points of all cells in one call: the tangent of every point has to belong to that point's
    # own stress branch (an increment in which only some points yield)
    ts.append(("point-wise branches in one material call", "run_included", dict(modname="c03", fname="run_plastic", kwargs=dict(case="mixed"), oid="C01.O1p", select_oid="C03.O7",
                                                                             why="the assembled matrix is the derivative of the assembled vector only if, point by point, the returned tangent is the derivative of the returned stress -- also when the points of one call are on different branches")))
    for cfg in ("NeoHooke(bulk)", "NeoHooke(mu,bulk)", "Volumetric", "NeoHookeCompressible"):
        ts.append(("re-assembly %s" % cfg, "run_reassembly", dict(cfg=cfg)))
    # the mixed-field matrix is assembled from the list of hessian blocks: block placement (upper-triangle list mirrored, full list row-major
    # and not mirrored, None blocks) decides whether K is the derivative of r for materials that return either layout
    ts.append(("block layout of mixed fields", "run_included", dict(modname="c02", fname="run_blocks", kwargs=dict(tier=tier), oid="C01.O9", select_oid="C02.O6",
                                                                 why="the assembled matrix of a mixed-field body is the derivative of its vector only if every hessian block lands in its own (row field, column field) position")))
    ts.append(("loads", "run_loads", {}))
    ts.append(("multipoint", "run_multipoint", {}))
    ts.append(("pressure+cauchy", "run_surface", {}))
    for kind in ("PlaneStrain", "Axisymmetric"):
        ts.append(("pressure+cauchy[%s]" % kind, "run_surface_2d", dict(kind=kind)))
    ts.append(("solver multiplier", "run_multiplier", {}))
    ts.append(("form item", "run_formitem", {}))
    return ts


def run_discovery(col):
    it = new_interp()
    found = _discover(it)
    names = [c for _, c in found]
    col.info["assemble_classes"] = names
    col.info["assemble_classes_covered"] = [n for n in names if n in COVERED]
    missing = [n for n in names if n not in COVERED]
    if missing:
        col.undecided("C01.discovery", ",".join(missing), "every item class has an obligation set", "item classes without obligations: %s" % missing)
    else:
        col.add("C01.discovery", "felupe.mechanics", "every class building Assemble(...) is covered", True, "%d classes" % len(names), nontrivial=False)
    finish_info(col, it)


# ------------------------------------------------------------------------------------------
def setup_fields(it, kind, mixed=0, nq=2):
    """returns (container, unknown symbols in global order, regions, space dim, tensor dim seen by the material)"""
    d = 3 if kind == "Field3" else 2
    ra, rb = regions(d, nq=nq)
    cname = {"Field2": "Field", "Field3": "Field", "PlaneStrain": "FieldPlaneStrain", "Axisymmetric": "FieldAxisymmetric"}[kind]
    kinds = [(cname, d, 0)] + [("Field", 1, 1)] * mixed
    fields = micro.make_fields(it, kinds, ra, rb)
    unknowns = []
    U = symarray("U", (ra.mesh.npoints, d))
    it.setattr(fields[0], "values", U)
    unknowns.extend(U.reshape(-1).tolist())
    for k in range(mixed):
        V = symarray("pJ"[k] if k < 2 else "x%d" % k, (rb.mesh.npoints, 1), positive=(k == 1))
        it.setattr(fields[1 + k], "values", V)
        unknowns.extend(V.reshape(-1).tolist())
    fc = micro.container(it, fields)
    tdim = 2 if kind == "Field2" else 3
    return fc, unknowns, (ra, rb), d, tdim


def derivative_obligations(col, oid, label, where, r, K, unknowns, symmetric=True, rule=None):
    r = micro.dense(r)
    K = micro.dense(K)
    n = len(unknowns)
    if r.shape != (n, 1) or K.shape != (n, n):
        col.add(oid, "%s shapes" % label, "vector (n,1) and matrix (n,n) for n global unknowns", False, "%s: vector %s matrix %s, unknowns %d" % (where, r.shape, K.shape, n))
        return
    nbad = 0
    rr = [ring.cancel(P(r[I, 0])) for I in range(n)]
    for I in range(n):
        for J in range(n):
            K[I, J] = ring.cancel(P(K[I, J]))
    for I in range(n):
        for J in range(n):
            d = diff(rr[I], unknowns[J])
            okk = is_zero(d - P(K[I, J]))
            col.add(oid, "%s K[%d,%d]" % (label, I, J), rule or "assembled matrix entry == d(assembled vector entry I)/d(unknown J)", okk,
                    "" if okk else "%s: d r[%d]/d x[%d] = %s ; K = %s" % (where, I, J, ring.fmt(d, 4), ring.fmt(P(K[I, J]), 4)), nontrivial=bool(d.t) or bool(P(K[I, J]).t))
            nbad += not okk
    if symmetric:
        bad = [(I, J) for I in range(n) for J in range(I + 1, n) if not is_zero(P(K[I, J]) - P(K[J, I]))]
        col.add(oid + "s", "%s symmetry" % label, "assembled matrix is symmetric (hyperelastic body / conservative constraint)", not bad, "%s: %s" % (where, bad[:6]))


def run_solidbody(col, kind):
    it = new_interp()
    fc, unknowns, (ra, rb), d, tdim = setup_fields(it, kind)
    umat = OpaqueHyper("Wm", dim=tdim)
    cls = it.get("felupe.mechanics._solidbody:SolidBody")
    body = it.call(cls, [], dict(umat=umat, field=fc))
    asm = it.getattr(body, "assemble")
    for rep in (1, 2):
        # assembling twice must give the same result (re-used result buffers)
        r = it.call(it.getattr(asm, "vector"), [fc], {})
        K = it.call(it.getattr(asm, "matrix"), [fc], {})
        if rep == 1:
            r1, K1 = micro.dense(r).copy(), micro.dense(K).copy()
    from .c02 import diff_dense
    bad = diff_dense(r, r1) + diff_dense(K, K1)
    col.add("C01.O1r", "SolidBody[%s] repeated assembly" % kind, "a second assembly at the same state returns the same vector and matrix (buffers re-used)", not bad, "; ".join(bad))
    derivative_obligations(col, "C01.O1", "SolidBody[%s]" % kind, method_where(cls, "_matrix"), r, K, unknowns)
    finish_info(col, it)


def run_mixed(col, kind, mat):
    it = new_interp()
    fc, unknowns, (ra, rb), d, tdim = setup_fields(it, kind, mixed=2)
    inner = OpaqueHyper("Wm", dim=3)
    if kind == "Field2":
        # a plain 2d field yields a 2x2 deformation gradient, which the mixed formulations (det, cofactor of 3x3) do not accept
        col.add("C01.O1", "SolidBody mixed[%s,%s]" % (kind, mat), "not applicable: mixed formulations need a 3x3 deformation gradient", True, "skipped", nontrivial=False)
        return
    mcls = it.get("felupe.constitution._mixed:" + mat)
    kw = dict(material=inner)
    if mat == "NearlyIncompressible":
        kw["bulk"] = sym("bulk", True)
    umat = it.call(mcls, [], kw)
    cls = it.get("felupe.mechanics._solidbody:SolidBody")
    body = it.call(cls, [], dict(umat=umat, field=fc))
    asm = it.getattr(body, "assemble")
    r = it.call(it.getattr(asm, "vector"), [fc], {})
    K = it.call(it.getattr(asm, "matrix"), [fc], {})
    derivative_obligations(col, "C01.O1", "SolidBody mixed[%s,%s]" % (kind, mat), method_where(cls, "_matrix"), r, K, unknowns)
    finish_info(col, it)


def run_nearly(col, kind):
    it = new_interp()
    fc, unknowns, (ra, rb), d, tdim = setup_fields(it, kind)
    umat = OpaqueHyper("Wm", dim=tdim)
    cls = it.get("felupe.mechanics._solidbody_incompressible:SolidBodyNearlyIncompressible")
    if kind == "Field2":
        col.add("C01.O2", "SolidBodyNearlyIncompressible[%s]" % kind, "not applicable: needs a 3x3 deformation gradient", True, "skipped", nontrivial=False)
        return
    body = it.call(cls, [], dict(umat=umat, field=fc, bulk=sym("bulk", True)))
    asm = it.getattr(body, "assemble")
    r = it.call(it.getattr(asm, "vector"), [fc], {})
    K = it.call(it.getattr(asm, "matrix"), [fc], {})
    derivative_obligations(col, "C01.O2", "SolidBodyNearlyIncompressible[%s]" % kind, method_where(cls, "_matrix"), r, K, unknowns,
                           rule="at the settled state (p = bulk (v/V - 1), as after every extract): matrix == total derivative of the vector, incl. bulk/V h (x) h")
    # the state is settled: p == bulk (J - 1), J == v / V
    st = it.getattr(it.getattr(body, "results"), "state")
    pst, Jst = it.getattr(st, "p"), it.getattr(st, "J")
    okk = all(is_zero(P(pst[c]) - sym("bulk", True) * (P(Jst[c]) - ONE)) for c in range(len(pst)))
    col.add("C01.O2", "SolidBodyNearlyIncompressible[%s] state" % kind, "condensed state after extract: p == bulk (J - 1)", okk)
    if kind == "Field3":
        # history: the body exists (created and assembled at the undeformed state), then the field jumps to U by a finite amount (values loaded,
        # a user-written solver, a line search).  The first evaluation after the jump updates the condensed (p, J) by a linearised predictor, a
        # further evaluation at the same values settles them: from then on the body is the one a fresh body at U is
        f0 = fc.attrs["fields"][0]
        Uarr = f0.attrs["values"]
        f0.attrs["values"] = micro.zeros(Uarr.shape)
        body2 = it.call(cls, [], dict(umat=umat, field=fc, bulk=sym("bulk", True)))
        asm2 = it.getattr(body2, "assemble")
        it.call(it.getattr(asm2, "vector"), [fc], {})
        f0.attrs["values"] = Uarr
        it.call(it.getattr(asm2, "vector"), [fc], {})
        r2 = it.call(it.getattr(asm2, "vector"), [fc], {})
        K2 = it.call(it.getattr(asm2, "matrix"), [fc], {})
        bad = diff_dense(r2, r) + diff_dense(K2, K)
        col.add("C01.O2", "SolidBodyNearlyIncompressible[%s] after a finite jump of the field" % kind,
                "an existing body evaluated (repeatedly) at new displacements settles to the state of a fresh body there: same vector, same matrix (= derivative of the vector)",
                not bad, "%s: %s" % (method_where(cls, "_extract"), "; ".join(bad[:3])))
    finish_info(col, it)


class StatefulOpaque(OpaqueHyper):
    """opaque material with stored state variables: every gradient call returns a *new* trial state, different from the one it was given;
    records the state it is handed in each call"""

    def __init__(self, name="Wz", dim=3):
        OpaqueHyper.__init__(self, name, dim, with_state=True)
        self.states_seen = []
        self.extra_seen = []
        self.ntrial = 0

    def gradient(self, x, *args, out=None, **kw):
        res = OpaqueHyper.gradient(self, x, out=out)
        self.extra_seen.append(("gradient", tuple(args), dict(kw)))
        self.states_seen.append(("gradient", npmodel.to_obj(np.asarray(x[-1])).copy()))
        self.ntrial += 1
        trial = npmodel.to_obj(np.asarray(x[-1])).copy()
        for t in np.ndindex(*trial.shape):
            trial[t] = sym("ztrial%d" % self.ntrial)
        return [res[0], trial]

    def hessian(self, x, *args, out=None, **kw):
        self.extra_seen.append(("hessian", tuple(args), dict(kw)))
        self.states_seen.append(("hessian", npmodel.to_obj(np.asarray(x[-1])).copy()))
        return OpaqueHyper.hessian(self, x, out=out)


def run_state_consistency(col, body_kind):
    """vector and matrix differentiate one function only if both evaluate the material at the *same* stored state variables: the
    committed ones (results.statevars), never the trial state a previous evaluation returned"""
    it = new_interp()
    fc, unknowns, (ra, rb), d, tdim = setup_fields(it, "Field3", nq=1)
    umat = StatefulOpaque("Wz", dim=3)
    if body_kind == "SolidBody":
        cls = it.get("felupe.mechanics._solidbody:SolidBody")
        body = it.call(cls, [], dict(umat=umat, field=fc))
    else:
        cls = it.get("felupe.mechanics._solidbody_incompressible:SolidBodyNearlyIncompressible")
        body = it.call(cls, [], dict(umat=umat, field=fc, bulk=sym("bulk", True)))
    res = it.getattr(body, "results")
    committed = npmodel.to_obj(np.asarray(it.getattr(res, "statevars")))
    for t in np.ndindex(*committed.shape):
        committed[t] = sym("zcommitted")
    it.setattr(res, "statevars", committed.copy())
    asm = it.getattr(body, "assemble")
    umat.states_seen = []
    for rep in range(2):
        it.call(it.getattr(asm, "vector"), [fc], {})
        it.call(it.getattr(asm, "matrix"), [fc], {})
    bad = []
    for kind_, st in umat.states_seen:
        if st.shape != committed.shape or any(not is_zero(P(a) - P(b)) for a, b in zip(st.reshape(-1), committed.reshape(-1))):
            bad.append((kind_, str(st.reshape(-1)[0]) if st.size else "empty"))
    kinds = {k for k, _ in umat.states_seen}
    col.add("C01.O1z", "%s state variables handed to the material" % body_kind,
            "in vector -> matrix -> vector -> matrix every umat.gradient and umat.hessian call receives the committed state variables (not a trial state of an earlier evaluation)",
            not bad and kinds == {"gradient", "hessian"}, "%s: calls with another state: %s" % (method_where(cls, "_matrix"), bad[:4]))
    # optional material arguments (time step, temperature, ...) reach gradient and hessian alike
    umat.extra_seen = []
    ta, tk = sym("t_arg"), sym("t_kw")
    it.call(it.getattr(asm, "vector"), [fc], dict(args=(ta,), kwargs=dict(dt=tk)))
    it.call(it.getattr(asm, "matrix"), [fc], dict(args=(ta,), kwargs=dict(dt=tk)))
    okx = {k for k, _, _ in umat.extra_seen} == {"gradient", "hessian"} and all(
        len(a) == 1 and a[0] is ta and set(kw) == {"dt"} and kw["dt"] is tk for _, a, kw in umat.extra_seen)
    col.add("C01.O1z", "%s material arguments" % body_kind, "args and kwargs handed to assemble.vector / assemble.matrix reach umat.gradient and umat.hessian unchanged (the same function is differentiated)",
            okx, "%s: %s" % (method_where(cls, "_matrix"), [(k, len(a), sorted(kw)) for k, a, kw in umat.extra_seen]))
    now = npmodel.to_obj(np.asarray(it.getattr(res, "statevars")))
    col.add("C01.O1z", "%s committed state untouched by assembly" % body_kind, "assembling vector and matrix does not change results.statevars",
            now.shape == committed.shape and all(is_zero(P(a) - P(b)) for a, b in zip(now.reshape(-1), committed.reshape(-1))))
    finish_info(col, it)


def run_reassembly(col, cfg):
    """a body assembled at one state and then at another returns, at the second state, what a fresh body returns there: the result
    buffers the body hands to the material (out=) and its cached kinematics carry nothing over -- with felupe's own hand-coded materials"""
    from .c02 import diff_dense

    it = new_interp()
    fc, unknowns, (ra, rb), d, tdim = setup_fields(it, "PlaneStrain", nq=1)
    base = "felupe.constitution.hyperelasticity."
    mu, bulk = sym("mu", True), sym("bulk", True)
    if cfg == "NeoHooke(bulk)":
        mk = lambda: it.call(it.get(base + "_neo_hooke_nearly_incompressible:NeoHooke"), [], dict(bulk=bulk))
    elif cfg == "NeoHooke(mu,bulk)":
        mk = lambda: it.call(it.get(base + "_neo_hooke_nearly_incompressible:NeoHooke"), [], dict(mu=mu, bulk=bulk))
    elif cfg == "Volumetric":
        mk = lambda: it.call(it.get(base + "_volumetric:Volumetric"), [], dict(bulk=bulk))
    else:
        mk = lambda: it.call(it.get(base + "_neo_hooke_compressible:NeoHookeCompressible"), [], dict(mu=mu, lmbda=sym("lmbda", True)))
    cls = it.get("felupe.mechanics._solidbody:SolidBody")
    f0 = fc.attrs["fields"][0]
    U1 = f0.attrs["values"]
    U2 = symarray("V", np.asarray(U1).shape)

    def chk():
        body = it.call(cls, [], dict(umat=mk(), field=fc))
        asm = it.getattr(body, "assemble")
        it.call(it.getattr(asm, "vector"), [fc], {})
        it.call(it.getattr(asm, "matrix"), [fc], {})
        it.setattr(f0, "values", U2)
        r2 = micro.dense(it.call(it.getattr(asm, "vector"), [fc], {})).copy()
        K2 = micro.dense(it.call(it.getattr(asm, "matrix"), [fc], {})).copy()
        fresh = it.call(cls, [], dict(umat=mk(), field=fc))
        rf = micro.dense(it.call(it.getattr(it.getattr(fresh, "assemble"), "vector"), [fc], {}))
        Kf = micro.dense(it.call(it.getattr(it.getattr(fresh, "assemble"), "matrix"), [fc], {}))
        it.setattr(f0, "values", U1)
        bad = diff_dense(r2, rf)[:2] + diff_dense(K2, Kf)[:2]
        return not bad, "%s: %s" % (method_where(cls, "_vector"), "; ".join(b[:160] for b in bad))
    col.check("C01.O1r", "SolidBody(%s) re-assembled at another state" % cfg,
              "vector and matrix assembled at a second state equal those of a fresh body at that state (nothing is carried over in re-used result buffers)", chk)

    def chk_region():
        # mesh.update(points=..., callback=region.reload): Region.reload binds *new* arrays (dV, dhdX) to the region the field lives on;
        # a body created before measures the re-evaluated region, like a body created afterwards
        body = it.call(cls, [], dict(umat=mk(), field=fc))
        asm = it.getattr(body, "assemble")
        it.call(it.getattr(asm, "vector"), [fc], {})
        it.call(it.getattr(asm, "matrix"), [fc], {})
        old_ = (ra.dV, ra.dhdX, rb.dV)
        ra.dV = symarray("dVnew", ra.dV.shape, positive=True)
        ra.dhdX = symarray("dhnew", ra.dhdX.shape)
        rb.dV = ra.dV
        try:
            r2 = micro.dense(it.call(it.getattr(asm, "vector"), [fc], {})).copy()
            K2 = micro.dense(it.call(it.getattr(asm, "matrix"), [fc], {})).copy()
            fresh = it.call(cls, [], dict(umat=mk(), field=fc))
            rf = micro.dense(it.call(it.getattr(it.getattr(fresh, "assemble"), "vector"), [fc], {}))
            Kf = micro.dense(it.call(it.getattr(it.getattr(fresh, "assemble"), "matrix"), [fc], {}))
        finally:
            ra.dV, ra.dhdX, rb.dV = old_
        bad = diff_dense(r2, rf)[:2] + diff_dense(K2, Kf)[:2]
        uses_new = any("dVnew" in str(P(v)) for v in rf.reshape(-1))
        return not bad and uses_new, "%s: %s" % (method_where(cls, "_vector"), "; ".join(b[:160] for b in bad))
    col.check("C01.O1r", "SolidBody(%s) re-assembled after its region was re-evaluated" % cfg,
              "after Region.reload bound new differential volumes and gradients, an existing body assembles what a body created on the reloaded region assembles", chk_region)
    finish_info(col, it)


def run_loads(col):
    from . import c01_items
    c01_items.run_loads(col)


def run_multipoint(col):
    from . import c01_items
    c01_items.run_multipoint(col)


def run_surface(col):
    from . import c01_items
    c01_items.run_surface(col)


def run_surface_2d(col, kind):
    from . import c01_items
    c01_items.run_surface_2d(col, kind)


def run_multiplier(col):
    from . import c01_items
    c01_items.run_multiplier(col)


def run_formitem(col):
    from . import c01_items
    c01_items.run_formitem(col)


def run_included(col, modname, fname, kwargs, oid, why, select_oid=None):
    from ..common import include

    include(col, modname, fname, kwargs, oid, why, select_oid=select_oid)
