import numpy as np, felupe as fem
# (1) MPC with negative point ids including the centre
mesh = fem.Cube(n=3); mesh.update(points=np.vstack([mesh.points, [2.0, 0.5, 0.5]]))
region = fem.RegionHexahedron(mesh); field = fem.FieldContainer([fem.Field(region, dim=3)])
field[0].values[:] = 0.01*np.random.default_rng(0).normal(size=field[0].values.shape)
for pts in ([0, 1, mesh.npoints-1], [0, 1, -1]):
    mpc = fem.MultiPointConstraint(field, points=pts, centerpoint=mesh.npoints-1, multiplier=10.0)
    K = mpc.assemble.matrix().toarray(); r = mpc.assemble.vector().toarray().ravel()
    x = field[0].values.ravel().copy(); eps=1e-6; J=np.zeros_like(K)
    for k in range(x.size):
        for s in (1,-1):
            field[0].values.ravel()[k] = x[k]+s*eps
            J[:,k] += s*mpc.assemble.vector().toarray().ravel()/(2*eps)
        field[0].values.ravel()[k] = x[k]
    print("MPC points", pts, "stored", mpc.points, "max|K - dr/dx| =", abs(K-J).max())
# (3) composite out=
F = np.eye(3).reshape(3,3,1,1) + 0.1*np.random.default_rng(1).normal(size=(3,3,1,1))
um = fem.NeoHooke(mu=1.0) & fem.Volumetric(bulk=5.0)
P0 = um.gradient([F, None])[0]
buf = np.zeros_like(F)
try:
    P1 = um.gradient([F, None], out=buf)[0]
    print("composite out=: max |P(out) - P| =", abs(P1-P0).max())
except Exception as e:
    print("composite out= raises", type(e).__name__, e)
solid = fem.SolidBody(um, field)
r1 = solid.assemble.vector().toarray(); 
solid2 = fem.SolidBody(fem.NeoHooke(mu=1.0, bulk=5.0), field)
print("SolidBody(NeoHooke & Volumetric) vs NeoHooke(mu,bulk):", abs(r1 - solid2.assemble.vector().toarray()).max())
r1b = solid.assemble.vector().toarray()
print("second assembly differs from first:", abs(r1b-r1).max())
# (2) sigma
try:
    fem.FreeVibration([solid2]).evaluate(sigma=0.0)
    print("sigma ok")
except Exception as e:
    print("sigma raises", type(e).__name__, e)
