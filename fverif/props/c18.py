"""C18 -- modal analysis (structural clauses; DESIGN.md section 3, C18)."""

from fractions import Fraction

import numpy as np

from .. import ring, npmodel, micro, scenario
from ..ring import P, sym, is_zero, ZERO, ONE
from ..common import new_interp, symarray, finish_info, method_where
from ..interp import InterpRaise

SPEC = dict(
    level="other",
    rule="FreeVibration.evaluate / extract are evaluated from source on symbolic item matrices (two items, one with a multiplier, one "
    "smaller than the global size) with a recording eigen-solver: K and M handed to the solver are the sums over all items resized to "
    "the global shape, K with the item multiplier applied (M without), both sliced with the same free unknowns on rows and columns, "
    "sigma forwarded; extract scatters mode n into a zero vector at the free unknowns only, zeroes the fields before adding it (so the "
    "mode vanishes on prescribed unknowns) and reports sqrt(lambda_n) / (2 pi); inplace=False leaves the item's field untouched. "
    "SolidBody._mass is the value-value form of density * 1 on the first field (symmetric Gram matrix).",
    trusted_base=["scipy.sparse.linalg.eigsh returns eigenpairs of the pencil it is given (opaque)", "C08 partition semantics; C02 assembly"],
    explanation="that each returned pair satisfies K v = lambda M v, the number of zero modes and rigid-motion invariance are properties of eigsh's "
    "output on runtime matrices and are not decidable statically; the clauses above are necessary conditions (the right pencil is built, "
    "the result is placed and scaled correctly)",
    exhaustive=True,
    not_decided=["eigenpair validity K v = lambda M v (eigsh output)", "count of zero-frequency modes", "invariance of the spectrum under rigid motion"],
    assumptions=["eigsh is correct"],
)

FLOORS = {}


def tasks(tier):
    return [("evaluate", "run_evaluate", {}), ("extract", "run_extract", {}), ("mass", "run_mass", {}),
            # the free unknowns of the eigenproblem come from dof.partition (incl. the rule that unknowns of points without cells are prescribed,
            # also for an empty boundary dictionary: free-free analysis)
            ("free unknowns (dof.partition)", "run_included", dict(modname="c08", fname="run_partition", kwargs=dict(dim=2), oid="C18.O4",
                                                                 why="K and M are sliced with the free unknowns dof.partition returns; a cell-less point left free makes the pencil singular"))]


class VibItem:
    def __init__(self, name, field, n, nglob, multiplier=None):
        self.name = name
        self.field = field
        self.assemble = scenario.Namespace()
        self.assemble.multiplier = multiplier
        self.assemble.matrix = lambda parallel=False, **kw: npmodel.AbstractSparse(symarray("K" + name, (n, n)))
        self.assemble.mass = lambda **kw: npmodel.AbstractSparse(symarray("M" + name, (n, n)))


def _setup(it):
    fc, n, dof0, dof1, ext0, regs = scenario.make_problem(it, nfields=2)  # global size 10: 8 displacement + 2 dual unknowns (no mass)
    it.call_hooks[("felupe.dof._tools", "partition")] = lambda interp, fn, args, kwargs: (dof0, dof1)
    mlt = sym("mult")
    # three items: no multiplier, a symbolic one, and a stiffness that is switched off (multiplier 0: its mass still counts)
    items = [VibItem("a", fc, n, n), VibItem("b", fc, 8, n, multiplier=mlt), VibItem("c", fc, n, n, multiplier=0)]
    return fc, n, dof0, dof1, items, mlt


def run_evaluate(col):
    it = new_interp()
    fc, n, dof0, dof1, items, mlt = _setup(it)
    rec = {}

    def solver(A=None, M=None, sigma=None, **kw):
        rec.update(A=A, M=M, sigma=sigma, kw=kw)
        k = 3
        # an indefinite pencil (pre-stressed beyond a stability limit): a negative, a zero and a positive eigenvalue
        lam = symarray("lam", (k,), positive=True)
        lam[0] = P(Fraction(-3, 2))
        lam[1] = ZERO
        rec["lam"], rec["phi"] = lam, symarray("phi", (len(dof1), k))
        return lam.copy(), rec["phi"].copy()

    FV = it.get("felupe.mechanics._free_vibration:FreeVibration")
    job = it.call(FV, [items], dict(boundaries={}))
    it.call_method(job, "evaluate", [], dict(solver=solver, k=3, sigma=sym("sig")))
    w = method_where(FV, "evaluate")

    def entry(name, i, j, size):
        return sym("%s[%d,%d]" % (name, i, j)) if (i < size and j < size) else ZERO

    A, M = micro.dense(rec["A"]), micro.dense(rec["M"])
    badK, badM = [], []
    for a, i in enumerate(dof1):
        for b, j in enumerate(dof1):
            wantK = entry("Ka", i, j, n) + mlt * entry("Kb", i, j, 8) + 0 * entry("Kc", i, j, n)
            wantM = entry("Ma", i, j, n) + entry("Mb", i, j, 8) + entry("Mc", i, j, n)
            if not is_zero(P(A[a, b]) - wantK):
                badK.append((int(i), int(j)))
            if not is_zero(P(M[a, b]) - wantM):
                badM.append((int(i), int(j)))
    col.add("C18.O1", "FreeVibration.evaluate stiffness", "A == sum over items of (multiplier *) K resized to the global shape, rows and columns restricted to the free unknowns", not badK and A.shape == (len(dof1),) * 2, "%s: %s" % (w, badK[:4]))
    col.add("C18.O1", "FreeVibration.evaluate mass", "M == sum over items of the mass matrices resized alike and sliced with the same free unknowns", not badM and M.shape == (len(dof1),) * 2, "%s: %s" % (w, badM[:4]))
    ev_, evec_ = npmodel.to_obj(np.asarray(it.getattr(job, "eigenvalues"))), npmodel.to_obj(np.asarray(it.getattr(job, "eigenvectors")))
    okp = ev_.shape == rec["lam"].shape and evec_.shape == rec["phi"].shape and all(is_zero(P(a) - P(b)) for a, b in zip(ev_.reshape(-1), rec["lam"].reshape(-1))) \
        and all(is_zero(P(a) - P(b)) for a, b in zip(evec_.reshape(-1), rec["phi"].reshape(-1)))
    col.add("C18.O1", "FreeVibration.evaluate eigenpairs", "the stored (eigenvalue, eigenvector) pairs are the solver's pairs, unchanged (negative and zero eigenvalues of an indefinite pencil included): only those satisfy K v = lambda M v",
            okp, "%s: stored eigenvalues %s, solver returned %s" % (w, [ring.fmt(P(v), 3) for v in ev_.reshape(-1)], [ring.fmt(P(v), 3) for v in rec["lam"].reshape(-1)]))
    col.add("C18.O1", "FreeVibration.evaluate solver arguments", "sigma and further keyword arguments are forwarded to the eigen-solver", is_zero(P(rec["sigma"]) - sym("sig")) and rec["kw"].get("k") == 3, str(rec["kw"]))
    # a second evaluation of the same job after the boundary dictionary changed: the new partition is used
    dof0b = np.array([0, 1])
    dof1b = np.array([i for i in range(n) if i not in (0, 1)])
    it.call_hooks[("felupe.dof._tools", "partition")] = lambda interp, fn, args, kwargs: (dof0b, dof1b)
    it.call_method(job, "evaluate", [], dict(solver=solver, k=3, sigma=sym("sig")))
    A2 = micro.dense(rec["A"])
    ok2 = A2.shape == (len(dof1b),) * 2 and np.array_equal(it.getattr(job, "dof1"), dof1b) and all(
        is_zero(P(A2[a, b]) - (entry("Ka", i, j, n) + mlt * entry("Kb", i, j, 8) + 0 * entry("Kc", i, j, n))) for a, i in enumerate(dof1b) for b, j in enumerate(dof1b))
    col.add("C18.O1", "FreeVibration.evaluate re-evaluated", "every evaluation partitions with the job's current boundary dictionary (no partition of an earlier evaluation is re-used)", ok2,
            "%s: matrix shape %s for %d free unknowns" % (w, A2.shape, len(dof1b)))
    col.add("C18.O1", "FreeVibration.evaluate stores", "eigenvalues, eigenvectors and the free unknowns are stored on the job", it.getattr(job, "eigenvalues") is not None and np.array_equal(it.getattr(job, "dof1"), dof1b))
    finish_info(col, it)


def run_extract(col):
    it = new_interp()
    fc, n, dof0, dof1, items, mlt = _setup(it)
    lam = symarray("lam", (3,), positive=True)
    phi = symarray("phi", (len(dof1), 3))
    FV = it.get("felupe.mechanics._free_vibration:FreeVibration")
    # the job is brought to its evaluated state by its own evaluate() (a stub eigen-solver hands back symbolic pairs); the boundaries
    # carry non-zero prescribed values (a dictionary re-used after a static step): dof.apply, if consulted at all, returns them
    ext = symarray("ext", (len(dof0),))
    it.call_hooks[("felupe.dof._tools", "apply")] = lambda interp, fn, args, kwargs: ext.copy()
    job = it.call(FV, [items], dict(boundaries={}))
    it.call_method(job, "evaluate", [], dict(solver=lambda A=None, M=None, sigma=None, **kw: (lam.copy(), phi.copy()), k=3))
    before = scenario.flat_values(it, fc)
    for mode in (0, 2):
        field, freq = it.call_method(job, "extract", [], dict(n=mode, inplace=False))
        vals = scenario.flat_values(it, field)
        bad = []
        for a, i in enumerate(dof1):
            if not is_zero(P(vals[i]) - phi[a, mode]):
                bad.append(int(i))
        zero = [int(j) for j in dof0 if P(vals[j]).t]
        col.add("C18.O2", "FreeVibration.extract mode %d" % mode, "the mode is scattered to the free unknowns of zeroed fields: it vanishes on every prescribed unknown", not bad and not zero,
                "%s: wrong %s, non-zero prescribed %s" % (method_where(FV, "extract"), bad, zero))
        okf = is_zero(P(freq) * 2 * ring.pi() - ring.power(lam[mode], Fraction(1, 2)))
        col.add("C18.O2", "FreeVibration.extract frequency %d" % mode, "frequency == sqrt(lambda_n) / (2 pi)", okf, ring.fmt(P(freq)))
        after = scenario.flat_values(it, fc)
        col.add("C18.O2", "FreeVibration.extract inplace=False %d" % mode, "with inplace=False the item's field keeps its values", all(is_zero(P(a) - P(b)) for a, b in zip(before, after)))
    field, freq = it.call_method(job, "extract", [], dict(n=1, inplace=True))
    col.add("C18.O2", "FreeVibration.extract inplace=True", "with inplace=True the item's own field receives the mode", field is fc and is_zero(P(scenario.flat_values(it, fc)[int(dof1[0])]) - phi[0, 1]))
    finish_info(col, it)


def run_mass(col):
    it = new_interp()
    from .c01 import setup_fields
    from .c02 import ref_bilinear, diff_dense
    from .c03 import OpaqueHyper
    for kind in ("Field2", "Axisymmetric"):
        fc, unknowns, (ra, rb), d, tdim = setup_fields(it, kind, mixed=1)
        rho = sym("rho", True)
        for cname, mod, kw in (("SolidBody", "_solidbody", {}), ("SolidBodyNearlyIncompressible", "_solidbody_incompressible", dict(bulk=sym("bulk", True)))):
            if cname == "SolidBodyNearlyIncompressible":
                fc1, _, (ra, rb), d, tdim = setup_fields(it, "PlaneStrain" if kind == "Field2" else kind)
            else:
                fc1 = fc
            body = it.call(it.get("felupe.mechanics.%s:%s" % (mod, cname)), [], dict(umat=OpaqueHyper("Wm", dim=3 if cname.endswith("Incompressible") else tdim), field=fc1, density=rho, **kw))
            Mm = micro.dense(it.call(it.getattr(it.getattr(body, "assemble"), "mass"), [], {}))
            wgt = None
            if kind == "Axisymmetric":
                def wgt(q, c, ra=ra):
                    R = sum((ra.mesh.points[ra.mesh.cells[c, a], 1] * ra.h[a, q, 0] for a in range(2)), ZERO)
                    return 2 * ring.pi() * R
            want = ref_bilinear(ra, ra, d, d, lambda i, J, k, L, q, c: (rho if i == k else ZERO), False, False, weight=wgt)
            bad = diff_dense(Mm, want)
            sym_ok = all(is_zero(P(Mm[i, j]) - P(Mm[j, i])) for i in range(Mm.shape[0]) for j in range(i))
            col.add("C18.O3", "%s[%s]._mass" % (cname, kind), "mass matrix == sum rho N_a N_b delta_ik dV on the first field only (a Gram matrix: symmetric positive semi-definite)", not bad and sym_ok, "; ".join(bad))
    finish_info(col, it)


def run_included(col, modname, fname, kwargs, oid, why):
    from ..common import include

    include(col, modname, fname, kwargs, oid, why)
