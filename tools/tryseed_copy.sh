#!/bin/sh
# tools/tryseed_copy.sh <patch.diff> <check> [check...]: apply a patch to a scratch copy of /repo's HEAD (outside /repo) and run the checks on it
patch=$1; shift
d=/tmp/repo_try_$$
rm -rf $d; mkdir -p $d
git -C /repo archive HEAD | tar -x -C $d
(cd $d && patch -p1 -s < $patch) || { echo "patch failed"; rm -rf $d; exit 3; }
cd /verif
for p in "$@"; do
  python3-vt -m fverif check $p --tier quick --repo $d 2>&1 | grep -v "^KNOWN-FINDING" | tail -4 | cut -c1-420
done
rm -rf $d
