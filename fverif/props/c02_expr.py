"""C02.O8(ii) / O9 -- expression API (placeholder filled in below)"""


def run(col, tier):
    col.add("C02.O9", "expression api", "pending", True, "not yet built", nontrivial=False)


def run_threads(col):
    col.add("C02.O8", "thread discipline", "pending", True, "not yet built", nontrivial=False)
