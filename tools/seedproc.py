#!/usr/bin/env python3
"""Process one sub-agent seeded change.

  python3 tools/seedproc.py <worktree> <seed-name> <property> [checks...] [--nosuite]

1. confirm in the scratch worktree: demo exits 0 on the unmodified tree, non-zero with the patch, full suite passes with the patch
2. apply patch to /repo, run the listed checks (default: the property's own), undo (git checkout -- .)
3. store /verif/seeded/<seed-name>/{patch.diff, demo.py, notes.md, meta.json}
"""
import json
import os
import shutil
import subprocess
import sys
import time

VERIF = os.path.dirname(os.path.dirname(os.path.abspath(__file__)))


def sh(cmd, cwd=None, env=None, timeout=3600):
    r = subprocess.run(cmd, shell=True, cwd=cwd, env=env, capture_output=True, text=True, timeout=timeout)
    return r.returncode, r.stdout + r.stderr


def main():
    args = [a for a in sys.argv[1:] if not a.startswith("--")]
    nosuite = "--nosuite" in sys.argv
    wt, name, pid = args[0], args[1], args[2]
    checks = args[3:] or [pid]
    sub = [a.split("=", 1)[1] for a in sys.argv[1:] if a.startswith("--seed=")]
    seedrel = sub[0] if sub else "_seed"
    seed = os.path.join(wt, seedrel)
    patch = os.path.join(seed, "patch.diff")
    env = dict(os.environ, PYTHONPATH=os.path.join(wt, "src"))
    meta = dict(property=pid, name=name, ran=[])
    # -- unmodified
    rc, out = sh("git -C %s checkout -- src" % wt)
    rc0, out0 = sh("/venv/bin/python %s/demo.py" % seedrel, cwd=wt, env=env, timeout=1200)
    meta["ran"].append(dict(cmd="demo.py on unmodified tree", exit=rc0, tail=out0[-300:]))
    rc, out = sh("git -C %s apply %s" % (wt, patch))
    assert rc == 0, out
    rc1, out1 = sh("/venv/bin/python %s/demo.py" % seedrel, cwd=wt, env=env, timeout=1200)
    meta["ran"].append(dict(cmd="demo.py with patch", exit=rc1, tail=out1[-400:]))
    if not nosuite:
        t0 = time.time()
        rcs, outs = sh("/venv/bin/python -m pytest -q -p no:cacheprovider -x --timeout=900 .", cwd=wt, env=env, timeout=3000)
        meta["ran"].append(dict(cmd="full test suite with patch", exit=rcs, tail=outs.strip().splitlines()[-1] if outs.strip() else "", wall=round(time.time() - t0)))
    else:
        rcs = None
    meta["confirmed"] = (rc0 == 0 and rc1 != 0 and rcs in (0, None))
    print("demo unmodified: %d   demo patched: %d   suite: %s" % (rc0, rc1, rcs))
    # -- checks against /repo with the patch applied
    rc, out = sh("git -C /repo status --porcelain -- src")
    assert out.strip() == "", "/repo dirty: " + out
    rc, out = sh("git -C /repo apply %s" % patch)
    assert rc == 0, out
    meta["checks"] = {}
    try:
        for c in checks:
            t0 = time.time()
            e = dict(os.environ, FVERIF_EVIDENCE_DIR="/tmp/seed_ev", FVERIF_REPLAY_DIR="/tmp/seed_rp")
            rc, out = sh("timeout 1500 python3-vt -m fverif check %s --tier quick" % c, cwd=VERIF, env=e, timeout=1600)
            viol = [l.strip()[:300] for l in out.splitlines() if l.strip().startswith("violated")][:4]
            und = [l.strip()[:300] for l in out.splitlines() if l.strip().startswith("undecided")][:4]
            meta["checks"][c] = dict(exit=rc, wall=round(time.time() - t0), violated=viol, undecided=und)
            print("check %s -> exit %d (%ds)" % (c, rc, time.time() - t0))
            for v in viol + und:
                print("    " + v)
    finally:
        sh("git -C /repo checkout -- .")
        shutil.rmtree("/tmp/seed_ev", ignore_errors=True)
        shutil.rmtree("/tmp/seed_rp", ignore_errors=True)
    rc, out = sh("git -C /repo status --porcelain -- src")
    assert out.strip() == "", "/repo dirty after undo: " + out
    meta["caught_by"] = [c for c, v in meta["checks"].items() if v["exit"] == 1]
    notes = open(os.path.join(seed, "notes.md")).read() if os.path.exists(os.path.join(seed, "notes.md")) else ""
    meta["needs_to_manifest"] = notes
    dst = os.path.join(VERIF, "seeded", name)
    os.makedirs(dst, exist_ok=True)
    for f in ("patch.diff", "demo.py", "notes.md"):
        if os.path.exists(os.path.join(seed, f)):
            shutil.copy(os.path.join(seed, f), dst)
    json.dump(meta, open(os.path.join(dst, "meta.json"), "w"), indent=1)
    print("confirmed:", meta["confirmed"], " caught by:", meta["caught_by"])


main()
