"""C03.O9 -- wrapper algebra of the automatic-differentiation material classes.

tensortrax / jax themselves are trusted ("they differentiate the function they are given"); their
summaries return opaque derivative atoms of the *function object they were handed*, so that the
wrapper's push-forward algebra, the C = F^T F construction and "gradient and hessian differentiate
the same function" become checkable identities."""

import ast
from fractions import Fraction

import numpy as np

from .. import ring, npmodel
from ..ring import P, sym, diff, is_zero, ZERO, ONE
from ..common import new_interp, finish_info, method_where, where_of
from ..interp import TypeMarker, FunctionValue, BoundMethod
from ..npmodel import ExtModule


class FunTag:
    """identity of a differentiated function (tr.take wrappers share the underlying function)"""

    table = {}

    @classmethod
    def of(cls, f):
        key = id(f.fn) if isinstance(f, BoundMethod) else id(f)
        if isinstance(f, Take):
            key = (id(f.fun), f.item)
        if key not in cls.table:
            cls.table[key] = "W%d" % len(cls.table)
        return cls.table[key]


class Take:
    def __init__(self, fun, item):
        self.fun = fun
        self.item = item


def _rule(nm, k):
    base, _, idx = nm.partition("|")
    lst = [int(v) for v in idx.split(",") if v] + [k]
    return "%s|%s" % (base, ",".join(map(str, sorted(lst))))


def _args(C):
    return [C[i, j, 0, 0] for i in range(3) for j in range(3)]


def tensortrax_summary(log):
    def gradient(fun, wrt=0, ntrax=2, parallel=False, sym=False, full_output=False, **kw):
        tag = FunTag.of(fun)
        ring.set_ofun_rule(tag, _rule)

        def ev(C, *sv, **kwargs):
            log.append(("gradient", tag, sym, wrt, ntrax))
            a = _args(C)
            g = np.empty(C.shape, dtype=object)
            for i in range(3):
                for j in range(3):
                    g[i, j] = ring.ofun("%s|%d" % (tag, 3 * i + j), a)
            if sym:
                g = (g + np.einsum("ij...->ji...", g)) * Fraction(1, 2)
            return g

        return ev

    def hessian(fun, wrt=0, ntrax=2, parallel=False, sym=False, full_output=False, **kw):
        tag = FunTag.of(fun)
        ring.set_ofun_rule(tag, _rule)

        def ev(C, *sv, **kwargs):
            log.append(("hessian", tag, sym, wrt, ntrax))
            a = _args(C)
            h = np.empty((3, 3, 3, 3) + C.shape[2:], dtype=object)
            for i, j, k, l in np.ndindex(3, 3, 3, 3):
                p, q = sorted((3 * i + j, 3 * k + l))
                h[i, j, k, l] = ring.ofun("%s|%d,%d" % (tag, p, q), a)
            if sym:
                h = (h + np.einsum("ijkl...->jikl...", h) + np.einsum("ijkl...->ijlk...", h) + np.einsum("ijkl...->jilk...", h)) * Fraction(1, 4)
            if full_output:
                g = gradient(fun, sym=sym)(C)
                log.pop()
                W = np.empty(C.shape[2:], dtype=object)
                W[...] = ring.ofun(tag + "|", a)
                return h, g, W
            return h

        return ev

    def function(fun, wrt=0, ntrax=2, parallel=False, **kw):
        tag = FunTag.of(fun)
        ring.set_ofun_rule(tag, _rule)

        def ev(X, *sv, **kwargs):
            log.append(("function", tag, npmodel.to_obj(np.asarray(X)).copy(), len(sv)))
            a = _args(X)
            r = np.empty(X.shape, dtype=object)
            for i in range(3):
                for j in range(3):
                    r[i, j] = ring.ofun("%s.P%d" % (tag, 3 * i + j), a)
            return r

        return ev

    def jacobian(fun, wrt=0, ntrax=2, parallel=False, **kw):
        tag = FunTag.of(fun)

        def ev(X, *sv, **kwargs):
            log.append(("jacobian", tag))
            a = _args(X)
            r = np.empty((3, 3, 3, 3) + X.shape[2:], dtype=object)
            for i, j, k, l in np.ndindex(3, 3, 3, 3):
                r[i, j, k, l] = ring.ofun("%s.P%d;%d" % (tag, 3 * i + j, 3 * k + l), a)
            return r

        return ev

    linalg = ExtModule("tensortrax.math.linalg", dict(det=npmodel.linalg_det, inv=npmodel.linalg_inv))
    mathm = ExtModule("tensortrax.math", dict(linalg=linalg))
    Tensor = TypeMarker("Tensor", lambda *a: None, lambda x: isinstance(x, np.ndarray))
    return {
        "tensortrax": ExtModule("tensortrax", dict(gradient=gradient, hessian=hessian, function=function, jacobian=jacobian,
                                                  take=lambda fun, item=0: Take(fun, item), Tensor=Tensor, math=mathm)),
        "tensortrax.math": mathm,
        "tensortrax.math.linalg": linalg,
    }


def jax_summary():
    npns = None

    def mk(it):
        jnp = ExtModule("jax.numpy", dict(it.externals["numpy"].ns))
        Array = TypeMarker("Array", lambda *a: None, lambda x: isinstance(x, np.ndarray))
        return {"jax": ExtModule("jax", dict(numpy=jnp, Array=Array)), "jax.numpy": jnp, "jax.numpy.linalg": jnp.ns["linalg"]}

    return mk


def run(col):
    log = []
    it = new_interp()
    it.externals.update(tensortrax_summary(log))
    it.externals.update(jax_summary()(it))
    from .c03 import Fsym, check_tensor_derivative, same_arrays

    # --- tensortrax Hyperelastic: P = F 2 dW/dC, A = 4 F F : D + I (x) S, with C = F^T F
    cls = it.get("felupe.constitution.tensortrax._hyperelastic:Hyperelastic")

    def Wfun(C, **kw):  # never evaluated: the summary differentiates it symbolically as an opaque function
        raise AssertionError("the strain energy function must not be evaluated by the wrapper")

    umat = it.call(cls, [Wfun], {})
    F = Fsym()
    F0 = F.copy()
    g = it.call_method(umat, "gradient", [[F, None]])
    h = it.call_method(umat, "hessian", [[F, None]])
    tags = {e[1] for e in log}
    col.add("C03.O9", "tensortrax.Hyperelastic same function", "gradient and hessian differentiate the same strain-energy function, with sym=True, w.r.t. argument 0",
            len(tags) == 1 and all(e[2] is True and e[3] == 0 for e in log if e[0] in ("gradient", "hessian")), str(log))
    # the argument handed to the AD routines must be C = F^T F
    Pw = g[0]
    # reference: P = d/dF W(C(F))
    C = np.einsum("ki...,kj...->ij...", F, F)
    tag = sorted(tags)[0]
    Wsym = ring.ofun(tag + "|", _args(npmodel.to_obj(C)))
    bad = [(i, j) for i in range(3) for j in range(3) if not is_zero(diff(Wsym, F[i, j, 0, 0]) - Pw[i, j, 0, 0])]
    col.add("C03.O9", "tensortrax.Hyperelastic._stress", "P == d W(F^T F)/dF == F 2 dW/dC (C handed to tensortrax is F^T F)", not bad,
            "%s entries %s" % (method_where(cls, "_stress"), bad))
    check_tensor_derivative(col, "C03.O9", "tensortrax.Hyperelastic._elasticity", method_where(cls, "_elasticity"),
                            "4 F F : d2W/dCdC + I (x) 2 dW/dC == d P / d F (literal einsum iI,kK,IJKL->iJkL)", Pw, h[0], F, 2)
    col.add("C03.O1u", "tensortrax.Hyperelastic inputs", "F unchanged", same_arrays(F, F0))
    # with state variables: the state function is item 1 of the same function
    del log[:]
    umat2 = it.call(cls, [Wfun], dict(nstatevars=2))
    sv = npmodel.zeros((2, 1, 1))
    g2 = it.call_method(umat2, "gradient", [[F, sv]])
    it.call_method(umat2, "hessian", [[F, sv]])
    ftags = {e[1] for e in log if e[0] in ("gradient", "hessian")}
    stags = {e[1] for e in log if e[0] == "function"}
    col.add("C03.O9", "tensortrax.Hyperelastic(nstatevars>0)", "energy = item 0 for both derivatives, state update = item 1 of the same function",
            len(ftags) == 1 and len(stags) == 1 and ftags != stags, str([e[:2] for e in log]))
    Cwant = np.einsum("ki...,kj...->ij...", F, F)
    fcalls = [e for e in log if e[0] == "function"]
    col.add("C03.O9", "tensortrax.Hyperelastic(nstatevars>0) state update argument", "the state-variable update is evaluated at the same C = F^T F as the energy (objective history) and receives the old state variables",
            bool(fcalls) and all(same_arrays(e[2], Cwant) and e[3] == 1 for e in fcalls), "constitution/tensortrax/_hyperelastic.py Hyperelastic._stress: the state update receives another argument than F^T F")
    # --- tensortrax Material: gradient = fun(F), hessian = jacobian of the same fun
    del log[:]
    mcls = it.get("felupe.constitution.tensortrax._material:Material")
    um = it.call(mcls, [Wfun], {})
    gm = it.call_method(um, "gradient", [[F, None]])
    hm = it.call_method(um, "hessian", [[F, None]])
    okk = [e[0] for e in log] == ["function", "jacobian"] and len({e[1] for e in log}) == 1
    a = _args(F)
    okk2 = all(is_zero(hm[0][i, j, k, l, 0, 0] - ring.ofun("%s.P%d;%d" % (log[0][1], 3 * i + j, 3 * k + l), a)) for i, j, k, l in np.ndindex(3, 3, 3, 3))
    col.add("C03.O9", "tensortrax.Material", "stress = fun(F); elasticity = jacobian of the same fun w.r.t. F, passed through unchanged", okk and okk2, str(log))
    # --- total / updated Lagrange wrappers (both backends)
    for backend in ("tensortrax", "jax"):
        tl = it.get("felupe.constitution.%s._total_lagrange:total_lagrange" % backend)
        ul = it.get("felupe.constitution.%s._updated_lagrange:updated_lagrange" % backend)
        F2 = np.empty((3, 3), dtype=object)
        S = np.empty((3, 3), dtype=object)
        for i in range(3):
            for j in range(3):
                F2[i, j] = sym("F%d%d" % (i, j))
                S[i, j] = sym("S%d%d" % (i, j))
        seen = []

        def mat(Farg, *args, **kw):
            seen.append((Farg, args, kw))
            return S

        def mat_sv(Farg, sv, **kw):
            seen.append((Farg, (sv,), kw))
            return S, "NEWSTATE"

        Pt = it.call(it.call(tl, [mat], {}), [F2], {})
        want = np.einsum("ik,kj->ij", F2, S)
        col.add("C03.O9", "%s.total_lagrange" % backend, "P == F S (and F, args forwarded unchanged)", same_arrays(Pt, want) and seen[-1][0] is F2,
                where_of(tl))
        r = it.call(it.call(tl, [mat_sv], {}), [F2, "OLD"], {})
        col.add("C03.O9", "%s.total_lagrange state" % backend, "with state variables returns (F S, new state) and forwards the old state",
                isinstance(r, tuple) and same_arrays(r[0], want) and r[1] == "NEWSTATE" and seen[-1][1] == ("OLD",))
        Pu = it.call(it.call(ul, [mat], {}), [F2], {})
        from .c17 import leibniz, cofactor
        wantu = np.empty((3, 3), dtype=object)
        for i in range(3):
            for j in range(3):
                acc = ZERO
                for k in range(3):
                    acc = acc + S[i, k] * cofactor(F2, j, k)  # J F^-T [k, j] = cof[k... ] -> (J inv(F))^T[k,j] = cof(F)[j,k]^T
                wantu[i, j] = acc
        # J sigma F^-T : (J F^-T)[k,j] = cofactor(F)[k,j]
        wantu = np.empty((3, 3), dtype=object)
        for i in range(3):
            for j in range(3):
                acc = ZERO
                for k in range(3):
                    acc = acc + S[i, k] * cofactor(F2, k, j)
                wantu[i, j] = acc
        col.add("C03.O9", "%s.updated_lagrange" % backend, "P == J sigma F^-T", same_arrays(Pu, wantu), where_of(ul))
        r = it.call(it.call(ul, [mat_sv], {}), [F2, "OLD"], {})
        col.add("C03.O9", "%s.updated_lagrange state" % backend, "with state variables returns (J sigma F^-T, new state)",
                isinstance(r, tuple) and same_arrays(r[0], wantu) and r[1] == "NEWSTATE")
    # --- jax as_total_lagrange: C = F^T F through the triu construction
    atl = it.get("felupe.constitution.jax._helpers:as_total_lagrange")
    got = []

    def rec(Carg, *a, **k):
        got.append(Carg)
        return "W"

    F2 = np.empty((3, 3), dtype=object)
    for i in range(3):
        for j in range(3):
            F2[i, j] = sym("F%d%d" % (i, j))
    res = it.call(it.call(atl, [rec], {}), [F2], {})
    wantC = np.einsum("ki,kj->ij", F2, F2)
    col.add("C03.O9", "jax.as_total_lagrange", "the function receives C == F^T F (full symmetric 3x3) and its value is returned unchanged",
            res == "W" and len(got) == 1 and same_arrays(got[0], wantC), where_of(atl))
    for backend in ("tensortrax", "jax"):
        iso = it.get("felupe.constitution.%s._helpers:isochoric_volumetric_split" % backend)
        got = []
        Cs = np.empty((3, 3), dtype=object)
        for i in range(3):
            for j in range(3):
                Cs[i, j] = sym("C%d%d" % (min(i, j), max(i, j)))
        it.call(it.call(iso, [lambda Carg, *a, **k: got.append(Carg)], {}), [Cs], {})
        from .c17 import leibniz
        d = leibniz(Cs)
        wantI = np.empty((3, 3), dtype=object)
        for i in range(3):
            for j in range(3):
                wantI[i, j] = ring.power(d, Fraction(-1, 3)) * Cs[i, j]
        col.add("C03.O9", "%s.isochoric_volumetric_split" % backend, "the function receives det(C)^(-1/3) C", len(got) == 1 and same_arrays(got[0], wantI))
    # --- jax Hyperelastic / Material: structural sibling rule on the AST (jax.vmap / jit machinery is not evaluated)
    import os
    from ..runner import SRC

    for fname, clsname, rule in (("_hyperelastic.py", "Hyperelastic", "hyper"), ("_material.py", "Material", "material")):
        path = os.path.join(SRC, "felupe", "constitution", "jax", fname)
        tree = ast.parse(open(path).read())
        cdef = [n for n in tree.body if isinstance(n, ast.ClassDef) and n.name == clsname][0]
        init = [n for n in cdef.body if isinstance(n, ast.FunctionDef) and n.name == "__init__"][0]
        assigns = {}
        for n in ast.walk(init):
            if isinstance(n, ast.Assign) and len(n.targets) == 1 and isinstance(n.targets[0], ast.Attribute) and isinstance(n.targets[0].value, ast.Name) and n.targets[0].value.id == "self":
                assigns.setdefault(n.targets[0].attr, []).append(n.value)
        def first_vmap_arg(nodes):
            for v in nodes:
                if isinstance(v, ast.Call) and getattr(v.func, "id", "") == "vmap2":
                    return v
            return None
        gcall, hcall = first_vmap_arg(assigns.get("_grad", [])), first_vmap_arg(assigns.get("_hess", []))
        construct = "jax.%s.__init__" % clsname
        rtext = "stress and elasticity are derived from the same function object and mapped over the same input axes (sibling rule on the AST)"
        if gcall is None or hcall is None or not gcall.args or not hcall.args:
            col.undecided("C03.O9", construct, rtext, "self._grad / self._hess are not built by vmap2(...) calls: idiom not recognised")
            continue

        def is_call(n, names):
            return isinstance(n, ast.Call) and ast.unparse(n.func) in names

        def diff_target(n, depth):
            """the function expression differentiated `depth` times, or None if the idiom is not recognised"""
            if depth == 0:
                return n
            if is_call(n, ("jax.grad", "jax.jacfwd", "jax.jacrev", "jax.jacobian", "jacobian")) and n.args:
                return diff_target(n.args[0], depth - 1)
            if depth == 2 and is_call(n, ("jax.hessian",)) and n.args:
                return n.args[0]
            return None

        if rule == "hyper":
            gx, hx = diff_target(gcall.args[0], 1), diff_target(hcall.args[0], 2)
        else:
            gx, hx = diff_target(gcall.args[0], 0), diff_target(hcall.args[0], 1)
        if gx is None or hx is None:
            col.undecided("C03.O9", construct, rtext, "differentiation idiom not recognised: %s / %s" % (ast.unparse(gcall.args[0]), ast.unparse(hcall.args[0])))
            continue
        kw_g = {k.arg: ast.dump(k.value) for k in gcall.keywords}
        kw_h = {k.arg: ast.dump(k.value) for k in hcall.keywords}
        ok_ = ast.dump(gx) == ast.dump(hx) and kw_g.get("in_axes") == kw_h.get("in_axes")
        col.add("C03.O9", construct, rtext, ok_, "%s:%d grad of %s, hessian of %s" % (path.replace(SRC + "/felupe/", ""), init.lineno, ast.unparse(gx), ast.unparse(hx)))
    finish_info(col, it)
