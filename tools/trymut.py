#!/usr/bin/env python3
"""apply one textual edit to a scratch copy of /repo/src and run a check against it.
usage: trymut.py <PID[,PID..]> <relative file under src/felupe> <old> <new> [--count N]"""
import os, shutil, subprocess, sys, tempfile
pids, relf, old, new = sys.argv[1:5]
tmp = tempfile.mkdtemp(prefix="fvmut_")
try:
    shutil.copytree("/repo/src", os.path.join(tmp, "src"), ignore=shutil.ignore_patterns("__pycache__", "*.egg-info"))
    p = os.path.join(tmp, "src", "felupe", relf)
    s = open(p).read()
    n = s.count(old)
    if n != 1:
        print("pattern occurs %d times" % n); sys.exit(3)
    open(p, "w").write(s.replace(old, new))
    for pid in pids.split(","):
        r = subprocess.run(["python3-vt", "-m", "fverif", "check", pid, "--repo", tmp], cwd="/verif", capture_output=True, text=True, timeout=900,
                           env=dict(os.environ, FVERIF_EVIDENCE_DIR=os.path.join(tmp, "ev"), FVERIF_REPLAY_DIR=os.path.join(tmp, "rp")))
        out = r.stdout.strip().splitlines()
        print(pid, "exit", r.returncode)
        for l in out[:8]:
            print("   ", l[:300])
finally:
    shutil.rmtree(tmp, ignore_errors=True)
