"""C17 -- batched tensor algebra equals its mathematical definition (DESIGN.md section 3, C17).

Every routine of felupe/math is evaluated from its AST on symbolic arrays whose batch items carry
distinct generators and compared entry-wise with a reference definition written here
(index formulas evaluated by brute force; Leibniz / cofactor expansions)."""

import itertools
from fractions import Fraction

import numpy as np

from .. import ring, npmodel
from ..ring import P, sym, is_zero, ZERO, ONE, Poly
from ..common import new_interp, functions_in, symarray, finish_info, where_of
from ..interp import InterpRaise

SPEC = dict(
    level="proof",
    rule="every public function of felupe/math/_tensor.py, _solve.py, _spatial.py, _math.py, _field.py is evaluated from its AST on "
    "symbolic arrays with distinct generators per batch item (batch shapes (2,), (2,1)x(1,2) broadcast, size-one axes) and "
    "compared with the reference definition (index formula by brute force, Leibniz determinant, cofactors); variants: "
    "parallel flag, out= dirty buffer, supplied determinant, sym shortcut, inputs unchanged. One obligation per "
    "(routine, mode, shape, variant); non-trivial = the compared arrays contain non-constant entries",
    trusted_base=[
        "numpy array semantics on object dtype (views, broadcasting, out=) as summarised in fverif/npmodel.py",
        "numpy.linalg eigen-solvers and the solver handed to solve_nd (opaque; only the axis bookkeeping around them is checked)",
        "einsumt computes the same contraction as numpy.einsum for equal subscripts",
        "reference definitions in fverif/props/c17.py (hand-written from the mathematical definitions)",
    ],
    explanation="algebraic value numbering of felupe.math over an exact ring; batch separation visible through distinct generators",
    exhaustive=True,
    not_decided=["accuracy of numpy.linalg eigen-solvers", "thread scheduling inside einsumt (value independence only)"],
    assumptions=["real arithmetic"],
)

FLOORS = {"math functions": ("math_functions", 41), "functions covered": ("math_functions_covered", 41)}

MODS = ["felupe.math._tensor", "felupe.math._solve", "felupe.math._spatial", "felupe.math._math", "felupe.math._field"]

# reference index formulas (the mathematical definitions)
DOT = {
    (2, 2): "ik,kj->ij", (1, 1): "i,i->", (4, 4): "ijkp,plmn->ijklmn", (2, 1): "ij,j->i", (1, 2): "i,ij->j",
    (2, 3): "im,mjk->ijk", (3, 2): "ijm,mk->ijk", (4, 1): "ijkl,l->ijk", (1, 4): "i,ijkl->jkl",
    (2, 4): "im,mjkl->ijkl", (4, 2): "ijkm,ml->ijkl",
}
DDOT = {
    (2, 2): "ij,ij->", (2, 4): "ij,ijkl->kl", (4, 2): "ijkl,kl->ij", (2, 3): "ij,ijk->k", (3, 2): "ijk,jk->i",
    (4, 4): "ijkl,klmn->ijmn",
}
DDDOT = {(3, 3): "ijk,ijk->"}


def ref_einsum(spec, *arrs):
    """brute-force index formula; tensor axes first, trailing batch axes broadcast"""
    lhs, out = spec.split("->")
    ins = lhs.split(",")
    bshapes = [a.shape[len(s):] for s, a in zip(ins, arrs)]
    bshape = np.broadcast_shapes(*bshapes)
    dims = {}
    for s, a in zip(ins, arrs):
        for c, n in zip(s, a.shape):
            dims[c] = n
    letters = sorted(dims)
    summed = [c for c in letters if c not in out]
    res = np.empty(tuple(dims[c] for c in out) + tuple(bshape), dtype=object)
    for oi in np.ndindex(*[dims[c] for c in out]):
        env = dict(zip(out, oi))
        for bi in np.ndindex(*bshape):
            acc = ZERO
            for si in itertools.product(*[range(dims[c]) for c in summed]):
                env.update(zip(summed, si))
                term = ONE
                for s, a, bs in zip(ins, arrs, bshapes):
                    # broadcast batch index
                    off = len(bshape) - len(bs)
                    bidx = tuple(0 if bs[k] == 1 else bi[off + k] for k in range(len(bs)))
                    term = term * a[tuple(env[c] for c in s) + bidx]
                    if not term.t:
                        break
                acc = acc + term
            res[oi + bi] = acc
    return res


def leibniz(A):
    n = A.shape[0]
    res = ZERO
    for perm in itertools.permutations(range(n)):
        sgn = 1
        for i in range(n):
            for j in range(i + 1, n):
                if perm[i] > perm[j]:
                    sgn = -sgn
        t = P(sgn)
        for i in range(n):
            t = t * A[i, perm[i]]
        res = res + t
    return res


def cofactor(A, i, j):
    n = A.shape[0]
    if n == 1:
        return ONE
    M = np.delete(np.delete(A, i, axis=0), j, axis=1)
    d = leibniz(M)
    return d if (i + j) % 2 == 0 else -d


def differs(X, Y):
    """entries where two arrays differ identically; shapes must match"""
    if not isinstance(X, np.ndarray):
        X = np.asarray(X, dtype=object).reshape(()) if isinstance(X, Poly) else npmodel.asarray(X)
    if not isinstance(Y, np.ndarray):
        Y = np.asarray(Y, dtype=object).reshape(()) if isinstance(Y, Poly) else npmodel.asarray(Y)
    X = npmodel.to_obj(X)
    Y = npmodel.to_obj(Y)
    if X.shape != Y.shape:
        return ["shape %s vs %s" % (X.shape, Y.shape)]
    bad = []
    for idx in np.ndindex(X.shape):
        if not is_zero(P(X[idx]) - P(Y[idx])):
            bad.append("%s: got %s want %s" % (list(idx), ring.fmt(X[idx], 5), ring.fmt(Y[idx], 5)))
            if len(bad) > 4:
                break
    return bad


BATCHES = [((2,), (2,)), ((2, 1), (1, 2)), ((1,), (2,))]


def T(name, tshape, bshape):
    return symarray(name, tuple(tshape) + tuple(bshape))


def tasks(tier):
    ts = [("discovery", "run_discovery", {})]
    for grp in ("detinv", "products", "unary", "eig", "solve", "spatial", "field"):
        ts.append((grp, "run_group", dict(group=grp, tier=tier)))
    return ts


def run_discovery(col):
    it = new_interp()
    names = []
    for mn in MODS:
        for f in functions_in(it, mn):
            if not f.qualname.startswith("_"):
                names.append("%s.%s" % (mn.split(".")[-1], f.qualname))
    col.info["math_functions"] = names
    missing = [n for n in names if n.split(".")[1] not in COVERED]
    col.info["math_functions_covered"] = [n for n in names if n.split(".")[1] in COVERED]
    if missing:
        col.undecided("C17.discovery", ",".join(missing), "every public math function has a reference definition in the checker",
                      "functions without a reference definition: %s" % missing)
    else:
        col.add("C17.discovery", "felupe.math", "every public math function has a reference definition in the checker", True,
                "%d functions" % len(names), nontrivial=False)
    finish_info(col, it)


COVERED = set(
    "identity sym dya inv det dev cof eig eigh eigvals eigvalsh transpose majortranspose trace cdya_ik cdya_il cdya cross dot "
    "ddot dddot tovoigt reshape ravel equivalent_von_mises inplane solve_nd solve_2d rotation_matrix linsteps displacement "
    "deformation_gradient right_cauchy_green_deformation strain_stretch_1d strain extract values norm interpolate grad hess".split()
)


class Ctx:
    def __init__(self, col):
        self.col = col
        self.it = new_interp()
        self.m = self.it.module("felupe.math._tensor")

    def f(self, name, mod="_tensor"):
        return self.it.get("felupe.math.%s:%s" % (mod, name))

    def call(self, name, *args, mod="_tensor", **kw):
        return self.it.call(self.f(name, mod), list(args), kw)

    def ob(self, oid, construct, rule, fn):
        self.col.check(oid, construct, rule, fn)


def unchanged(saved, *arrs):
    for s, a in zip(saved, arrs):
        if differs(a, s):
            return False
    return True


def run_group(col, group, tier):
    cx = Ctx(col)
    globals()["grp_" + group](cx, tier)
    finish_info(col, cx.it)


# ------------------------------------------------------------------------------------------
def grp_detinv(cx, tier):
    for n in (1, 2, 3):
        for bs in ((2,), (2, 1)):
            tag = "shape=(%d,%d)+%s" % (n, n, bs)
            A = T("A", (n, n), bs)
            A0 = A.copy()
            refdet = np.empty(bs, dtype=object)
            for bi in np.ndindex(*bs):
                refdet[bi] = leibniz(A[(slice(None), slice(None)) + bi])
            refadj = np.empty((n, n) + bs, dtype=object)  # adj[i,j] = cofactor(j,i)
            for bi in np.ndindex(*bs):
                Ab = A[(slice(None), slice(None)) + bi]
                for i in range(n):
                    for j in range(n):
                        refadj[(i, j) + bi] = cofactor(Ab, j, i)

            def c_det(out=None):
                r = cx.call("det", A) if out is None else cx.call("det", A, out=out)
                bad = differs(r, refdet)
                if out is not None and r is not out:
                    bad.append("result is not the supplied buffer")
                if not unchanged([A0], A):
                    bad.append("input modified")
                return not bad, "; ".join(bad)

            cx.ob("C17.O1", "det %s" % tag, "det == Leibniz determinant per batch item; input unchanged", c_det)
            dirty = symarray("DIRTY", bs)
            cx.ob("C17.O1", "det out=dirty %s" % tag, "det with a reused (dirty) out buffer gives the same values, in that buffer",
                  lambda: c_det(out=dirty))

            def c_inv(**kw):
                symm = kw.get("sym", False)
                AA = A
                if symm:
                    AA = A.copy()
                    for i in range(n):
                        for j in range(i):
                            AA[i, j] = AA[j, i]
                AA0 = AA.copy()
                rd = np.empty(bs, dtype=object)
                radj = np.empty((n, n) + bs, dtype=object)
                for bi in np.ndindex(*bs):
                    Ab = AA[(slice(None), slice(None)) + bi]
                    rd[bi] = leibniz(Ab)
                    for i in range(n):
                        for j in range(n):
                            radj[(i, j) + bi] = cofactor(Ab, j, i)
                det_given = kw.get("determinant")
                r = cx.call("inv", AA, **kw)
                bad = []
                if kw.get("full_output"):
                    r, d = r
                    bad += ["det: " + b for b in differs(d, rd if det_given is None else det_given)]
                dd = rd if det_given is None else det_given
                want = np.empty((n, n) + bs, dtype=object)
                for idx in np.ndindex(*want.shape):
                    want[idx] = radj[idx] * ring.inv(dd[idx[2:]])
                bad += differs(r, want)
                if kw.get("out") is not None and r is not kw["out"]:
                    bad.append("result is not the supplied buffer")
                if not unchanged([AA0], AA):
                    bad.append("input modified")
                return not bad, "; ".join(bad[:4])

            cx.ob("C17.O1", "inv %s" % tag, "inv == adjugate / det per batch item; input unchanged", c_inv)
            cx.ob("C17.O1", "inv full_output %s" % tag, "inv(full_output=True) returns (inverse, determinant)", lambda: c_inv(full_output=True))
            cx.ob("C17.O1", "inv sym=True %s" % tag, "symmetric shortcut equals the inverse on symmetric input", lambda: c_inv(sym=True))
            dsup = symarray("dsup", bs)
            cx.ob("C17.O1", "inv determinant= %s" % tag, "supplied determinant is used as the divisor", lambda: c_inv(determinant=dsup))
            cx.ob("C17.O1", "inv out=dirty %s" % tag, "inv with reused (dirty) out buffer gives the same values",
                  lambda: c_inv(out=symarray("DIRTY2", (n, n) + bs)))

            def c_cof(**kw):
                AA = A
                if kw.get("sym"):
                    AA = A.copy()
                    for i in range(n):
                        for j in range(i):
                            AA[i, j] = AA[j, i]
                AA0 = AA.copy()
                r = cx.call("cof", AA, **kw)
                want = np.empty((n, n) + bs, dtype=object)
                for bi in np.ndindex(*bs):
                    Ab = AA[(slice(None), slice(None)) + bi]
                    for i in range(n):
                        for j in range(n):
                            want[(i, j) + bi] = cofactor(Ab, i, j)
                bad = differs(r, want)
                if not unchanged([AA0], AA):
                    bad.append("input modified")
                return not bad, "; ".join(bad[:4])

            cx.ob("C17.O1", "cof %s" % tag, "cof[i,j] == cofactor C_ij (= det * inv^T)", c_cof)
            cx.ob("C17.O1", "cof sym=True %s" % tag, "symmetric shortcut of cof on symmetric input", lambda: c_cof(sym=True))
            cx.ob("C17.O1", "cof out=dirty %s" % tag, "cof with reused out buffer", lambda: c_cof(out=symarray("DIRTY3", (n, n) + bs)))
    # wrong shapes raise
    def c_raise():
        try:
            cx.call("det", T("A", (4, 4), (2,)))
        except InterpRaise as e:
            return isinstance(e.exc, ValueError), str(e)
        return False, "no exception for a 4x4 input"
    cx.ob("C17.O1", "det shape=(4,4)", "unsupported leading shape raises instead of returning a value", c_raise)


def _product_case(cx, fname, table, mode, dims, bsA, bsB, parallel, out):
    spec = table[mode]
    sa, sb = spec.split("->")[0].split(",")
    A = T("A", (dims,) * len(sa), bsA)
    B = T("B", (dims,) * len(sb), bsB)
    A0, B0 = A.copy(), B.copy()
    want = ref_einsum(spec, A, B)
    kw = dict(mode=mode)
    if parallel:
        kw["parallel"] = True
    before = npmodel.EINSUMT_USED[0]
    if out:
        kw["out"] = symarray("DIRTY", want.shape)
    r = cx.call(fname, A, B, **kw)
    bad = differs(r, want)
    if out and r is not kw["out"]:
        bad.append("result is not the supplied buffer")
    if parallel and npmodel.EINSUMT_USED[0] == before:
        bad.append("parallel=True did not select einsumt")
    if not parallel and npmodel.EINSUMT_USED[0] != before:
        bad.append("parallel=False selected einsumt")
    if not unchanged([A0, B0], A, B):
        bad.append("input modified")
    return not bad, "; ".join(bad[:4])


def grp_products(cx, tier):
    for fname, table in (("dot", DOT), ("ddot", DDOT), ("dddot", DDDOT)):
        for mode in table:
            big = sum(len(s) for s in table[mode].replace("->", ",").split(",")) > 9
            for dims in ((2, 3) if not big else (2,)):
                for k, (bsA, bsB) in enumerate(BATCHES):
                    if big and k > 0 and tier == "quick":
                        continue
                    for parallel in (False, True):
                        for out in (False, True):
                            if out and (parallel or k > 0):
                                continue
                            cx.ob("C17.O2", "%s mode=%s dim=%d batch=%s/%s parallel=%s out=%s" % (fname, mode, dims, bsA, bsB, parallel, out),
                                  "result == index formula %s for every batch item" % table[mode],
                                  lambda fname=fname, table=table, mode=mode, dims=dims, bsA=bsA, bsB=bsB, parallel=parallel, out=out:
                                  _product_case(cx, fname, table, mode, dims, bsA, bsB, parallel, out))
        # unknown mode raises
        def c_unknown(fname=fname):
            try:
                cx.call(fname, T("A", (2, 2), (2,)), T("B", (2, 2), (2,)), mode=(7, 7))
            except InterpRaise as e:
                return isinstance(e.exc, TypeError), str(e)
            return False, "no exception"
        cx.ob("C17.O2", "%s mode=(7,7)" % fname, "an unknown mode raises", c_unknown)
    # dyadic products
    for dims in (2, 3):
        for bsA, bsB in BATCHES:
            A = T("A", (dims, dims), bsA)
            B = T("B", (dims, dims), bsB)
            a = T("a", (dims,), bsA)
            b = T("b", (dims,), bsB)
            tag = "dim=%d batch=%s/%s" % (dims, bsA, bsB)
            cx.ob("C17.O2", "dya mode=2 %s" % tag, "dya[i,j,k,l] == A[i,j] B[k,l]",
                  lambda A=A, B=B: (lambda bad: (not bad, "; ".join(bad)))(differs(cx.call("dya", A, B), ref_einsum("ij,kl->ijkl", A, B))))
            cx.ob("C17.O2", "dya mode=1 %s" % tag, "dya[i,j] == a[i] b[j]",
                  lambda a=a, b=b: (lambda bad: (not bad, "; ".join(bad)))(differs(cx.call("dya", a, b, mode=1), ref_einsum("i,j->ij", a, b))))
            for parallel in (False, True):
                def c(name, spec, A=A, B=B, parallel=parallel, half=False):
                    before = npmodel.EINSUMT_USED[0]
                    A0, B0 = A.copy(), B.copy()
                    r = cx.call(name, A, B, parallel=parallel)
                    if half:
                        want = (ref_einsum("ik,jl->ijkl", A, B) + ref_einsum("il,kj->ijkl", A, B)) * Fraction(1, 2)
                    else:
                        want = ref_einsum(spec, A, B)
                    bad = differs(r, want)
                    if parallel != (npmodel.EINSUMT_USED[0] != before):
                        bad.append("parallel flag / einsumt selection mismatch")
                    if not unchanged([A0, B0], A, B):
                        bad.append("input modified")
                    return not bad, "; ".join(bad[:4])
                cx.ob("C17.O2", "cdya_ik %s parallel=%s" % (tag, parallel), "cdya_ik[i,j,k,l] == A[i,k] B[j,l]", lambda c=c: c("cdya_ik", "ik,jl->ijkl"))
                cx.ob("C17.O2", "cdya_il %s parallel=%s" % (tag, parallel), "cdya_il[i,j,k,l] == A[i,l] B[k,j]", lambda c=c: c("cdya_il", "il,kj->ijkl"))
                cx.ob("C17.O2", "cdya %s parallel=%s" % (tag, parallel), "cdya == (cdya_ik + cdya_il)/2", lambda c=c: c("cdya", None, half=True))
            def c_out(A=A, B=B):
                buf = symarray("DIRTY", (dims,) * 4 + tuple(np.broadcast_shapes(bsA, bsB)))
                r = cx.call("cdya", A, B, out=buf)
                want = (ref_einsum("ik,jl->ijkl", A, B) + ref_einsum("il,kj->ijkl", A, B)) * Fraction(1, 2)
                bad = differs(r, want)
                if r is not buf:
                    bad.append("result is not the supplied buffer")
                return not bad, "; ".join(bad[:4])
            cx.ob("C17.O2", "cdya out=dirty %s" % tag, "cdya with reused out buffer", c_out)
            # cross
            if dims == 3:
                def c_cross(a=a, b=b):
                    r = cx.call("cross", a, b)
                    bs = np.broadcast_shapes(bsA, bsB)
                    aa = np.broadcast_to(a, (3,) + tuple(bs))
                    bb = np.broadcast_to(b, (3,) + tuple(bs))
                    want = np.empty((3,) + tuple(bs), dtype=object)
                    for i, (j, k) in enumerate(((1, 2), (2, 0), (0, 1))):
                        want[i] = aa[j] * bb[k] - aa[k] * bb[j]
                    bad = differs(r, want)
                    return not bad, "; ".join(bad)
                cx.ob("C17.O2", "cross %s" % tag, "cross[i] == eps_ijk a_j b_k along the first axis", c_cross)
            # inplane
            def c_inplane(A=A):
                v = T("v", (dims - 1, dims), bsA) if dims > 1 else None
                r = cx.call("inplane", A, v)
                want = ref_einsum("ij,ai,bj->ab", A, v, v) if False else None
                # brute force by hand (three operands)
                bs = A.shape[2:]
                want = np.empty((dims - 1, dims - 1) + bs, dtype=object)
                for a_ in range(dims - 1):
                    for b_ in range(dims - 1):
                        for bi in np.ndindex(*bs):
                            acc = ZERO
                            for i in range(dims):
                                for j in range(dims):
                                    acc = acc + A[(i, j) + bi] * v[(a_, i) + bi] * v[(b_, j) + bi]
                            want[(a_, b_) + bi] = acc
                bad = differs(r, want)
                return not bad, "; ".join(bad)
            if bsA == bsB:
                cx.ob("C17.O2", "inplane %s" % tag, "inplane[a,b] == A[i,j] v[a,i] v[b,j]", c_inplane)


def grp_unary(cx, tier):
    for dims in (1, 2, 3):
        for bs in ((2,), (2, 1), (1,)):
            A = T("A", (dims, dims), bs)
            tag = "dim=%d batch=%s" % (dims, bs)
            A0 = A.copy()

            def wrap(fn):
                def g():
                    bad = fn()
                    if not unchanged([A0], A):
                        bad = list(bad) + ["input modified"]
                    return not bad, "; ".join(bad[:4])
                return g

            cx.ob("C17.O2", "transpose %s" % tag, "transpose[i,j] == A[j,i]", wrap(lambda: differs(cx.call("transpose", A), ref_einsum("ij->ji", A))))
            cx.ob("C17.O2", "trace %s" % tag, "trace == sum_i A[i,i]", wrap(lambda: differs(cx.call("trace", A), ref_einsum("ii->", A))))
            cx.ob("C17.O2", "trace out= %s" % tag, "trace into a reused buffer",
                  wrap(lambda: differs(cx.call("trace", A, out=symarray("DIRTY", bs)), ref_einsum("ii->", A))))

            def ident():
                want = np.empty((dims, dims) + (1,) * len(bs), dtype=object)
                for i in range(dims):
                    for j in range(dims):
                        want[(i, j) + (0,) * len(bs)] = ONE if i == j else ZERO
                return want

            cx.ob("C17.O2", "identity %s" % tag, "identity(A) == Kronecker delta with size-one batch axes",
                  wrap(lambda: differs(cx.call("identity", A), ident())))

            def c_dev(**kw):
                tr = ref_einsum("ii->", A)
                want = A.copy()
                for i in range(dims):
                    want[i, i] = want[i, i] - tr * Fraction(1, dims)
                return differs(cx.call("dev", A, **kw), want)

            cx.ob("C17.O2", "dev %s" % tag, "dev == A - trace(A)/dim * 1", wrap(c_dev))
            cx.ob("C17.O2", "dev out= %s" % tag, "dev into a reused buffer", wrap(lambda: c_dev(out=symarray("DIRTY", (dims, dims) + bs))))

            def c_sym(**kw):
                want = (A + ref_einsum("ij->ji", A)) * Fraction(1, 2)
                return differs(cx.call("sym", A, **kw), want)

            cx.ob("C17.O2", "sym %s" % tag, "sym == (A + A^T)/2", wrap(c_sym))
            cx.ob("C17.O2", "sym out= %s" % tag, "sym into a reused buffer", wrap(lambda: c_sym(out=symarray("DIRTY", (dims, dims) + bs))))

            def c_sym_inplace():
                # the library symmetrises gradients in place: symmetric(g, out=g)
                want = (A + ref_einsum("ij->ji", A)) * Fraction(1, 2)
                A2 = A.copy()
                return differs(cx.call("sym", A2, out=A2), want)

            cx.ob("C17.O2", "sym in place %s" % tag, "sym(A, out=A) (the output buffer is the input itself, as Field.grad(sym=True) calls it) == (A + A^T)/2", wrap(c_sym_inplace))

            def c_dev_inplace():
                tr = ref_einsum("ii->", A)
                want = A.copy()
                for i in range(dims):
                    want[i, i] = want[i, i] - tr * Fraction(1, dims)
                A2 = A.copy()
                return differs(cx.call("dev", A2, out=A2), want)

            cx.ob("C17.O2", "dev in place %s" % tag, "dev(A, out=A) == A - trace(A)/dim * 1", wrap(c_dev_inplace))
            for strain in (False, True):
                def c_voigt(strain=strain):
                    ij = {1: [(0, 0)], 2: [(0, 0), (1, 1), (0, 1)], 3: [(0, 0), (1, 1), (2, 2), (0, 1), (1, 2), (0, 2)]}[dims]
                    want = np.empty((len(ij),) + bs, dtype=object)
                    for a, (i, j) in enumerate(ij):
                        want[a] = A[i, j] * (2 if (strain and i != j) else 1)
                    return differs(cx.call("tovoigt", A, strain=strain), want)
                cx.ob("C17.O2", "tovoigt strain=%s %s" % (strain, tag), "Voigt order 11,22,33,12,23,13 (shear doubled for strain)", wrap(c_voigt))
            if dims in (2, 3):
                def c_vm():
                    pad = np.empty((3, 3) + bs, dtype=object)
                    pad[...] = ZERO
                    pad[:dims, :dims] = A
                    tr = ref_einsum("ii->", pad)
                    d = pad.copy()
                    for i in range(3):
                        d[i, i] = d[i, i] - tr * Fraction(1, 3)
                    want2 = ref_einsum("ij,ij->", d, d) * Fraction(3, 2)
                    r = cx.call("equivalent_von_mises", A)
                    bad = differs(r * r, want2)
                    # and r must be the principal root atom of that argument (not e.g. its negative)
                    bad += differs(r, npmodel.sqrt(want2))
                    return bad
                cx.ob("C17.O3", "equivalent_von_mises %s" % tag, "value == sqrt(3/2 dev:dev) of the input padded to 3x3", wrap(c_vm))
        # 4th order
        for bs in ((2, 3), (1, 2)):
            A4 = T("A", (dims,) * 4, bs)
            tag = "dim=%d batch=%s" % (dims, bs)
            cx.ob("C17.O2", "transpose mode=2 %s" % tag, "transpose(mode=2)[i,j,k,l] == A[k,l,i,j]",
                  lambda A4=A4: (lambda bad: (not bad, "; ".join(bad)))(differs(cx.call("transpose", A4, mode=2), ref_einsum("ijkl->klij", A4))))
            cx.ob("C17.O2", "majortranspose %s" % tag, "majortranspose[i,j,k,l] == A[k,l,i,j]",
                  lambda A4=A4: (lambda bad: (not bad, "; ".join(bad)))(differs(cx.call("majortranspose", A4), ref_einsum("ijkl->klij", A4))))

            def c_ravel(A4=A4):
                r = cx.call("ravel", A4)
                want = A4.reshape((dims ** 4,) + bs)
                bad = differs(r, want)
                r2 = cx.call("reshape", r, (dims, dims, dims, dims))
                bad += differs(r2, A4)
                return not bad, "; ".join(bad)
            cx.ob("C17.O2", "ravel/reshape %s" % tag, "ravel flattens the tensor axes row-major keeping the two trailing axes (the documented default); reshape inverts it", c_ravel)
    def c_unknown():
        try:
            cx.call("transpose", T("A", (2, 2), (2,)), mode=3)
        except InterpRaise as e:
            return isinstance(e.exc, ValueError), str(e)
        return False, "no exception"
    cx.ob("C17.O2", "transpose mode=3", "an unknown mode raises", c_unknown)
    def c_dya_unknown():
        try:
            cx.call("dya", T("A", (2, 2), (2,)), T("B", (2, 2), (2,)), mode=3)
        except InterpRaise as e:
            return isinstance(e.exc, ValueError), str(e)
        return False, "no exception"
    cx.ob("C17.O2", "dya mode=3", "an unknown mode raises", c_dya_unknown)


def _match_batches(A, call_in, nt=2):
    """map every batch index of the array handed to the opaque routine to the batch index of A whose
    matrix (or its transpose) it is; returns dict or error string"""
    bs_call = call_in.shape[:-nt]
    mapping = {}
    for beta in np.ndindex(*bs_call):
        M = call_in[beta]
        hit = None
        for b in np.ndindex(*A.shape[nt:]):
            Ab = A[(slice(None),) * nt + b]
            if not differs(M, Ab):
                hit = (b, False)
                break
            if not differs(M, Ab.T):
                hit = (b, True)
                break
        if hit is None:
            return "matrix handed to the solver for batch %s is not a batch item of the input" % (beta,)
        mapping[beta] = hit
    if len({v[0] for v in mapping.values()}) != int(np.prod(A.shape[nt:])):
        return "not every batch item is handed to the solver exactly once"
    return mapping


def grp_eig(cx, tier):
    for dims in (2, 3):
        for bs in ((2,), (2, 3)):
            tag = "dim=%d batch=%s" % (dims, bs)
            for fname, vec, symm in (("eig", True, False), ("eigh", True, True), ("eigvals", False, False), ("eigvalsh", False, True)):
                def c(fname=fname, vec=vec, symm=symm, shear=False):
                    A = T("A", (dims, dims), bs)
                    if symm:
                        for i in range(dims):
                            for j in range(i):
                                A[i, j] = A[j, i]
                    A0 = A.copy()
                    del npmodel.OPAQUE_CALLS[:]
                    kw = {"shear": True} if shear else {}
                    r = cx.call(fname, A, **kw)
                    calls = list(npmodel.OPAQUE_CALLS)
                    if len(calls) != 1:
                        return False, "expected exactly one numpy.linalg call, saw %d" % len(calls)
                    cname, cin, _, _ = calls[0]
                    want_name = {"eig": "eig", "eigh": "eigh", "eigvals": "eigvals", "eigvalsh": "eigvalsh"}[fname]
                    bad = []
                    if cname != want_name:
                        bad.append("numpy routine %s used, expected %s" % (cname, want_name))
                    mp = _match_batches(A, cin)
                    if isinstance(mp, str):
                        return False, mp
                    if any(tr for _, tr in mp.values()) and (vec or not True):
                        bad.append("transposed matrix handed to an eigenvector routine")
                    w = r[0] if vec else r
                    V = r[1] if vec else None
                    for beta, (b, tr) in mp.items():
                        serial = 0
                        tagname = "%s%d[%s]" % (cname, serial, ",".join(map(str, beta)))
                        for a in range(dims):
                            if not is_zero(P(w[(a,) + b]) - sym("%s.w%d" % (tagname, a))):
                                bad.append("eigenvalue %d of batch %s not at [a, batch]" % (a, b))
                            if vec:
                                for i in range(dims):
                                    if not is_zero(P(V[(i, a) + b]) - sym("%s.v%d%d" % (tagname, i, a))):
                                        bad.append("eigenvector component [%d,%d] of batch %s misplaced" % (i, a, b))
                        if shear:
                            ij = [(1, 0), (2, 0), (2, 1)] if dims == 3 else [(1, 0)]
                            for k, (i, j) in enumerate(ij):
                                want = sym("%s.w%d" % (tagname, i)) - sym("%s.w%d" % (tagname, j))
                                if not is_zero(P(w[(dims + k,) + b]) - want):
                                    bad.append("shear difference %d of batch %s" % (k, b))
                    exp_rows = dims + ({3: 3, 2: 1}[dims] if shear else 0)
                    if w.shape != (exp_rows,) + bs:
                        bad.append("eigenvalue array shape %s" % (w.shape,))
                    if not unchanged([A0], A):
                        bad.append("input modified")
                    return not bad, "; ".join(bad[:4])
                cx.ob("C17.O4", "%s %s" % (fname, tag), "axis moves around the numpy routine are mutually inverse: batch item b is solved and lands at [..., b]", c)
                if not vec:
                    cx.ob("C17.O4", "%s shear=True %s" % (fname, tag), "shear=True appends the differences w1-w0, w2-w0, w2-w1", lambda c=c: c(shear=True))


def grp_solve(cx, tier):
    for n, fname in ((1, "solve_nd"), (2, "solve_2d"), (2, "solve_nd")):
        for dims in (2, 3):
            for bs in ((2,), (2, 2)):
                if n == 2 and dims == 3 and bs == (2, 2) and tier == "quick":
                    continue
                def c(n=n, fname=fname, dims=dims, bs=bs):
                    A = T("A", (dims,) * (2 * n), bs)
                    b = T("b", (dims,) * n, bs)
                    A0, b0 = A.copy(), b.copy()
                    rec = {}

                    def solver(A1, b1, **kw):
                        rec["A"], rec["b"] = A1.copy(), b1.copy()
                        X = np.empty(b1.shape, dtype=object)
                        for idx in np.ndindex(*b1.shape):
                            X[idx] = sym("X[%s]" % ",".join(map(str, idx)))
                        return X

                    kw = dict(solve=solver)
                    if fname == "solve_nd":
                        kw["n"] = n
                    r = cx.call(fname, A, b, mod="_solve", **kw)
                    bad = []
                    size = dims ** n
                    nb = len(bs)
                    if rec["A"].shape[-2:] != (size, size) or rec["b"].shape[-2:] != (size, 1):
                        return False, "solver received shapes %s, %s" % (rec["A"].shape, rec["b"].shape)
                    # flatten reference row-major over tensor axes
                    for beta in np.ndindex(*rec["A"].shape[:-2]):
                        # the flattened trailing axis enumerates the batch row-major
                        flat = beta[0]
                        bi = np.unravel_index(flat, bs)
                        for I, ij in enumerate(np.ndindex(*(dims,) * n)):
                            if not is_zero(P(rec["b"][beta + (I, 0)]) - b[ij + tuple(bi)]):
                                bad.append("rhs row %d of batch %s" % (I, bi))
                            for J, kl in enumerate(np.ndindex(*(dims,) * n)):
                                if not is_zero(P(rec["A"][beta + (I, J)]) - A[ij + kl + tuple(bi)]):
                                    bad.append("matrix entry (%d,%d) of batch %s" % (I, J, bi))
                            if not is_zero(P(r[ij + tuple(bi)]) - sym("X[%s]" % ",".join(map(str, beta + (I, 0))))):
                                bad.append("solution row %d of batch %s misplaced" % (I, bi))
                        if len(bad) > 4:
                            break
                    if r.shape != (dims,) * n + bs:
                        bad.append("result shape %s" % (r.shape,))
                    if not unchanged([A0, b0], A, b):
                        bad.append("input modified")
                    return not bad, "; ".join(bad[:4])
                cx.ob("C17.O5", "%s n=%d dim=%d batch=%s" % (fname, n, dims, bs),
                      "the solver receives A flattened row-major over (i..)x(k..) and b over (i..) per batch item; result un-flattened the same way", c)


def rodrigues(c, s, axis, dim):
    if dim == 2:
        return np.array([[c, -s], [s, c]], dtype=object)
    n = [ZERO, ZERO, ZERO]
    n[axis] = ONE
    K = np.array([[ZERO, -n[2], n[1]], [n[2], ZERO, -n[0]], [-n[1], n[0], ZERO]], dtype=object)
    R = np.empty((3, 3), dtype=object)
    for i in range(3):
        for j in range(3):
            R[i, j] = (c if i == j else ZERO) + s * K[i, j] + (ONE - c) * n[i] * n[j]
    return R


def grp_spatial(cx, tier):
    alpha = sym("alpha_deg")
    # in two dimensions there is one rotation (about the plane's normal): whatever `axis` is handed over (Mesh.rotate requires one)
    # an axis counted from the end (-1: the last axis) is the other spelling of the same axis
    for dim, axis in ((2, 0), (2, 1), (2, 2), (3, 0), (3, 1), (3, 2), (3, -1), (3, -2), (3, -3)):
        def c(dim=dim, axis=axis):
            R = cx.call("rotation_matrix", alpha, dim=dim, axis=axis, mod="_spatial")
            a = alpha * ring.pi() / 180
            cs, sn = npmodel.cos(a), npmodel.sin(a)
            want = rodrigues(cs, sn, axis % 3, dim)
            bad = differs(R, want)
            RtR = ref_einsum("ki,kj->ij", R, R)
            I = np.array([[ONE if i == j else ZERO for j in range(dim)] for i in range(dim)], dtype=object)
            bad += ["R^T R: " + b for b in differs(RtR, I)]
            d = leibniz(R)
            if not is_zero(d - ONE):
                bad.append("det R = %s" % d)
            return not bad, "; ".join(bad[:4])
        cx.ob("C17.O6", "rotation_matrix dim=%d axis=%d" % (dim, axis),
              "equals the Rodrigues rotation about the axis by alpha (right-handed), hence orthogonal with det 1, for symbolic alpha", c)
    for deg, want in ((90, [[0, -1], [1, 0]]), (180, [[-1, 0], [0, -1]]), (0, [[1, 0], [0, 1]])):
        cx.ob("C17.O6", "rotation_matrix alpha=%d dim=2" % deg, "exact values at multiples of 90 degrees",
              lambda deg=deg, want=want: (lambda bad: (not bad, "; ".join(bad)))(differs(cx.call("rotation_matrix", deg, dim=2, mod="_spatial"), npmodel.to_obj(np.array(want)))))
    # strain_stretch_1d
    lam = symarray("lam", (3, 2), positive=True)
    def c_k0():
        r = cx.call("strain_stretch_1d", lam, k=0, mod="_field")
        return (lambda bad: (not bad, "; ".join(bad)))(differs(r, npmodel.log(lam)))
    cx.ob("C17.O6", "strain_stretch_1d k=0", "log(lambda) for k=0", c_k0)
    for k in (2, -2, 1, Fraction(1, 2), -1):
        def c_k(k=k):
            r = cx.call("strain_stretch_1d", lam, k=k, mod="_field")
            want = np.empty(lam.shape, dtype=object)
            for idx in np.ndindex(*lam.shape):
                want[idx] = (ring.power(lam[idx], k) - ONE) * ring.inv(P(k))
            return (lambda bad: (not bad, "; ".join(bad)))(differs(r, want))
        cx.ob("C17.O6", "strain_stretch_1d k=%s" % k, "(lambda^k - 1)/k for k != 0", c_k)
    # strain: spectral assembly
    for asvoigt in (False, True):
        for k in (0, 2):
            def c_strain(asvoigt=asvoigt, k=k):
                bs = (2,)
                C = T("C", (3, 3), bs)
                for i in range(3):
                    for j in range(i):
                        C[i, j] = C[j, i]
                del npmodel.OPAQUE_CALLS[:]
                r = cx.call("strain", None, C=C, tensor=True, asvoigt=asvoigt, k=k, mod="_field")
                calls = list(npmodel.OPAQUE_CALLS)
                if len(calls) != 1 or calls[0][0] != "eigh":
                    return False, "expected one eigh call, saw %s" % [c_[0] for c_ in calls]
                mp = _match_batches(C, calls[0][1])
                if isinstance(mp, str):
                    return False, mp
                want = np.empty((3, 3) + bs, dtype=object)
                for beta, (b, tr) in mp.items():
                    tagname = "eigh0[%s]" % ",".join(map(str, beta))
                    for i in range(3):
                        for j in range(3):
                            acc = ZERO
                            for a in range(3):
                                w = sym("%s.w%d" % (tagname, a))
                                st = ring.power(w, Fraction(1, 2))
                                f = ring.fun_atom("Log", st) if k == 0 else (ring.power(st, k) - ONE) * ring.inv(P(k))
                                acc = acc + f * sym("%s.v%d%d" % (tagname, i, a)) * sym("%s.v%d%d" % (tagname, j, a))
                            want[(i, j) + b] = acc
                if asvoigt:
                    ij = [(0, 0), (1, 1), (2, 2), (0, 1), (1, 2), (0, 2)]
                    w6 = np.empty((6,) + bs, dtype=object)
                    for a, (i, j) in enumerate(ij):
                        w6[a] = want[i, j] * (2 if i != j else 1)
                    want = w6
                bad = differs(r, want)
                return not bad, "; ".join(bad[:3])
            cx.ob("C17.O6", "strain tensor=True asvoigt=%s k=%d" % (asvoigt, k), "spectral sum f(lambda_a) N_a (x) N_a with lambda = sqrt(eigenvalue of C); Voigt with doubled shear", c_strain)
    def c_strain_principal():
        C = T("C", (3, 3), (2,))
        for i in range(3):
            for j in range(i):
                C[i, j] = C[j, i]
        del npmodel.OPAQUE_CALLS[:]
        r = cx.call("strain", None, C=C, tensor=False, k=2, mod="_field")
        calls = list(npmodel.OPAQUE_CALLS)
        if len(calls) != 1 or calls[0][0] != "eigvalsh":
            return False, "expected one eigvalsh call"
        mp = _match_batches(C, calls[0][1])
        if isinstance(mp, str):
            return False, mp
        bad = []
        for beta, (b, tr) in mp.items():
            tagname = "eigvalsh0[%s]" % ",".join(map(str, beta))
            for a in range(3):
                w = sym("%s.w%d" % (tagname, a))
                want = (w - ONE) * Fraction(1, 2)
                if not is_zero(P(r[(a,) + b]) - want):
                    bad.append("principal strain %d of batch %s" % (a, b))
        return not bad, "; ".join(bad)
    cx.ob("C17.O6", "strain tensor=False k=2", "principal strains (lambda^2-1)/2 per batch item", c_strain_principal)
    # linsteps
    def c_lin(points, num, want, **kw):
        def g():
            r = cx.call("linsteps", points, num=num, mod="_math", **kw)
            return (lambda bad: (not bad, "; ".join(bad)))(differs(r, npmodel.array(want, dtype=npmodel.DType("float"))))
        return g
    F = Fraction
    cx.ob("C17.O6", "linsteps [0,1,3] num=2", "segment-wise linspace without end points, last point appended", c_lin([0, 1, 3], 2, [0, F(1, 2), 1, 2, 3]))
    cx.ob("C17.O6", "linsteps [0,1,3] num=[2,4]", "per-segment numbers of steps", c_lin([0, 1, 3], [2, 4], [0, F(1, 2), 1, F(3, 2), 2, F(5, 2), 3]))
    cx.ob("C17.O6", "linsteps [0,1,3,4] num=[2,4] (short)", "a num sequence shorter than the number of segments is continued with its last entry",
          c_lin([0, 1, 3, 4], [2, 4], [0, F(1, 2), 1, F(3, 2), 2, F(5, 2), 3, F(13, 4), F(7, 2), F(15, 4), 4]))
    # segments with zero samples (the docstring example num=0 keeps the end point only; a zero in a num sequence skips that segment)
    cx.ob("C17.O6", "linsteps [0,1/2,3/2,7/2] num=0", "no samples per segment: only the end point remains", c_lin([0, F(1, 2), F(3, 2), F(7, 2)], 0, [F(7, 2)]))
    cx.ob("C17.O6", "linsteps [0,1,2] num=[4,0]", "a zero count for the last segment: its samples are skipped, the end point is still the last milestone", c_lin([0, 1, 2], [4, 0], [0, F(1, 4), F(1, 2), F(3, 4), 2]))
    cx.ob("C17.O6", "linsteps [0,1,2] num=[0,2]", "a zero count for the first segment", c_lin([0, 1, 2], [0, 2], [1, F(3, 2), 2]))
    cx.ob("C17.O6", "linsteps [0,1,2] num=0 endpoint=False", "nothing at all", c_lin([0, 1, 2], 0, [], endpoint=False))
    cx.ob("C17.O6", "linsteps endpoint=False", "endpoint=False omits the last point", c_lin([0, 1, 3], 2, [0, F(1, 2), 1, 2], endpoint=False))
    cx.ob("C17.O6", "linsteps [1,-1] num=4", "decreasing segment", c_lin([1, -1], 4, [1, F(1, 2), 0, F(-1, 2), -1]))
    cx.ob("C17.O6", "linsteps axis=1 axes=3", "axis embedding: steps placed in column `axis`, other columns hold `values`",
          c_lin([0, 1], 2, [[5, 0, 5], [5, F(1, 2), 5], [5, 1, 5]], axis=1, axes=3, values=5))
    cx.ob("C17.O6", "linsteps axis=0 (axes default)", "axes defaults to axis+1", c_lin([0, 2], 2, [[0], [1], [2]], axis=0))
    sa, sb = sym("pa"), sym("pb")
    def c_lin_sym():
        r = cx.call("linsteps", [sa, sb], num=3, mod="_math")
        want = np.array([sa, sa + (sb - sa) * F(1, 3), sa + (sb - sa) * F(2, 3), sb], dtype=object)
        return (lambda bad: (not bad, "; ".join(bad)))(differs(r, want))
    cx.ob("C17.O6", "linsteps symbolic end points", "linear interpolation between symbolic end points", c_lin_sym)


class _Fake:
    pass


def grp_field(cx, tier):
    """thin field helpers only forward"""
    it = cx.it
    calls = []

    def mk_field(dimu):
        f = _Fake()
        f.values = symarray("u", (3, dimu))
        def extract(grad=True, sym=False, add_identity=True, **kw):
            calls.append(("extract", grad, sym, add_identity))
            return symarray("Fx", (3, 3, 2))
        f.extract = extract
        f.interpolate = lambda: calls.append(("interpolate",)) or symarray("ui", (3, 2))
        f.grad = lambda **kw: calls.append(("grad", kw)) or symarray("gu", (3, 3, 2))
        f.hess = lambda **kw: calls.append(("hess", kw)) or symarray("hu", (3, 3, 3, 2))
        return f

    class Container(list):
        pass

    def c_disp():
        fc = Container([mk_field(2), mk_field(1)])
        r = cx.call("displacement", fc, mod="_field")
        want = np.empty((3, 3), dtype=object)
        want[...] = ZERO
        want[:, :2] = fc[0].values
        bad = differs(r, want)
        r1 = cx.call("displacement", fc, dim=2, n=1, mod="_field")
        w1 = np.empty((3, 2), dtype=object)
        w1[...] = ZERO
        w1[:, :1] = fc[1].values
        bad += differs(r1, w1)
        return not bad, "; ".join(bad)
    cx.ob("C17.O7", "displacement", "values of field n padded with zero columns up to dim", c_disp)

    def c_defgrad():
        del calls[:]
        fc = Container([mk_field(3), mk_field(3)])
        r = cx.call("deformation_gradient", fc, mod="_field")
        ok1 = calls == [("extract", True, False, True)] and not differs(r, symarray("Fx", (3, 3, 2)))
        del calls[:]
        r = cx.call("right_cauchy_green_deformation", fc, mod="_field")
        Fx = symarray("Fx", (3, 3, 2))
        ok2 = calls == [("extract", True, False, True)] and not differs(r, ref_einsum("ki,kj->ij", Fx, Fx))
        return ok1 and ok2, "calls=%s" % calls
    cx.ob("C17.O7", "deformation_gradient / right_cauchy_green_deformation", "F = extract(grad, no sym, +identity) of field n; C = F^T F", c_defgrad)

    def c_extract():
        del calls[:]
        f = mk_field(3)
        cx.call("extract", f, grad=False, sym=True, add_identity=False, mod="_field")
        return calls == [("extract", False, True, False)], str(calls)
    cx.ob("C17.O7", "extract", "forwards grad/sym/add_identity unchanged", c_extract)

    def c_values():
        fc = _Fake()
        fc.fields = [mk_field(2), mk_field(1)]
        r = cx.call("values", fc, mod="_field")
        want = np.concatenate([fc.fields[0].values.reshape(-1), fc.fields[1].values.reshape(-1)])
        return (lambda bad: (not bad, "; ".join(bad)))(differs(r, want))
    cx.ob("C17.O7", "values", "concatenation of the raveled field values in container order", c_values)

    def c_norm():
        a = symarray("a", (2, 3))
        r = cx.call("norm", a, axis=1, mod="_field")
        want2 = ref_einsum("ij,ij->i", a.T.copy().T, a) if False else None
        bad = []
        for i in range(2):
            s = ZERO
            for j in range(3):
                s = s + a[i, j] * a[i, j]
            if not is_zero(P(r[i]) - ring.power(s, Fraction(1, 2))):
                bad.append("row %d" % i)
        rl = cx.call("norm", [a, a], mod="_field")
        s = ZERO
        for v in a.reshape(-1):
            s = s + v * v
        if rl.shape != (2,) or not is_zero(P(rl[0]) - ring.power(s, Fraction(1, 2))):
            bad.append("list input")
        return not bad, "; ".join(bad)
    cx.ob("C17.O7", "norm", "Euclidean norm along the axis; list input gives one norm per item", c_norm)

    def c_fw():
        del calls[:]
        f = mk_field(3)
        cx.call("interpolate", f, mod="_field")
        cx.call("grad", f, sym=True, mod="_field")
        cx.call("hess", f, mod="_field")
        g = _Fake()
        g.grad = "G"
        g.hess = "H"
        r1 = cx.call("grad", g, mod="_field")
        r2 = cx.call("hess", g, mod="_field")
        return calls == [("interpolate",), ("grad", {"sym": True}), ("hess", {})] and r1 == "G" and r2 == "H", str(calls)
    cx.ob("C17.O7", "interpolate/grad/hess", "forward to the field's method (or return the attribute when not callable)", c_fw)
