"""Known finding C14.O4|PointLoad:point-id-listed-twice, confirmed on the real code (run with /venv/bin/python):
a point id listed twice in a PointLoad receives one of its rows only (`force[points] += values` is a buffered fancy-index update),
so the nodal forces do not sum to the given values."""
import numpy as np
import felupe as fem

mesh = fem.Rectangle(n=2)
field = fem.FieldContainer([fem.Field(fem.RegionQuad(mesh), dim=2)])
values = np.array([[1.0, 0.0], [2.0, 0.0], [4.0, 0.0]])
load = fem.PointLoad(field, [0, 0, 1], values=values)
r = load.assemble.vector().toarray().reshape(-1, 2)
print("resultant", r.sum(axis=0), "given", values.sum(axis=0))
assert not np.allclose(r.sum(axis=0), values.sum(axis=0)), "repaired: remove the finding"
print("confirmed: the row of the first listing of point 0 is lost")
