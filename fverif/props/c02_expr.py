"""C02.O8(ii) / O9 -- Form expression API and thread discipline (not built yet: no tasks registered)"""


def tasks(tier):
    return []
