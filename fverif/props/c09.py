"""C09 -- homogeneous deformation problems (narrow structural claim; DESIGN.md section 3, C09)."""

from fractions import Fraction

import numpy as np

from .. import ring, npmodel, micro, scenario
from ..ring import P, sym, is_zero, ZERO, ONE
from ..common import new_interp, symarray, finish_info, method_where
from ..interp import InterpRaise
from ..npmodel import ExtModule

SPEC = dict(
    level="other",
    rule="O1: ViewMaterial / ViewMaterialIncompressible .uniaxial / .planar / .biaxial are evaluated from source with symbolic stretches, a "
    "recording material and a recording root finder: the ansatz is F = diag(l1, l2, l3) with l2 = l3 unknown / l2 = 1, l3 unknown / "
    "l2 = l1, l3 unknown (incompressible: l3 from det F = 1); the root function returns P33 of the material at that F; the reported "
    "force is P11 of the final evaluation (incompressible: P11 - l3/l1 P33); with state variables the increments are evaluated one by "
    "one, in order, each receiving the state returned by the previous one. O2: CharacteristicCurve._callback records x = displacement of "
    "the first boundary point and y = sum over *all* boundary points of the first field's rows of the residual (sum of the items' "
    "forces when items are given, else the substep's residual).",
    trusted_base=["scipy.optimize.root finds a root of the function it is given (opaque)"],
    explanation="that the computed displacement field of a patch test *is* the affine map is an end-to-end numerical statement (Newton convergence on a "
    "concrete mesh); its ingredients are decided by C02, C04-C08, C15; the two clauses here have no other home and are necessary for the "
    "material-curve and reaction-force parts of the property",
    exhaustive=True,
    not_decided=["the computed field equals the affine map at every point (end-to-end numerics on a concrete mesh)",
                 "reaction force equals the analytic stress times the reference area (follows from C14 + the above)"],
    assumptions=[],
)

FLOORS = {}


def tasks(tier):
    ts = []
    for cls in ("ViewMaterial", "ViewMaterialIncompressible"):
        for mode in ("uniaxial", "planar", "biaxial"):
            for state in (False, True):
                ts.append(("%s.%s state=%s" % (cls, mode, state), "run_curve", dict(clsname=cls, mode=mode, state=state)))
            if cls == "ViewMaterial":
                # the root finder fails on the first attempt and succeeds on the retry; fails on both
                ts.append(("%s.%s retry" % (cls, mode), "run_curve", dict(clsname=cls, mode=mode, state=False, fail=1)))
                ts.append(("%s.%s fails" % (cls, mode), "run_curve", dict(clsname=cls, mode=mode, state=False, fail=2)))
    # necessary for the uniaxial / biaxial clause: the predefined load cases constrain exactly the documented planes and components
    for dim in (2, 3):
        ts.append(("load cases dim=%d" % dim, "run_included", dict(modname="c08", fname="run_loadcases", kwargs=dict(dim=dim), oid="C09.O3",
                                                             why="a homogeneous uniaxial / biaxial state needs the load case to prescribe exactly these unknowns")))
        # a specimen whose lower and upper bounds differ from axis to axis (centred, non-square block)
        ts.append(("load cases dim=%d, bounds differ per axis" % dim, "run_included", dict(modname="c08", fname="run_loadcases", kwargs=dict(dim=dim, orphan="two"), oid="C09.O3",
                                                                                        why="the default end faces of a load case are the mesh bounds along the *loaded* axis")))
    # the affine patch test prescribes an array of values per boundary: dof.apply has to put each value at the position of its unknown
    for dim in (2, 3):
        ts.append(("prescribed values dim=%d" % dim, "run_included", dict(modname="c08", fname="run_partition", kwargs=dict(dim=dim), oid="C09.O5", select_oid="C08.O4",
                                                                       why="the patch test prescribes u = (H - 1) X point by point: ext0 must list each boundary value at the position of its unknown, whatever the memory layout of the value array")))
    ts.append(("characteristic curve", "run_curve_job", {}))
    # CharacteristicCurve(items=...) sums item.results.force: what an item reports after the residual evaluation has to be its contribution to it
    ts.append(("item forces summed by the curve", "run_included", dict(modname="c01_items", fname="run_multiplier", kwargs={}, oid="C09.O6", select_oid="C01.O8",
                                                                      why="the force recorded by CharacteristicCurve(items=...) is the sum of item.results.force: an item with a multiplier (external loads carry -1) has to report the multiplied force")))
    # a displacement patch test prescribes every boundary unknown; on a mesh without interior points no unknown is free
    # "independent of the mesh ... and interior distortion": the documented way to distort a mesh (mesh.update(points, callback=region.reload))
    # may come after the body was created
    ts.append(("body on a re-evaluated region", "run_included", dict(modname="c01", fname="run_reassembly", kwargs=dict(cfg="NeoHooke(mu,bulk)"), oid="C09.O7", select_oid="C01.O1r",
                                                                    why="the patch test holds on the distorted mesh only if the body integrates with the region's current volumes and gradients, not with those at its creation")))
    ts.append(("partitioned solve, degenerate partitions", "run_included", dict(modname="c07", fname="run_partition_edges", kwargs={}, oid="C09.O4",
                                                                             why="the patch test on a mesh without interior points has no free unknown: the solve must still set the prescribed increments")))
    return ts


class RecMat:
    def __init__(self, state):
        self.x = [npmodel.eye(3), npmodel.zeros(1 if state else 0)]
        self.calls = []

    def gradient(self, x):
        F, sv = x[0], x[-1]
        k = len(self.calls)
        self.calls.append((npmodel.to_obj(np.asarray(F)).copy(), sv))
        Pm = symarray("P%d" % k, F.shape)
        new = None
        if sv is not None:
            new = np.empty(np.asarray(sv).shape, dtype=object)
            new[...] = sym("state%d" % k)
        return [Pm, new]


def run_curve(col, clsname, mode, state, fail=0):
    it = new_interp()
    roots = []
    suffix = {0: "", 1: " [first root attempt fails]", 2: " [both root attempts fail]"}[fail]

    class Res:
        pass

    def root(fun, x0, **kw):
        n = np.asarray(x0).shape[0]
        trial = symarray("t3", (n,), positive=True)
        before = len(mat.calls)
        val = fun(trial)
        roots.append(dict(x0=x0, trial=trial, val=val, ncalls=len(mat.calls) - before, first=before))
        r = Res()
        r.success = len(roots) > fail
        # the solution of a failed attempt is not a root: a different symbol
        r.x = symarray("s3" if r.success else "sfail%d" % len(roots), (n,), positive=True)
        return r

    it.externals["scipy.optimize"] = ExtModule("scipy.optimize", dict(root=root))
    it.externals["scipy"].ns["optimize"] = it.externals["scipy.optimize"]
    mat = RecMat(state)
    cls = it.get("felupe.constitution._view:" + clsname)
    lam = symarray("l1", (2,), positive=True)
    view = it.call(cls, [mat], dict(ux=lam, ps=lam, bx=lam))
    pos = lambda a, b, op: ({"<": False, "<=": False, ">": True, ">=": True}[op] if (b.is_const() or True) else None)
    ring.ORDER_ORACLE[0] = pos
    try:
        try:
            out = it.call_method(view, mode, [])
        except InterpRaise as e:
            out = e
    finally:
        ring.ORDER_ORACLE[0] = None
    if fail == 2:
        col.add("C09.O1", "%s.%s%s" % (clsname, mode, suffix), "when the transverse stretch cannot be found the curve is not reported: an exception is raised",
                isinstance(out, InterpRaise) and isinstance(out.exc, ValueError) and len(roots) == 2, str(out)[:120])
        finish_info(col, it)
        return
    if isinstance(out, InterpRaise):
        raise out
    if fail == 1:
        x0 = npmodel.to_obj(np.asarray(roots[1]["x0"])).reshape(-1) if len(roots) == 2 else []
        col.add("C09.O1", "%s.%s retry start" % (clsname, mode), "after a failed first attempt the root finder is restarted once from transverse stretches 1",
                len(roots) == 2 and all(is_zero(P(v) - ONE) for v in x0), "%d attempts" % len(roots))
    lam_out, force, label = out[0], npmodel.to_obj(np.asarray(out[1])).reshape(-1), out[2]
    where = method_where(cls, mode)
    incompressible = clsname.endswith("Incompressible")
    n = 2
    sol = symarray("s3", (n,), positive=True)

    def expected_F(l3, k):
        l1 = lam[k]
        if incompressible:
            l2 = {"uniaxial": ring.power(l1, Fraction(-1, 2)), "planar": ONE, "biaxial": l1}[mode]
            l3v = {"uniaxial": ring.power(l1, Fraction(-1, 2)), "planar": ring.inv(l1), "biaxial": ring.inv(l1 * l1)}[mode]
            return [l1, l2, l3v]
        l2 = {"uniaxial": l3[k], "planar": ONE, "biaxial": l1}[mode]
        return [l1, l2, l3[k]]

    def F_of_call(call):
        """list over the increments contained in this call of diag entries, after checking that F is diagonal"""
        Fm = call[0]
        okd = all(not P(Fm[i, j, 0, q]).t for i in range(3) for j in range(3) if i != j for q in range(Fm.shape[3]))
        return okd, [[P(Fm[i, i, 0, q]) for i in range(3)] for q in range(Fm.shape[3])]

    # ---- final evaluation(s): the last n (with state) or the last 1 call(s)
    final_calls = mat.calls[-n:] if state else mat.calls[-1:]
    diag = []
    okdiag = True
    for c in final_calls:
        o, dd = F_of_call(c)
        okdiag = okdiag and o
        diag += dd
    bad = [k for k in range(n) if any(not is_zero(a - b) for a, b in zip(diag[k], expected_F(sol, k)))] if len(diag) == n else ["count %d" % len(diag)]
    col.add("C09.O1", "%s.%s ansatz (state=%s)%s" % (clsname, mode, state, suffix),
            "final deformation gradient is diag(l1, l2, l3) with the transverse stretches of this load case" + ("" if incompressible else " taken from the root finder's solution"),
            okdiag and not bad, "%s: increments %s" % (where, bad))
    # ---- reported force
    bad = []
    for k in range(n):
        if state:
            Pk = "P%d" % (len(mat.calls) - n + k)
            q = 0
        else:
            Pk = "P%d" % (len(mat.calls) - 1)
            q = k
        p11 = sym("%s[0,0,0,%d]" % (Pk, q))
        p33 = sym("%s[2,2,0,%d]" % (Pk, q))
        want = p11
        if incompressible:
            want = p11 - expected_F(sol, k)[2] * ring.inv(lam[k]) * p33
        if not is_zero(P(force[k]) - want):
            bad.append(k)
    col.add("C09.O1", "%s.%s force (state=%s)%s" % (clsname, mode, state, suffix), "reported force == P11 of the final evaluation" + (" - l3/l1 P33 (hydrostatic pressure eliminated with P33 = 0)" if incompressible else ""),
            not bad and all(is_zero(P(a) - b) for a, b in zip(npmodel.to_obj(np.asarray(lam_out)).reshape(-1), lam)), "%s: increments %s" % (where, bad))
    # ---- root function (compressible view only)
    if not incompressible:
        okr = len(roots) >= 1
        bad = []
        if okr:
            r0 = roots[0]
            calls = mat.calls[r0["first"]: r0["first"] + r0["ncalls"]]
            dd = []
            for c in calls:
                dd += F_of_call(c)[1]
            val = npmodel.to_obj(np.asarray(r0["val"])).reshape(-1)
            for k in range(n):
                if len(dd) != n or any(not is_zero(a - b) for a, b in zip(dd[k], expected_F(r0["trial"], k))):
                    bad.append(("F", k))
                Pk, q = ("P%d" % (r0["first"] + k), 0) if state else ("P%d" % r0["first"], k)
                if not is_zero(P(val[k]) - sym("%s[2,2,0,%d]" % (Pk, q))):
                    bad.append(("P33", k))
        col.add("C09.O1", "%s.%s root function (state=%s)%s" % (clsname, mode, state, suffix), "the root function evaluates the material at diag(l1, l2(l3), l3) for the trial l3 and returns P33", okr and not bad, "%s: %s" % (where, bad))
    # ---- state threading
    if state:
        seq = final_calls
        okk = True
        for k, c in enumerate(seq):
            sv = c[1]
            if k == 0:
                okk = okk and sv is not None and all(not P(v).t for v in npmodel.to_obj(np.asarray(sv)).reshape(-1))  # virgin state
            else:
                prev = "state%d" % (len(mat.calls) - n + k - 1)
                okk = okk and sv is not None and all(str(v) == prev for v in npmodel.to_obj(np.asarray(sv)).reshape(-1))
        col.add("C09.O1", "%s.%s state threading" % (clsname, mode), "increments are evaluated one by one in order; each receives the state returned by the previous one, the first the virgin state", okk and len(seq) == n)
    finish_info(col, it)


def run_curve_job(col):
    it = new_interp()
    fc, n, dof0, dof1, ext0, regs = scenario.make_problem(it, nfields=2)
    CC = it.get("felupe.mechanics._curve:CharacteristicCurve")

    class Bnd:
        points = np.array([2, 0])

    log = []
    items = [scenario.FakeItem(log, "A", fc, n), scenario.FakeItem(log, "B", fc, n)]
    for i_ in items:
        i_.results.force = npmodel.AbstractSparse(symarray("F" + i_.name, (n, 1)))

    class Sub:
        pass

    sub = Sub()
    sub.x = fc
    sub.fun = symarray("res", (n,))
    seen = []
    for with_items in (True, False):
        job = it.call(CC, [], dict(steps=[], boundary=Bnd(), items=items if with_items else None, callback=lambda i, j, s, **kw: seen.append((i, j, s))))
        it.call_method(job, "_callback", [0, 1, sub])
        x = npmodel.to_obj(np.asarray(it.getattr(job, "x")[0]))
        y = npmodel.to_obj(np.asarray(it.getattr(job, "y")[0])).reshape(-1)
        U = fc.attrs["fields"][0].attrs["values"]
        okx = all(is_zero(P(x[i]) - U[2, i]) for i in range(2))
        if with_items:
            want = [sum((sym("FA[%d,0]" % (2 * p + i)) + sym("FB[%d,0]" % (2 * p + i)) for p in Bnd.points), ZERO) for i in range(2)]
        else:
            want = [sum((sub.fun[2 * p + i] for p in Bnd.points), ZERO) for i in range(2)]
        oky = all(is_zero(P(y[i]) - want[i]) for i in range(2))
        col.add("C09.O2", "CharacteristicCurve._callback items=%s" % with_items,
                "x = displacement of the first boundary point; y = sum over all boundary points of the first field's rows of " + ("the items' summed forces" if with_items else "the substep's residual"), okx and oky,
                method_where(CC, "_callback"))
    # the recorded point of the curve is a value, not a window onto the live field: a later in-place change of the field (the next substep's
    # update, a reset of the field after the job) leaves the recorded displacement as it was
    job = it.call(CC, [], dict(steps=[], boundary=Bnd(), items=None, callback=lambda i, j, s, **kw: None))
    it.call_method(job, "_callback", [0, 0, sub])
    U = fc.attrs["fields"][0].attrs["values"]
    before = [P(v) for v in npmodel.to_obj(np.asarray(it.getattr(job, "x")[0])).reshape(-1)]
    keep = U[2].copy()
    U[2, :] = [sym("later0"), sym("later1")]
    after = [P(v) for v in npmodel.to_obj(np.asarray(it.getattr(job, "x")[0])).reshape(-1)]
    U[2, :] = keep
    col.add("C09.O2", "CharacteristicCurve recorded displacement is a copy", "a recorded curve point does not change when the field values are changed in place afterwards",
            all(is_zero(a - b) for a, b in zip(before, after)), "%s: recorded %s became %s" % (method_where(CC, "_callback"), [str(v) for v in before], [str(v) for v in after]))
    col.add("C09.O2", "CharacteristicCurve user callback", "the user callback is invoked with the same step, substep numbers and result", seen == [(0, 1, sub), (0, 1, sub)])
    finish_info(col, it)


def run_included(col, modname, fname, kwargs, oid, why, select_oid=None):
    from ..common import include

    include(col, modname, fname, kwargs, oid, why, select_oid=select_oid)
