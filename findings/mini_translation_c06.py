"""C06 known finding: the MINI region templates use the bubble function (a hierarchical, non-nodal shape function) in the isoparametric geometry
map as well: x = sum_a h_a X_a with sum_a h_a = 1 + bubble.  The map -- and with it dXdr, the differential volumes and dhdX -- changes when a valid
mesh is translated; far from the origin differential volumes become negative and a false "Negative volumes" warning is issued.

Exit code 0 if the differential volumes are translation invariant, 1 otherwise (the pinned tree: 1).
"""
import warnings

import numpy as np

import felupe as fem

bad = []
for name, mesh, Region in (
    ("RegionTriangleMINI", fem.Rectangle(n=3).triangulate().add_midpoints_faces(), fem.RegionTriangleMINI),
    ("RegionTetraMINI", fem.Cube(n=3).triangulate().add_midpoints_volumes(), fem.RegionTetraMINI),
):
    ref = Region(mesh).dV
    for shift in (1.0, 100.0):
        with warnings.catch_warnings(record=True) as w:
            warnings.simplefilter("always")
            dV = Region(mesh.copy(points=mesh.points + shift)).dV
        print("%-20s shift %6.1f: max |dV - dV(0)| = %.3e  min dV = %+.3e  warnings: %d" % (name, shift, abs(dV - ref).max(), dV.min(), len(w)))
        if not np.allclose(dV, ref, rtol=1e-9, atol=1e-12):
            bad.append((name, shift))
assert not bad, "differential volumes of the MINI templates change under a translation of the mesh: %s" % bad
print("ok")
