import numpy as np, felupe as fem
import felupe.constitution.tensortrax as mat
from felupe.constitution.tensortrax.models.hyperelastic import saint_venant_kirchhoff_orthotropic as svko
import tensortrax as tr
import tensortrax.math as tm
rng = np.random.default_rng(0)
F = np.eye(3) + 0.2*rng.normal(size=(3,3))
C = F.T@F
mu = [1.0, 2.0, 3.0]; lmbda=[1.0,0.3,0.5,2.0,0.7,3.0]
r1=[1,0,0]; r2=[0,1,0]
def ref(C,k):
    w,N = np.linalg.eigh(C)
    fl = np.log(w)/2 if k==0 else (w**(k/2)-1)/k
    E = (N*fl)@N.T
    lam = np.zeros((3,3)); lam[np.triu_indices(3)] = lmbda; lam = lam + lam.T - np.diag(np.diag(lam))
    Err = np.diag(E)
    return sum(mu[a]*(E@E)[a,a] for a in range(3)) + 0.5*Err@lam@Err
for k in (2,0,1,3):
    Cb = np.broadcast_to(C.reshape(3,3,1,1),(3,3,2,2)).copy()
    W = tr.function(lambda C: svko(C, mu, lmbda, r1, r2, k=k), ntrax=2)(Cb)
    print(k, W[0,0], ref(C,k))
def hyp(C,k):
    w,N = np.linalg.eigh(C)
    fl = np.log(w)/2 if k==0 else (w**(k/2)-1)/k
    E = np.diag(fl)
    lam = np.zeros((3,3)); lam[np.triu_indices(3)] = lmbda; lam = lam + lam.T - np.diag(np.diag(lam))
    Err = np.diag(E)
    return sum(mu[a]*(E@E)[a,a] for a in range(3)) + 0.5*Err@lam@Err
print([hyp(C,k) for k in (0,1,3)])
