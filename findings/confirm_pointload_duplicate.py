"""Confirmation for the repair 21f44bd3 (C14.O4 PointLoad:point-id-listed-twice), run with /venv/bin/python against the real code:
before the repair a point id listed twice in a PointLoad received one of its rows only (`force[points] += values` is a buffered
fancy-index update) -- resultant 6 instead of 7 below; with the repair (np.add.at) the nodal forces sum to the given values."""
import numpy as np
import felupe as fem

mesh = fem.Rectangle(n=2)
field = fem.FieldContainer([fem.Field(fem.RegionQuad(mesh), dim=2)])
values = np.array([[1.0, 0.0], [2.0, 0.0], [4.0, 0.0]])
load = fem.PointLoad(field, [0, 0, 1], values=values)
r = load.assemble.vector().toarray().reshape(-1, 2)
print("resultant", r.sum(axis=0), "given", values.sum(axis=0))
assert np.allclose(r.sum(axis=0), values.sum(axis=0)), "the defect is back: a repeated point id loses a row"
assert np.allclose(r[0], [3.0, 0.0]) and np.allclose(r[1], [4.0, 0.0])
print("ok")
