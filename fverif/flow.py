"""E3 -- flow engine: a small abstract interpreter over one function's AST.

Abstract values: three-valued booleans (T, F, TOP), ring elements for integer loop facts, version tags for
reaching-definition questions, UNDEF for unbound names.  Statements transform *sets of abstract states*
(path-sensitive on the tracked facts; loops are run to a fixpoint over the finite lattice).  Calls are opaque
(they cannot rebind the caller's locals).  Rules query the states collected at program points:
  - `at_return`   states in which a `return` is executed (with the returned expression)
  - `at_raise`    states in which a `raise` is executed
  - `at_call[name]`  states at each call of a given callee name
  - `at_yield`    states at each `yield`
Range-loop fact: in `for i in range(n)` the loop variable equals `n - 1` when the loop is exhausted after at
least one iteration.
"""

import ast
import itertools

from . import ring
from .ring import Poly, P, Undecided

T, F, TOP, UNDEF = "T", "F", "TOP", "UNDEF"


def b_not(v):
    return {T: F, F: T}.get(v, TOP)


def b_and(a, b):
    if a == F or b == F:
        return F
    if a == T and b == T:
        return T
    return TOP


def b_or(a, b):
    if a == T or b == T:
        return T
    if a == F and b == F:
        return F
    return TOP


class State:
    __slots__ = ("env", "ver", "tags", "trace")

    def __init__(self, env=None, ver=None, tags=None, trace=()):
        self.env = dict(env or {})  # name -> T/F/TOP/UNDEF/Poly/('tag', ...)
        self.ver = dict(ver or {})  # name -> version counter of its last assignment (per state)
        self.tags = dict(tags or {})  # name -> free-form facts recorded by hooks
        self.trace = trace

    def copy(self):
        return State(self.env, self.ver, self.tags, self.trace)

    def key(self):
        def k(v):
            if isinstance(v, Poly):
                return ("poly", str(v))
            return v
        return (tuple(sorted((n, k(v)) for n, v in self.env.items())), tuple(sorted(self.ver.items())), tuple(sorted((n, str(v)) for n, v in self.tags.items())))

    def get(self, name):
        return self.env.get(name, TOP)


def dedupe(states):
    seen = {}
    for s in states:
        seen.setdefault(s.key(), s)
    return list(seen.values())


class Outcome:
    def __init__(self):
        self.normal = []
        self.brk = []
        self.cont = []
        self.ret = []
        self.rais = []


class FlowAnalysis:
    def __init__(self, fn_node, tracked=None, hooks=None, params_true=(), max_states=4000):
        self.fn = fn_node
        self.tracked = tracked  # None: track every boolean-looking local
        self.hooks = hooks or {}
        self.at_return = []  # (state, node)
        self.at_raise = []
        self.at_call = {}  # callee name -> [(state, call node)]
        self.at_yield = []
        self.at_stmt = {}  # id(node) -> states
        self.max_states = max_states
        self.counter = itertools.count(1)
        self.unsupported = []

    # ---- expression evaluation (abstract) ------------------------------------------------------
    def ev(self, n, st):
        if isinstance(n, ast.Constant):
            if n.value is True:
                return T
            if n.value is False:
                return F
            if n.value is None:
                return ("none",)
            if isinstance(n.value, int):
                return Poly.const(n.value)
            return TOP
        if isinstance(n, ast.Name):
            return st.env.get(n.id, TOP)
        if isinstance(n, ast.UnaryOp) and isinstance(n.op, ast.Not):
            return b_not(self.truth(self.ev(n.operand, st)))
        if isinstance(n, ast.UnaryOp) and isinstance(n.op, ast.USub):
            v = self.ev(n.operand, st)
            return -v if isinstance(v, Poly) else TOP
        if isinstance(n, ast.BoolOp):
            vals = [self.truth(self.ev(v, st)) for v in n.values]
            r = vals[0]
            for v in vals[1:]:
                r = b_and(r, v) if isinstance(n.op, ast.And) else b_or(r, v)
            return r
        if isinstance(n, ast.BinOp) and isinstance(n.op, (ast.Add, ast.Sub, ast.Mult)):
            a, b = self.ev(n.left, st), self.ev(n.right, st)
            if isinstance(a, Poly) and isinstance(b, Poly):
                return {ast.Add: a + b, ast.Sub: a - b, ast.Mult: a * b}[type(n.op)]
            return TOP
        if isinstance(n, ast.Compare) and len(n.ops) == 1:
            a, b = self.ev(n.left, st), self.ev(n.comparators[0], st)
            op = n.ops[0]
            if isinstance(op, (ast.Is, ast.IsNot)):
                if a in (T, F) and b in (T, F):
                    return (T if a == b else F) if isinstance(op, ast.Is) else (F if a == b else T)
                if a == ("none",) and b == ("none",):
                    return T if isinstance(op, ast.Is) else F
                if (a == ("none",)) != (b == ("none",)) and TOP not in (a, b) and UNDEF not in (a, b):
                    # one side is None, the other a known non-None abstract value
                    other = b if a == ("none",) else a
                    if other in (T, F) or isinstance(other, Poly):
                        return F if isinstance(op, ast.Is) else T
                return TOP
            if isinstance(a, Poly) and isinstance(b, Poly) and isinstance(op, (ast.Eq, ast.NotEq)):
                d = a - b
                if ring.is_zero(d):
                    return T if isinstance(op, ast.Eq) else F
                if d.is_const():
                    return F if isinstance(op, ast.Eq) else T
                return TOP
            if isinstance(op, (ast.Eq, ast.NotEq)) and a in (T, F) and b in (T, F):
                r = T if a == b else F
                return r if isinstance(op, ast.Eq) else b_not(r)
            return TOP
        if isinstance(n, ast.Call):
            self.record_call(n, st)
            h = self.hooks.get("call_value")
            if h:
                r = h(self, n, st)
                if r is not None:
                    return r
            return TOP
        if isinstance(n, ast.Attribute):
            h = self.hooks.get("attr_value")
            if h:
                r = h(self, n, st)
                if r is not None:
                    return r
            self.walk_calls(n.value, st)
            return TOP
        if isinstance(n, (ast.Yield,)):
            self.at_yield.append((st.copy(), n))
            if n.value is not None:
                self.walk_calls(n.value, st)
            return TOP
        self.walk_calls(n, st)
        return TOP

    def walk_calls(self, n, st):
        for sub in ast.walk(n):
            if isinstance(sub, ast.Call):
                self.record_call(sub, st, recurse=False)
            elif isinstance(sub, ast.Yield):
                self.at_yield.append((st.copy(), sub))

    def record_call(self, n, st, recurse=True):
        name = None
        if isinstance(n.func, ast.Name):
            name = n.func.id
        elif isinstance(n.func, ast.Attribute):
            name = n.func.attr
        if name:
            self.at_call.setdefault(name, []).append((st.copy(), n))
        if recurse:
            for a in list(n.args) + [k.value for k in n.keywords]:
                self.walk_calls(a, st)
            if isinstance(n.func, ast.Attribute):
                self.walk_calls(n.func.value, st)

    def truth(self, v):
        if v in (T, F):
            return v
        if v == ("none",):
            return F
        if isinstance(v, Poly) and v.is_const():
            return T if v.const_value() != 0 else F
        return TOP

    # ---- assignment ----------------------------------------------------------------------------
    def assign(self, target, value, st, rhs=None):
        if isinstance(target, ast.Name):
            st.env[target.id] = value
            st.ver[target.id] = getattr(rhs, "lineno", 0) if rhs is not None else getattr(target, "lineno", 0)  # reaching definition = def site
            h = self.hooks.get("on_assign")
            if h:
                h(self, target.id, rhs, st)
        elif isinstance(target, (ast.Tuple, ast.List)):
            for t in target.elts:
                self.assign(t, TOP, st, rhs)
        else:
            # attribute / subscript stores do not rebind locals
            h = self.hooks.get("on_store")
            if h:
                h(self, target, rhs, st)

    # ---- statements ----------------------------------------------------------------------------
    def locals_of(self):
        names = set()
        for n in ast.walk(self.fn):
            if isinstance(n, ast.Name) and isinstance(n.ctx, ast.Store):
                names.add(n.id)
        return names

    def header_exprs(self, n):
        if isinstance(n, (ast.Expr, ast.Return)):
            return [n.value] if n.value is not None else []
        if isinstance(n, (ast.Assign, ast.AnnAssign, ast.AugAssign)):
            return [n.value] if n.value is not None else []
        if isinstance(n, (ast.If, ast.While)):
            return [n.test]
        if isinstance(n, ast.For):
            return [n.iter]
        if isinstance(n, ast.Raise):
            return [n.exc] if n.exc is not None else []
        return []

    def unbound_use(self, n, st):
        for e in self.header_exprs(n):
            for sub in ast.walk(e):
                if isinstance(sub, ast.Name) and isinstance(sub.ctx, ast.Load) and st.env.get(sub.id) == UNDEF:
                    return sub.id
        return None

    def run(self, init=None):
        st = State(init or {})
        for nm in self.locals_of():
            st.env.setdefault(nm, UNDEF)
        for a in self.fn.args.args + self.fn.args.kwonlyargs + ([self.fn.args.vararg] if self.fn.args.vararg else []) + ([self.fn.args.kwarg] if self.fn.args.kwarg else []):
            st.env[a.arg] = (init or {}).get(a.arg, TOP)
        out = self.block(self.fn.body, [st])
        # falling off the end returns None
        for s in out.normal:
            self.at_return.append((s, None))
        return self

    def block(self, body, states):
        res = Outcome()
        cur = states
        for stmt in body:
            if not cur:
                break
            cur = dedupe(cur)
            if len(cur) > self.max_states:
                raise Undecided("flow analysis: state explosion at line %d" % stmt.lineno)
            self.at_stmt.setdefault(id(stmt), []).extend(s.copy() for s in cur)
            ok_states = []
            for s in cur:
                nm = self.unbound_use(stmt, s)
                if nm is not None:
                    # use before definition on this path: the interpreter raises UnboundLocalError
                    s.tags["$unbound"] = nm
                    self.at_raise.append((s.copy(), stmt))
                    res.rais.append(s)
                else:
                    ok_states.append(s)
            cur = ok_states
            if not cur:
                break
            o = self.stmt(stmt, cur)
            res.brk += o.brk
            res.cont += o.cont
            res.ret += o.ret
            res.rais += o.rais
            cur = o.normal
        res.normal = cur
        return res

    def split(self, test, states):
        tru, fls = [], []
        for s in states:
            v = self.truth(self.ev(test, s))
            if v in (T, TOP):
                a = s.copy()
                self.refine(test, a, True)
                tru.append(a)
            if v in (F, TOP):
                b = s.copy()
                self.refine(test, b, False)
                fls.append(b)
        return tru, fls

    def refine(self, test, st, val):
        """learn facts from a branch condition"""
        if isinstance(test, ast.Name):
            if st.env.get(test.id, TOP) in (TOP,):
                st.env[test.id] = T if val else F
        elif isinstance(test, ast.UnaryOp) and isinstance(test.op, ast.Not):
            self.refine(test.operand, st, not val)
        elif isinstance(test, ast.BoolOp):
            if isinstance(test.op, ast.And) and val:
                for v in test.values:
                    self.refine(v, st, True)
            elif isinstance(test.op, ast.Or) and not val:
                for v in test.values:
                    self.refine(v, st, False)
            else:
                # `a or b` holds / `a and b` fails: one alternative per operand k (operands before k have the other outcome);
                # what all feasible alternatives agree on is learnt
                hit = val  # outcome of the deciding operand: True for Or-true, False for And-false
                alts = []
                for k in range(len(test.values)):
                    alt = st.copy()
                    feasible = True
                    for j in range(k):
                        if self.truth(self.ev(test.values[j], alt)) == (T if hit else F):
                            feasible = False
                            break
                        self.refine(test.values[j], alt, not hit)
                    if not feasible:
                        continue
                    if self.truth(self.ev(test.values[k], alt)) == (F if hit else T):
                        continue
                    self.refine(test.values[k], alt, hit)
                    alts.append(alt)
                if alts:
                    for name in set().union(*[set(a.env) for a in alts]):
                        vals = [a.env.get(name, TOP) for a in alts]
                        if all(v == vals[0] for v in vals[1:]) and st.env.get(name, TOP) == TOP:
                            st.env[name] = vals[0]
        elif isinstance(test, ast.Compare) and len(test.ops) == 1 and isinstance(test.ops[0], (ast.Is, ast.IsNot)):
            l, r = test.left, test.comparators[0]
            is_none = isinstance(r, ast.Constant) and r.value is None
            if isinstance(r, ast.Constant) and r.value in (True, False) and isinstance(r.value, bool) and isinstance(l, ast.Name):
                holds = val if isinstance(test.ops[0], ast.Is) else not val
                if holds and st.env.get(l.id, TOP) == TOP:
                    st.env[l.id] = T if r.value else F
            if is_none and isinstance(l, ast.Name):
                isnone = val if isinstance(test.ops[0], ast.Is) else not val
                if isnone:
                    st.env[l.id] = ("none",)
        h = self.hooks.get("on_refine")
        if h:
            h(self, test, st, val)

    def stmt(self, n, states):
        o = Outcome()
        if isinstance(n, ast.Expr):
            for s in states:
                self.ev(n.value, s)
            o.normal = states
        elif isinstance(n, ast.Assign):
            for s in states:
                v = self.ev(n.value, s)
                for t in n.targets:
                    self.assign(t, v if isinstance(t, ast.Name) else TOP, s, n.value)
            o.normal = states
        elif isinstance(n, ast.AnnAssign):
            for s in states:
                if n.value is not None:
                    self.assign(n.target, self.ev(n.value, s), s, n.value)
            o.normal = states
        elif isinstance(n, ast.AugAssign):
            for s in states:
                v = self.ev(ast.BinOp(left=ast.Name(id=n.target.id, ctx=ast.Load()) if isinstance(n.target, ast.Name) else n.target, op=n.op, right=n.value), s) \
                    if isinstance(n.target, ast.Name) else TOP
                self.walk_calls(n.value, s)
                h = self.hooks.get("on_augassign")
                if h:
                    h(self, n, s)
                self.assign(n.target, v, s, n)
            o.normal = states
        elif isinstance(n, ast.If):
            tru, fls = self.split(n.test, states)
            a = self.block(n.body, tru)
            b = self.block(n.orelse, fls) if n.orelse else None
            for x in (a, b):
                if x is None:
                    continue
                o.brk += x.brk
                o.cont += x.cont
                o.ret += x.ret
                o.rais += x.rais
            o.normal = a.normal + (b.normal if b is not None else fls)
        elif isinstance(n, (ast.For, ast.While)):
            o = self.loop(n, states)
        elif isinstance(n, ast.Break):
            o.brk = states
        elif isinstance(n, ast.Continue):
            o.cont = states
        elif isinstance(n, ast.Return):
            for s in states:
                if n.value is not None:
                    self.ev(n.value, s)
                self.at_return.append((s.copy(), n))
            o.ret = states
        elif isinstance(n, ast.Raise):
            for s in states:
                if n.exc is not None:
                    self.walk_calls(n.exc, s)
                self.at_raise.append((s.copy(), n))
            o.rais = states
        elif isinstance(n, ast.With):
            for s in states:
                for item in n.items:
                    self.ev(item.context_expr, s)
                    if item.optional_vars is not None:
                        self.assign(item.optional_vars, TOP, s, item.context_expr)
            o = self.block(n.body, states)
        elif isinstance(n, ast.Try):
            a = self.block(n.body, states)
            # an exception may leave the body from any point: handlers start from the states before / inside the body
            hs = []
            for h in n.handlers:
                hs.append(self.block(h.body, [s.copy() for s in states] + [s.copy() for s in a.normal]))
            e = self.block(n.orelse, a.normal) if n.orelse else None
            norm = (e.normal if e is not None else a.normal)
            for x in [a] + hs + ([e] if e else []):
                o.brk += x.brk
                o.cont += x.cont
                o.ret += x.ret
                o.rais += x.rais
            for x in hs:
                norm = norm + x.normal
            if n.finalbody:
                f = self.block(n.finalbody, norm)
                o.brk += f.brk
                o.cont += f.cont
                o.ret += f.ret
                o.rais += f.rais
                norm = f.normal
            o.normal = norm
        elif isinstance(n, (ast.Pass, ast.Import, ast.ImportFrom, ast.Global, ast.Nonlocal, ast.FunctionDef, ast.ClassDef, ast.Assert, ast.Delete)):
            if isinstance(n, ast.FunctionDef):
                for s in states:
                    s.env[n.name] = TOP
            o.normal = states
        else:
            self.unsupported.append((type(n).__name__, n.lineno))
            raise Undecided("flow analysis: statement %s at line %d" % (type(n).__name__, n.lineno))
        return o

    def loop(self, n, states):
        o = Outcome()
        is_for = isinstance(n, ast.For)
        bound = None
        var = None
        if is_for:
            var = n.target.id if isinstance(n.target, ast.Name) else None
            it = n.iter
            if isinstance(it, ast.Call) and isinstance(it.func, ast.Name) and it.func.id == "range" and len(it.args) == 1:
                bound = it.args[0]
        # entry: evaluate the iterable once; a range bound held in a never-assigned name becomes a symbol
        for s in states:
            if is_for:
                if isinstance(bound, ast.Name) and s.env.get(bound.id, TOP) == TOP:
                    s.env[bound.id] = ring.sym("$" + bound.id)
                self.ev(n.iter, s)
        head = [s.copy() for s in states]
        seen = set()
        exhausted = []  # states at the loop head after >= 1 iteration
        zero_iter = [s.copy() for s in states]
        work = head
        rounds = 0
        while work:
            rounds += 1
            if rounds > 60:
                raise Undecided("flow analysis: loop at line %d did not stabilise" % n.lineno)
            new = []
            for s in work:
                k = s.key()
                if k in seen:
                    continue
                seen.add(k)
                new.append(s)
            if not new:
                break
            body_in = []
            for s in new:
                b = s.copy()
                if is_for:
                    if var is not None:
                        b.env[var] = TOP
                        b.ver[var] = n.lineno
                        h = self.hooks.get("on_loopvar")
                        if h:
                            h(self, n, var, b)
                    else:
                        self.assign(n.target, TOP, b, n.iter)
                    body_in.append(b)
                else:
                    tru, fls = self.split(n.test, [b])
                    body_in += tru
                    exhausted += fls if rounds > 1 else []
                    if rounds == 1:
                        zero_iter = fls
            r = self.block(n.body, body_in)
            o.ret += r.ret
            o.rais += r.rais
            o.brk += r.brk
            nxt = r.normal + r.cont
            if is_for:
                exhausted += [s.copy() for s in nxt]
            # the loop variable is re-bound at the head: forget iteration-specific facts that cannot persist
            work = [self.widen(s, var) for s in nxt]
        # loop exits
        outs = []
        for s in dedupe(exhausted):
            e = s.copy()
            if is_for and bound is not None and var is not None:
                bv = self.ev(bound, e)
                if isinstance(bv, Poly):
                    e.env[var] = bv - 1
                else:
                    # symbolic bound: i == bound - 1 with an opaque bound symbol
                    e.env[var] = ring.sym("$" + ast.unparse(bound)) - 1
                e.tags["$exhausted@%d" % n.lineno] = True
            outs.append(e)
        if is_for:
            for s in zero_iter:
                z = s.copy()
                z.tags["$zero_iterations@%d" % n.lineno] = True
                outs.append(z)
        else:
            outs += zero_iter
        if n.orelse:
            e = self.block(n.orelse, outs)
            o.ret += e.ret
            o.rais += e.rais
            outs = e.normal
        brk = o.brk
        o.brk = []
        for s in brk:
            s.tags["$break@%d" % n.lineno] = True
        o.normal = outs + brk
        o.cont = []
        return o

    def widen(self, s, var):
        return s

    def sym_bound(self, node):
        return ring.sym("$" + ast.unparse(node))


def function_node(tree, qualname):
    """find a FunctionDef by 'name' or 'Class.name' in a module AST"""
    parts = qualname.split(".")
    body = tree.body
    node = None
    for p in parts:
        node = None
        for n in body:
            if isinstance(n, (ast.FunctionDef, ast.ClassDef)) and n.name == p:
                node = n
                break
        if node is None:
            return None
        body = node.body
    return node
