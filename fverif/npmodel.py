"""Summaries of third-party modules (the trusted base): numpy on object arrays of ring elements,
scipy.sparse as dense abstract matrices with duplicate summation, a few stdlib modules.

Default transfer function for a numpy routine = the routine itself applied to the abstract
arrays (object dtype with ``Poly`` entries, or native int / bool arrays for index data);
results are sanitised: a float array or float scalar coming out of any summary is *Undecided*
(never silently accepted), object arrays are normalised to hold ``Poly`` entries only.
"""

import itertools
from fractions import Fraction

import numpy as np

from . import ring
from .ring import Poly, Undecided, P, ZERO, ONE

LOG = []  # decisions taken on generic semantics (isclose etc.)


class ExtModule:
    def __init__(self, name, ns):
        self.name = name
        self.ns = ns

    def __repr__(self):
        return "<summary module %s>" % self.name


class Infinity:
    """np.inf: larger than every finite abstract value"""

    def __init__(self, sign=1):
        self.sign = sign

    def __neg__(self):
        return Infinity(-self.sign)

    def __repr__(self):
        return "inf" if self.sign > 0 else "-inf"


INF = Infinity()


class NullContext:
    def __init__(self, value=None):
        self.value = value

    def enter(self):
        return self.value

    def exit(self):
        return None


class DType:
    """dtype stand-in: 'float' (ring elements), 'int', 'bool', 'object'"""

    def __init__(self, kind):
        self.kind = kind
        self.__name__ = kind

    def __repr__(self):
        return "dtype(%s)" % self.kind

    def __eq__(self, o):
        return type_eq(self, o)

    def __hash__(self):
        return hash(self.kind)


def _kind_of(dt):
    """classify a dtype-like argument"""
    from .interp import TypeMarker

    if dt is None:
        return None
    if isinstance(dt, DType):
        return dt.kind
    if isinstance(dt, TypeMarker):
        return {"float": "float", "float64": "float", "float32": "float", "int": "int", "int64": "int", "int32": "int", "intp": "int", "bool": "bool", "bool_": "bool",
                "object": "object", "complex": "complex"}.get(dt.name, dt.name)
    if isinstance(dt, str):
        if dt.startswith(("float", "f", "d")):
            return "float"
        if dt.startswith(("int", "i", "u")):
            return "int"
        if dt.startswith("bool") or dt == "?":
            return "bool"
        if dt in ("object", "O"):
            return "object"
    if isinstance(dt, np.dtype):
        if dt == object:
            return "float"
        if dt.kind in "iu":
            return "int"
        if dt.kind == "b":
            return "bool"
        if dt.kind == "f":
            return "float"
    if dt is object:
        return "object"
    if dt in (int, np.int64, np.int32, np.intp):
        return "int"
    if dt in (bool, np.bool_):
        return "bool"
    if dt in (float, np.float64, np.float32):
        return "float"
    raise Undecided("dtype %r" % (dt,))


def type_eq(a, b):
    try:
        return _kind_of(a) == _kind_of(b)
    except Undecided:
        return False


# ------------------------------------------------------------------------------------------
# sanitising
# ------------------------------------------------------------------------------------------
def _polyize(a):
    flat = a.reshape(-1) if a.flags.c_contiguous else None
    it = a.flat
    for i, v in enumerate(it):
        if type(v) is not Poly:
            if isinstance(v, (int, Fraction, np.integer, bool, np.bool_)):
                a.flat[i] = P(v)
            elif isinstance(v, (float, np.floating)):
                raise Undecided("float entry in abstract array")
    return a


def san(x, name=""):
    if isinstance(x, np.ndarray):
        k = x.dtype.kind
        if k == "O":
            return _polyize(x)
        if k in "iub":
            return x
        if k in "US":
            return x
        if k == "f":
            if x.size == 0:
                return x.astype(object)
            raise Undecided("float array produced by summary %s" % name)
        raise Undecided("array of dtype %s produced by %s" % (x.dtype, name))
    if isinstance(x, (np.floating, float)):
        raise Undecided("float scalar produced by summary %s" % name)
    if isinstance(x, np.bool_):
        return bool(x)
    if isinstance(x, np.integer):
        return int(x)
    if isinstance(x, tuple) and type(x) is tuple:
        return tuple(san(v, name) for v in x)
    if isinstance(x, list) and type(x) is list:
        for i, v in enumerate(x):
            if isinstance(v, (np.ndarray, np.generic, float)):
                x[i] = san(v, name)
        return x
    return x


def to_obj(a):
    """any array-like / scalar -> object array (or 0-d) of Poly"""
    if isinstance(a, np.ndarray):
        if a.dtype == object:
            return a
        if a.dtype.kind in "iub":
            out = np.empty(a.shape, dtype=object)
            flat = out.reshape(-1)
            for i, v in enumerate(a.reshape(-1).tolist()):
                flat[i] = Poly.const(int(v))
            return out
        raise Undecided("array dtype %s" % a.dtype)
    if isinstance(a, (list, tuple)):
        return to_obj(array(a))
    return P(a)


def is_symbolic(a):
    return isinstance(a, (Fraction, Poly)) or (isinstance(a, np.ndarray) and a.dtype == object)


def fix_index(idx):
    if isinstance(idx, tuple):
        return tuple(fix_index(i) for i in idx)
    if isinstance(idx, (Fraction, Poly)):
        from .interp import _to_int_exact

        return _to_int_exact(idx)
    if isinstance(idx, np.ndarray) and idx.dtype == object:
        return to_int_array(idx)
    if isinstance(idx, list):
        return [fix_index(i) for i in idx]
    return idx


def to_int_array(a):
    if isinstance(a, np.ndarray) and a.dtype.kind in "iub":
        return a
    a = np.asarray(a, dtype=object) if not isinstance(a, np.ndarray) else a
    out = np.empty(a.shape, dtype=int)
    fo = out.reshape(-1)
    for i, v in enumerate(a.reshape(-1)):
        fo[i] = int(P(v)) if not isinstance(v, (int, np.integer)) else int(v)
    return out


def array_setitem(obj, idx, val):
    if obj.dtype == object:
        if isinstance(val, np.ndarray):
            val = to_obj(val)
        elif isinstance(val, (list, tuple)):
            val = to_obj(array(val))
        else:
            try:
                val = P(val)
            except TypeError:
                pass  # arbitrary python object stored in an object array (blocks of sparse matrices ...)
        obj[idx] = val
        return
    # native int / bool storage
    # numpy casts with C semantics on item assignment: a non-integer constant is truncated towards zero (silently); a symbolic value
    # has no integer image: undecided
    def trunc(v):
        pv = P(v)
        if not pv.is_const():
            raise Undecided("symbolic value stored into an integer array")
        return int(pv.const_value())  # int(Fraction) truncates towards zero like the C cast

    if obj.dtype.kind in "iu":
        if isinstance(val, (Fraction, Poly)):
            val = trunc(val)
        elif isinstance(val, np.ndarray) and val.dtype == object:
            out = np.empty(val.shape, dtype=int)
            fo = out.reshape(-1)
            for k, v in enumerate(val.reshape(-1)):
                fo[k] = trunc(v)
            val = out
        elif isinstance(val, (list, tuple)):
            val = array(val)
            if val.dtype == object:
                out = np.empty(val.shape, dtype=int)
                fo = out.reshape(-1)
                for k, v in enumerate(val.reshape(-1)):
                    fo[k] = trunc(v)
                val = out
    else:
        if isinstance(val, (Fraction, Poly)):
            v = P(val).const_value()
            val = bool(v != 0)
        elif isinstance(val, np.ndarray) and val.dtype == object:
            val = (val != 0)
    obj[idx] = val


import ast as _ast


def array_binop(it, op, f, a, b):
    if isinstance(a, (list, tuple)):
        a = array(a)
    if isinstance(b, (list, tuple)):
        b = array(b)
    if a is None or b is None:
        from .interp import InterpRaise

        raise InterpRaise(TypeError("unsupported operand type(s) for array op: NoneType"), it.where())
    sa, sb = is_symbolic(a), is_symbolic(b)
    if op in (_ast.BitAnd, _ast.BitOr, _ast.BitXor, _ast.LShift, _ast.RShift):
        return san(f(a, b), "bitop")
    if not (sa or sb):
        # both integer-like
        if op is _ast.Div:
            return san(f(to_obj(a), to_obj(b)), "div")
        if op is _ast.Pow:
            bb = np.asarray(b)
            if np.any(bb < 0):
                return san(f(to_obj(a), to_obj(b)), "pow")
        return san(f(a, b), "intop")
    a = to_obj(a) if not isinstance(a, Poly) else a
    b = to_obj(b) if not isinstance(b, Poly) else b
    if op is _ast.Pow and isinstance(b, np.ndarray):
        # elementwise power with array exponents
        aa, bb = np.broadcast_arrays(np.asarray(a, dtype=object), b)
        out = np.empty(aa.shape, dtype=object)
        for i in np.ndindex(aa.shape):
            out[i] = ring.power(P(aa[i]), P(bb[i]))
        return out
    if op is _ast.MatMult:
        return matmul(a, b)
    r = f(a, b)
    if r is NotImplemented:
        raise Undecided("array op not implemented")
    return san(r, "arrop")


def array_compare(it, f, a, b):
    if isinstance(a, (list, tuple)):
        a = array(a)
    if isinstance(b, (list, tuple)):
        b = array(b)
    if isinstance(a, Fraction):
        a = P(a)
    if isinstance(b, Fraction):
        b = P(b)
    if b is None or a is None:
        return f(a, b)
    r = f(a, b)
    if isinstance(r, np.ndarray) and r.dtype == object:
        r = r.astype(bool)
    return r


# ------------------------------------------------------------------------------------------
# constructors
# ------------------------------------------------------------------------------------------
def _shape(s):
    if isinstance(s, (int, np.integer)):
        return (int(s),)
    if isinstance(s, (Fraction, Poly)):
        return (int(P(s)),)
    return tuple(int(P(x)) if isinstance(x, (Fraction, Poly)) else int(x) for x in s)


def _filled(shape, val, kind):
    shape = _shape(shape)
    if kind == "object":
        out = np.empty(shape, dtype=object)
        out[...] = val
        return out
    if kind == "int":
        return np.full(shape, int(P(val)), dtype=int)
    if kind == "bool":
        return np.full(shape, bool(P(val) != 0) if not isinstance(val, bool) else val, dtype=bool)
    out = np.empty(shape, dtype=object)
    out[...] = P(val)
    return out


def zeros(shape, dtype=None, **kw):
    return _filled(shape, 0, _kind_of(dtype) or "float")


def ones(shape, dtype=None, **kw):
    return _filled(shape, 1, _kind_of(dtype) or "float")


def empty(shape, dtype=None, **kw):
    k = _kind_of(dtype) or "float"
    if k in ("int", "bool"):
        return _filled(shape, 0, k)
    out = np.empty(_shape(shape), dtype=object)
    out[...] = ring.sym("UNINIT")  # reading uninitialised memory is visible as a stray symbol
    return out


def full(shape, fill_value, dtype=None, **kw):
    if fill_value is None:
        return np.full(_shape(shape), None, dtype=object)  # an object array of None (placeholders)
    k = _kind_of(dtype)
    if k is None:
        k = "int" if isinstance(fill_value, (int, np.integer)) and not isinstance(fill_value, bool) else (
            "bool" if isinstance(fill_value, bool) else "float")
    return _filled(shape, fill_value, k)


def _like_kind(a, dtype):
    k = _kind_of(dtype)
    if k is not None:
        return k
    a = array(a) if not isinstance(a, np.ndarray) else a
    return {"O": "float", "i": "int", "u": "int", "b": "bool"}[a.dtype.kind]


def _np_shape(a):
    from .interp import Instance

    if isinstance(a, (list, tuple)) and a and isinstance(a[0], Instance):
        return (len(a),)
    return np.shape(a)


def zeros_like(a, dtype=None, **kw):
    if _kind_of(dtype) is not None and isinstance(a, (list, tuple)):
        return _filled(_np_shape(a), 0, _kind_of(dtype))
    return _filled(_np_shape(a), 0, _like_kind(a, dtype))


def ones_like(a, dtype=None, **kw):
    return _filled(np.shape(a), 1, _like_kind(a, dtype))


def empty_like(a, dtype=None, **kw):
    return empty(np.shape(a), dtype=DType(_like_kind(a, dtype)))


def full_like(a, fill_value, dtype=None, **kw):
    from .interp import Opaque

    if isinstance(fill_value, Opaque):
        fill_value = ring.sym("NaN")
    return _filled(np.shape(a), fill_value, _like_kind(a, dtype))


def eye(N, M=None, k=0, dtype=None, **kw):
    n = int(P(N))
    m = n if M is None else int(P(M))
    kind = _kind_of(dtype) or "float"
    out = _filled((n, m), 0, kind)
    one = ONE if kind == "float" else (1 if kind == "int" else True)
    for i in range(n):
        j = i + k
        if 0 <= j < m:
            out[i, j] = one
    return out


def identity(n, dtype=None):
    return eye(n, dtype=dtype)


def _nested_kind(x):
    """'int' | 'bool' | 'float' | 'other' for nested python data"""
    if isinstance(x, bool) or isinstance(x, np.bool_):
        return "bool"
    if isinstance(x, (int, np.integer)):
        return "int"
    if isinstance(x, (Fraction, Poly)):
        return "float"
    if isinstance(x, np.ndarray):
        return {"O": "float", "i": "int", "u": "int", "b": "bool", "U": "other", "S": "other"}.get(x.dtype.kind, "other")
    if isinstance(x, (list, tuple, range)):
        ks = {_nested_kind(v) for v in x}
        if not ks:
            return "float"
        if "other" in ks:
            return "other"
        if "float" in ks:
            return "float"
        if "int" in ks:
            return "int"
        return "bool"
    return "other"


def _conv_nested(x):
    if isinstance(x, np.ndarray):
        return to_obj(x)
    if isinstance(x, (list, tuple, range)):
        return [_conv_nested(v) for v in x]
    return P(x)


def array(obj, dtype=None, copy=True, ndmin=0, **kw):
    from .interp import Instance

    kind = _kind_of(dtype)
    if isinstance(obj, Instance):
        raise Undecided("np.array of an interpreted instance")
    if isinstance(obj, np.ndarray):
        if kind is None or kind == _like_kind(obj, None):
            r = obj.copy() if copy else obj
        elif kind == "float":
            r = to_obj(obj)
        elif kind == "int":
            r = to_int_array(obj)
        elif kind == "bool":
            r = obj.astype(bool)
        else:
            r = obj.copy()
        while r.ndim < ndmin:
            r = r[None]
        return r
    nk = _nested_kind(obj)
    if nk == "other":
        if isinstance(obj, (list, tuple)) and all(isinstance(v, str) for v in obj):
            return np.array(obj)
        if kind == "object" or True:
            # arrays of python objects (lists of arrays of different shape ...)
            try:
                r = np.empty(len(obj), dtype=object)
                for i, v in enumerate(obj):
                    r[i] = v
                return r
            except TypeError:
                raise Undecided("np.array of %r" % type(obj).__name__)
    if kind is None:
        kind = nk
    if kind in ("int", "bool") and nk in ("int", "bool"):
        r = np.array(_unwrap_native(obj), dtype=int if kind == "int" else bool)
    elif kind == "int":
        # float data to int: truncate constants
        r = to_int_array(np.array(_conv_nested(obj), dtype=object))
    elif kind == "bool":
        r = np.array(_conv_nested(obj), dtype=object) != 0
    else:
        conv = _conv_nested(obj)
        if isinstance(conv, Poly):
            r = np.empty((), dtype=object)
            r[()] = conv
        else:
            r = _build_obj(conv)
    while r.ndim < ndmin:
        r = r[None]
    return r


def _unwrap_native(x):
    if isinstance(x, np.ndarray):
        return x
    if isinstance(x, (list, tuple, range)):
        return [_unwrap_native(v) for v in x]
    return x


def _build_obj(conv):
    """nested lists of Poly / object arrays -> object array (numpy would try to iterate Poly)"""
    def shape_of(c):
        if isinstance(c, np.ndarray):
            return c.shape
        if isinstance(c, list):
            if not c:
                return (0,)
            s0 = shape_of(c[0])
            for v in c[1:]:
                if shape_of(v) != s0:
                    raise Undecided("ragged nested sequence in np.array")
            return (len(c),) + s0
        return ()

    shp = shape_of(conv)
    out = np.empty(shp, dtype=object)

    def fill(c, idx):
        if isinstance(c, np.ndarray):
            out[idx] = c
        elif isinstance(c, list):
            for i, v in enumerate(c):
                fill(v, idx + (i,))
        else:
            out[idx] = c

    fill(conv, ())
    return out


def asarray(a, dtype=None, **kw):
    if isinstance(a, np.ndarray) and dtype is None:
        return a
    return array(a, dtype=dtype, copy=False)


def arange(*args, dtype=None, **kw):
    if all(isinstance(a, (int, np.integer)) or (isinstance(a, (Fraction, Poly)) and P(a).is_const() and P(a).const_value().denominator == 1) for a in args) and _kind_of(dtype) in (None, "int"):
        return np.arange(*[int(P(a)) for a in args])
    if all(isinstance(a, (int, np.integer)) for a in args):
        return to_obj(np.arange(*args))
    vals = [P(a).const_value() for a in args]
    if len(vals) == 1:
        start, stop, step = Fraction(0), vals[0], Fraction(1)
    elif len(vals) == 2:
        start, stop, step = vals[0], vals[1], Fraction(1)
    else:
        start, stop, step = vals
    import math

    n = max(0, math.ceil((stop - start) / step))
    return _build_obj([P(start + i * step) for i in range(n)])


def linspace(start, stop, num=50, endpoint=True, retstep=False, axis=0, **kw):
    num = int(P(num))
    start = to_obj(start) if isinstance(start, (np.ndarray, list, tuple)) else P(start)
    stop = to_obj(stop) if isinstance(stop, (np.ndarray, list, tuple)) else P(stop)
    div = (num - 1) if endpoint else num
    items = []
    for i in range(num):
        if div > 0:
            items.append(start + (stop - start) * Fraction(i, div))
        else:
            items.append(start + (stop - start) * 0)
    if isinstance(items[0], np.ndarray) if items else False:
        out = np.stack(items, axis=axis)
    else:
        out = _build_obj(items) if items else np.empty((0,), dtype=object)
    if retstep:
        return out, (stop - start) / div
    return out


# ------------------------------------------------------------------------------------------
# einsum (sparse pairwise contraction over object / int arrays)
# ------------------------------------------------------------------------------------------
EINSUM_CALLS = []


def _parse_einsum(subs, arrs):
    subs = subs.replace(" ", "")
    if "->" in subs:
        lhs, out = subs.split("->")
    else:
        lhs, out = subs, None
    ins = lhs.split(",")
    if len(ins) != len(arrs):
        raise Modelled(ValueError("einsum: %d operands for subscripts %r" % (len(arrs), subs)))
    # ellipsis
    used = set(c for c in subs if c.isalpha())
    pool = [chr(c) for c in range(0x3B1, 0x3B1 + 24)]  # greek letters for ellipsis dims
    nell = 0
    for s, a in zip(ins, arrs):
        if "..." in s:
            k = a.ndim - (len(s) - 3)
            if k < 0:
                raise Modelled(ValueError("einsum: operand has too few dimensions for %r" % s))
            nell = max(nell, k)
    ell = pool[:nell]
    ins2 = []
    for s, a in zip(ins, arrs):
        if "..." in s:
            k = a.ndim - (len(s) - 3)
            s = s.replace("...", "".join(ell[nell - k:]))
        if len(s) != a.ndim:
            raise Modelled(ValueError("einsum: subscripts %r do not match operand with %d dimensions" % (s, a.ndim)))
        ins2.append(s)
    if out is None:
        cnt = {}
        for s in ins2:
            for c in s:
                cnt[c] = cnt.get(c, 0) + 1
        out = "".join(ell) + "".join(sorted(c for c in cnt if cnt[c] == 1 and c not in ell))
    else:
        if "..." in out:
            out = out.replace("...", "".join(ell))
        elif nell and False:
            pass
    return ins2, out


def einsum(*ops, out=None, **kw):
    if not isinstance(ops[0], str):
        raise Undecided("einsum with sublist format")
    subs = ops[0]
    arrs = [a if isinstance(a, np.ndarray) else array(a) for a in ops[1:]]
    for a in arrs:
        if a.dtype == object and a.size and not isinstance(a.flat[0], Poly):
            _polyize(a)
    ins, outs = _parse_einsum(subs, arrs)
    EINSUM_CALLS.append(subs)
    if len(arrs) == 1 and out is None and isinstance(ops[1], np.ndarray) and list(ins[0]) == list(outs) and len(set(outs)) == len(outs) and "." not in subs:
        # numpy returns a *view* of the operand for an identity subscript (e.g. einsum("a", w)): keep the aliasing
        return ops[1].view()
    dims = {}
    for s, a in zip(ins, arrs):
        for c, n in zip(s, a.shape):
            if dims.get(c, 1) == 1:
                dims[c] = n
            elif n != 1 and n != dims[c]:
                raise Modelled(ValueError("einsum: size mismatch for label %r: %d vs %d (%s)" % (c, dims[c], n, subs)))
    for c in outs:
        if c not in dims:
            raise Modelled(ValueError("einsum: output label %r not in inputs (%s)" % (c, subs)))
    all_int = all(a.dtype.kind in "iub" for a in arrs)
    # sparse representations
    reps = []
    for s, a in zip(ins, arrs):
        letters = []
        keep = []
        for k, (c, n) in enumerate(zip(s, a.shape)):
            if n == 1 and dims[c] != 1:
                continue  # broadcast axis: drop
            keep.append(k)
            letters.append(c)
        ent = {}
        flat_obj = a.dtype == object
        for idx in np.ndindex(a.shape):
            v = a[idx]
            if flat_obj:
                if not v.t:
                    continue
            else:
                if v == 0:
                    continue
                v = Poly.const(int(v))
            key = tuple(idx[k] for k in keep)
            # repeated letters inside one operand -> diagonal
            ok = True
            seen = {}
            for c, i in zip(letters, key):
                if c in seen and seen[c] != i:
                    ok = False
                    break
                seen[c] = i
            if not ok:
                continue
            if len(seen) != len(letters):
                ul = tuple(dict.fromkeys(letters))
                key = tuple(seen[c] for c in ul)
            if key in ent:
                ent[key] = ent[key] + v
            else:
                ent[key] = v
        reps.append((tuple(dict.fromkeys(letters)), ent))
    # pairwise contraction
    cur_letters, cur = reps[0]
    for k in range(1, len(reps)):
        bl, be = reps[k]
        later = set(outs)
        for l2, _ in reps[k + 1:]:
            later |= set(l2)
        shared = [c for c in cur_letters if c in bl]
        res_letters = tuple(c for c in dict.fromkeys(cur_letters + bl) if c in later)
        ia = [cur_letters.index(c) for c in shared]
        ib = [bl.index(c) for c in shared]
        groups = {}
        for kb, vb in be.items():
            groups.setdefault(tuple(kb[i] for i in ib), []).append((kb, vb))
        src = []
        for c in res_letters:
            if c in cur_letters:
                src.append((0, cur_letters.index(c)))
            else:
                src.append((1, bl.index(c)))
        acc = {}
        for ka, va in cur.items():
            g = groups.get(tuple(ka[i] for i in ia))
            if not g:
                continue
            for kb, vb in g:
                key = tuple(ka[j] if w == 0 else kb[j] for w, j in src)
                v = va * vb
                o = acc.get(key)
                acc[key] = v if o is None else o + v
        cur_letters, cur = res_letters, acc
    # sum out letters not in the output (single operand case or leftovers)
    if any(c not in outs for c in cur_letters):
        keep = [i for i, c in enumerate(cur_letters) if c in outs]
        mult = 1
        acc = {}
        for ka, va in cur.items():
            key = tuple(ka[i] for i in keep)
            o = acc.get(key)
            acc[key] = va if o is None else o + va
        cur_letters, cur = tuple(cur_letters[i] for i in keep), acc
    # letters summed over that were dropped as broadcast in every operand contribute a factor
    # (numpy sums over the broadcast extent)
    factor = 1
    present = set()
    for l2, _ in reps:
        present |= set(l2)
    for c, n in dims.items():
        if c not in outs and c not in present:
            factor *= n
    oshape = tuple(dims[c] for c in outs)
    res = np.empty(oshape, dtype=object)
    res[...] = ZERO
    pos = [outs.index(c) for c in cur_letters]
    missing = [i for i, c in enumerate(outs) if c not in cur_letters]
    for key, v in cur.items():
        if factor != 1:
            v = v * factor
        if not missing:
            idx = [0] * len(outs)
            for p, i in zip(pos, key):
                idx[p] = i
            res[tuple(idx)] = v
        else:
            idx = [slice(None)] * len(outs)
            for p, i in zip(pos, key):
                idx[p] = i
            res[tuple(idx)] = v
    if all_int:
        res = to_int_array(res)
    if out is not None:
        if out.shape != res.shape:
            raise ValueError("einsum: output buffer has wrong shape %s vs %s" % (out.shape, res.shape))
        array_setitem(out, Ellipsis, res)
        return out
    if res.ndim == 0:
        return res[()]
    return res


def einsumt(*ops, **kw):
    kw.pop("pool", None)
    kw.pop("idx", None)
    EINSUMT_USED[0] += 1
    return einsum(*ops, **kw)


EINSUMT_USED = [0]


def matmul(a, b):
    a = to_obj(a) if isinstance(a, np.ndarray) else array(a)
    b = to_obj(b) if isinstance(b, np.ndarray) else array(b)
    if a.ndim == 1 and b.ndim == 1:
        return einsum("i,i->", a, b)
    if a.ndim == 1:
        return einsum("j,...jk->...k", a, b)
    if b.ndim == 1:
        return einsum("...ij,j->...i", a, b)
    return einsum("...ij,...jk->...ik", a, b)


def dot(a, b, out=None):
    if not isinstance(a, np.ndarray):
        a = array(a) if isinstance(a, (list, tuple)) else a
    if not isinstance(b, np.ndarray):
        b = array(b) if isinstance(b, (list, tuple)) else b
    if not isinstance(a, np.ndarray) or not isinstance(b, np.ndarray) or a.ndim == 0 or b.ndim == 0:
        return a * b
    if a.ndim == 1 and b.ndim == 1:
        return einsum("i,i->", a, b)
    if b.ndim == 1:
        return einsum("...j,j->...", a, b)
    if a.ndim == 1:
        return einsum("j,...jk->...k", a, b)
    if a.ndim == 2 and b.ndim == 2:
        return einsum("ij,jk->ik", a, b)
    r = np.dot(to_obj(a), to_obj(b))
    return san(r, "dot")


# ------------------------------------------------------------------------------------------
# elementwise functions
# ------------------------------------------------------------------------------------------
def _elementwise(fn, name):
    def g(x, out=None, where=True, **kw):
        if isinstance(x, (list, tuple)):
            x = array(x)
        if isinstance(x, np.ndarray):
            xo = to_obj(x)
            res = np.empty(xo.shape, dtype=object)
            rf = res.reshape(-1)
            for i, v in enumerate(xo.reshape(-1)):
                rf[i] = fn(v)
            if out is not None:
                array_setitem(out, Ellipsis, res)
                return out
            return res
        r = fn(P(x))
        if out is not None:
            array_setitem(out, Ellipsis, r)
            return out
        return r

    g.__name__ = name
    return g


def _sign(v):
    if v.is_const():
        c = v.const_value()
        return Poly.const(1 if c > 0 else (-1 if c < 0 else 0))
    if v > 0:  # may consult the order oracle or raise Undecided
        return ONE
    if v < 0:
        return -ONE
    return ZERO


sqrt = _elementwise(lambda v: ring.power(v, Fraction(1, 2)), "sqrt")
cbrt = _elementwise(lambda v: ring.power(v, Fraction(1, 3)), "cbrt")
log = _elementwise(lambda v: ring.fun_atom("Log", v), "log")
exp = _elementwise(lambda v: ring.fun_atom("Exp", v), "exp")
np_abs = _elementwise(lambda v: abs(v), "abs")
sign = _elementwise(_sign, "sign")
sinh = _elementwise(lambda v: ring.fun_atom("Sinh", v), "sinh")
cosh = _elementwise(lambda v: ring.fun_atom("Cosh", v), "cosh")
tanh = _elementwise(lambda v: ring.fun_atom("Tanh", v), "tanh")
sin = _elementwise(lambda v: _trig("Sin", v), "sin")
cos = _elementwise(lambda v: _trig("Cos", v), "cos")
tan = _elementwise(lambda v: ring.fun_atom("Tan", v), "tan")
arctan = _elementwise(lambda v: ring.fun_atom("Arctan", v), "arctan")
arcsin = _elementwise(lambda v: ring.fun_atom("Arcsin", v), "arcsin")
arccos = _elementwise(lambda v: ring.fun_atom("Arccos", v), "arccos")
erf = _elementwise(lambda v: ring.fun_atom("Erf", v), "erf")
square = _elementwise(lambda v: v * v, "square")
reciprocal = _elementwise(lambda v: ring.inv(v), "reciprocal")
def _has_nan(v):
    try:
        v = P(v)
    except TypeError:
        return False
    nan = ring.G.by_name.get("NaN")
    return nan is not None and nan in ring.all_syms(v)


def isnan(x, **kw):
    if isinstance(x, (list, tuple)):
        x = np.array([_has_nan(v) for v in x], dtype=bool)
        return x
    if isinstance(x, np.ndarray):
        if x.dtype == object:
            out = np.zeros(x.shape, dtype=bool)
            for idx in np.ndindex(x.shape):
                out[idx] = _has_nan(x[idx])
            return out
        return np.zeros(x.shape, dtype=bool)
    return _has_nan(x)
isfinite = lambda x, **kw: (np.ones(np.shape(x), dtype=bool) if isinstance(x, np.ndarray) else True)
isinf = isnan

# angles: cos/sin of a symbolic angle are parametrised rationally (t = tan(a/2)) so that
# c^2 + s^2 = 1 holds identically; multiples of pi/2 are exact
TRIG_PARAM = {}


def _trig(fn, v):
    if not v.t:
        return ONE if fn == "Cos" else ZERO
    # rational multiple of pi ?
    pi_ = ring.pi()
    q = v * ring.inv(pi_)
    if q.is_const():
        c = q.const_value() % 2
        table = {Fraction(0): (1, 0), Fraction(1, 2): (0, 1), Fraction(1): (-1, 0), Fraction(3, 2): (0, -1)}
        if c in table:
            return Poly.const(table[c][0 if fn == "Cos" else 1])
        sp = {Fraction(1, 4): ("h", "h"), Fraction(3, 4): ("-h", "h"), Fraction(5, 4): ("-h", "-h"), Fraction(7, 4): ("h", "-h"),
              Fraction(1, 6): ("r3", "1/2"), Fraction(1, 3): ("1/2", "r3"), Fraction(2, 3): ("-1/2", "r3"), Fraction(5, 6): ("-r3", "1/2"),
              Fraction(7, 6): ("-r3", "-1/2"), Fraction(4, 3): ("-1/2", "-r3"), Fraction(5, 3): ("1/2", "-r3"), Fraction(11, 6): ("r3", "-1/2")}
        if c in sp:
            vals = {"h": ring.const_pow(Fraction(1, 2), Fraction(1, 2)), "r3": ring.const_pow(Fraction(3, 4), Fraction(1, 2)),
                    "1/2": Poly.const(Fraction(1, 2))}
            s = sp[c][0 if fn == "Cos" else 1]
            neg = s.startswith("-")
            r = vals[s.lstrip("-")]
            return -r if neg else r
    key = ring._key(v)
    t = TRIG_PARAM.get(key)
    if t is None:
        # -v ?
        tm = TRIG_PARAM.get(ring._key(-v))
        if tm is not None:
            t = -tm
        else:
            t = ring.sym("tanhalf%d" % len(TRIG_PARAM), positive=False)
            if q.is_const():
                # a constant angle that is not in the exact table: the parameter stands for the real number tan(angle / 2)
                frac = q.const_value()
                (mk,) = t.t.keys()

                def value(ctx, frac=frac):
                    import decimal

                    half = ctx.multiply(ring.decimal_pi(ctx), decimal.Decimal(frac.numerator)) / decimal.Decimal(2 * frac.denominator)
                    s_, c_ = ring.decimal_sincos(half, ctx)
                    return ctx.divide(s_, c_)
                ring.NUMERIC[mk[0][0]] = value
        TRIG_PARAM[key] = t
    den = ring.inv(ONE + t * t)
    return (ONE - t * t) * den if fn == "Cos" else 2 * t * den


def deg2rad(x):
    return x * ring.pi() / 180


def rad2deg(x):
    return x * 180 / ring.pi()


def np_power(a, b, out=None, **kw):
    from .interp import _INTERP

    r = _INTERP[0].binop(_ast.Pow, a if not isinstance(a, (list, tuple)) else array(a), b)
    if out is not None:
        array_setitem(out, Ellipsis, r)
        return out
    return r


def _pairwise(pick, name):
    def g(a, b, out=None, **kw):
        aa = to_obj(a) if isinstance(a, (np.ndarray, list, tuple)) else P(a)
        bb = to_obj(b) if isinstance(b, (np.ndarray, list, tuple)) else P(b)
        if not isinstance(aa, np.ndarray) and not isinstance(bb, np.ndarray):
            return pick(aa, bb)
        x, y = np.broadcast_arrays(np.asarray(aa, dtype=object), np.asarray(bb, dtype=object))
        res = np.empty(x.shape, dtype=object)
        for i in np.ndindex(x.shape):
            res[i] = pick(x[i], y[i])
        if out is not None:
            array_setitem(out, Ellipsis, res)
            return out
        return res

    g.__name__ = name
    return g


def _max2(a, b):
    if a.t == b.t:
        return a
    try:
        return a if a >= b else b
    except Undecided:
        return ring.fun_atom("Max2", a) if False else _maxatom(a, b)


def _min2(a, b):
    if a.t == b.t:
        return a
    return a if a <= b else b


MAX_CASE = [None]  # 'first' | 'second' : generic case supplied by the obligation


def _maxatom(a, b):
    if MAX_CASE[0] == "first":
        return a
    if MAX_CASE[0] == "second":
        return b
    raise Undecided("np.maximum on symbolic data without a supplied case")


maximum = _pairwise(_max2, "maximum")
minimum = _pairwise(_min2, "minimum")


# 'generic': symbolic values that are not identically equal are not close (generic point of the input space)
# 'close'  : symbolic values that are not identically equal *are* within the tolerance (the inputs the generic world leaves out: close but
#            unequal).  A property that has to hold for all inputs has to hold in both worlds.
CLOSE_WORLD = ["generic"]


class Modelled(Exception):
    """an exception that the summarised third-party function itself raises on these (concrete) arguments -- deliberately modelled, exact;
    the interpreter turns it into an exception of the analysed program (a verdict), unlike accidental failures inside a summary"""

    def __init__(self, exc):
        Exception.__init__(self, str(exc))
        self.exc = exc


def _close1(x, y, rtol, atol):
    x, y = P(x), P(y)
    if x == y:
        return True
    d = x - y
    if d.is_const() and y.is_const():
        return abs(d.const_value()) <= Fraction(atol) + Fraction(rtol) * abs(y.const_value())
    return CLOSE_WORLD[0] == "close"


def isclose(a, b, rtol=None, atol=None, equal_nan=False):
    """identically equal -> True; constants: numpy's tolerance test; symbolic and not identical: by CLOSE_WORLD"""
    rtol = Fraction(1, 10 ** 5) if rtol is None else Fraction(P(rtol).const_value())
    atol = Fraction(1, 10 ** 8) if atol is None else Fraction(P(atol).const_value())
    aa = to_obj(a) if isinstance(a, (np.ndarray, list, tuple)) else P(a)
    bb = to_obj(b) if isinstance(b, (np.ndarray, list, tuple)) else P(b)
    if not isinstance(aa, np.ndarray) and not isinstance(bb, np.ndarray):
        r = bool(_close1(aa, bb, rtol, atol))
        LOG.append(("isclose", str(aa)[:60], str(bb)[:60], r))
        return r
    x, y = np.broadcast_arrays(np.asarray(aa, dtype=object), np.asarray(bb, dtype=object))
    res = np.empty(x.shape, dtype=bool)
    for i in np.ndindex(x.shape):
        res[i] = bool(_close1(x[i], y[i], rtol, atol))
    LOG.append(("isclose", "array%s" % (x.shape,), "", int(res.sum())))
    return res


def allclose(a, b, rtol=None, atol=None, equal_nan=False):
    return bool(np.all(isclose(a, b, rtol=rtol, atol=atol)))


def array_equal(a, b, **kw):
    a = asarray(a)
    b = asarray(b)
    if a.shape != b.shape:
        return False
    return bool(np.all(a == b))


def where(cond, *xy):
    if not xy:
        return np.where(np.asarray(cond, dtype=bool) if isinstance(cond, np.ndarray) and cond.dtype == object else cond)
    x, y = xy
    if is_symbolic(x) or is_symbolic(y) or isinstance(x, np.ndarray) and x.dtype == object:
        x = to_obj(x) if isinstance(x, np.ndarray) else P(x)
        y = to_obj(y) if isinstance(y, np.ndarray) else P(y)
        xx = np.empty((), dtype=object)
        if not isinstance(x, np.ndarray):
            xx[()] = x
            x = xx
        yy = np.empty((), dtype=object)
        if not isinstance(y, np.ndarray):
            yy[()] = y
            y = yy
    if isinstance(cond, np.ndarray) and cond.dtype == object:
        cond = cond.astype(bool)
    return san(np.where(cond, x, y), "where")


def _reduce_cmp(name):
    def g(a, axis=None, **kw):
        a = asarray(a)
        if a.dtype != object:
            return san(getattr(np, name)(a, axis=axis, **kw), name)
        if a.size == 0:
            raise ValueError("zero-size array to reduction operation")
        pick = _max2 if name in ("max", "amax") else _min2
        if axis is None:
            r = None
            for v in a.reshape(-1):
                r = v if r is None else pick(r, v)
            return r
        axis = int(axis)
        moved = np.moveaxis(a, axis, 0)
        r = moved[0].copy() if isinstance(moved[0], np.ndarray) else moved[0]
        for k in range(1, moved.shape[0]):
            r = _pairwise(pick, name)(r, moved[k])
        return r

    g.__name__ = name
    return g


def _argreduce(name):
    def g(a, axis=None, **kw):
        a = asarray(a)
        if a.dtype != object:
            return san(getattr(np, name)(a, axis=axis, **kw), name)
        vals = np.vectorize(lambda v: v.const_value(), otypes=[object])(a)
        return san(getattr(np, name)(vals, axis=axis), name)

    return g


def _const_array(a):
    """object array of constants -> array of Fractions (for sorting / unique)"""
    out = np.empty(a.shape, dtype=object)
    fo = out.reshape(-1)
    for i, v in enumerate(a.reshape(-1)):
        fo[i] = P(v).const_value()
    return out


def unique(a, return_index=False, return_inverse=False, return_counts=False, axis=None, **kw):
    a = asarray(a)
    if a.dtype != object:
        return san(np.unique(a, return_index=return_index, return_inverse=return_inverse,
                             return_counts=return_counts, axis=axis, **kw), "unique")
    ca = _const_array(a)
    if axis is None:
        flat = ca.reshape(-1).tolist()
        order = sorted(range(len(flat)), key=lambda i: flat[i])
        uniq, first, inv, counts = [], [], [0] * len(flat), []
        for i in order:
            if uniq and flat[i] == uniq[-1]:
                counts[-1] += 1
                first[-1] = min(first[-1], i)
            else:
                uniq.append(flat[i])
                first.append(i)
                counts.append(1)
            inv[i] = len(uniq) - 1
        res = [_build_obj([P(u) for u in uniq]) if uniq else np.empty((0,), dtype=object)]
        if return_index:
            res.append(np.array(first, dtype=int))
        if return_inverse:
            res.append(np.array(inv, dtype=int).reshape(a.shape))
        if return_counts:
            res.append(np.array(counts, dtype=int))
        return res[0] if len(res) == 1 else tuple(res)
    if axis == 0 and ca.ndim == 2:
        rows = [tuple(r) for r in ca.tolist()]
        order = sorted(range(len(rows)), key=lambda i: rows[i])
        uniq, first, inv, counts = [], [], [0] * len(rows), []
        for i in order:
            if uniq and rows[i] == uniq[-1]:
                counts[-1] += 1
                first[-1] = min(first[-1], i)
            else:
                uniq.append(rows[i])
                first.append(i)
                counts.append(1)
            inv[i] = len(uniq) - 1
        res = [_build_obj([[P(v) for v in r] for r in uniq])]
        if return_index:
            res.append(np.array(first, dtype=int))
        if return_inverse:
            res.append(np.array(inv, dtype=int))
        if return_counts:
            res.append(np.array(counts, dtype=int))
        return res[0] if len(res) == 1 else tuple(res)
    raise Undecided("np.unique(axis=...) on symbolic data")


def sort(a, axis=-1, **kw):
    a = asarray(a)
    if a.dtype != object:
        return np.sort(a, axis=axis)
    ca = _const_array(a)
    idx = np.argsort(ca.astype(float) if False else np.vectorize(float, otypes=[float])(ca), axis=axis, kind="stable")
    return np.take_along_axis(a, idx, axis=axis)


def argsort(a, axis=-1, **kw):
    a = asarray(a)
    if a.dtype != object:
        return np.argsort(a, axis=axis, **kw)
    ca = _const_array(a)
    # exact ordering through rationals -> use python sort on the last axis
    if ca.ndim == 1:
        return np.array(sorted(range(len(ca)), key=lambda i: ca[i]), dtype=int)
    raise Undecided("argsort of symbolic nd data")


def np_round(a, decimals=0, out=None):
    def r(v):
        pv = P(v)
        q = Fraction(10) ** int(decimals)
        if pv.is_const():
            return Poly.const(Fraction(round(pv.const_value() * q)) / q)
        if ring.all_syms(pv) - set(ring.NUMERIC):
            raise Undecided("round of a symbolic value")
        # an algebraic constant (roots of constants): evaluate to 80 digits; the rounded value is decided unless the number sits within
        # 1e-30 of a rounding boundary
        import decimal

        d = ring.const_decimal(pv) * decimal.Decimal(q.numerator) / decimal.Decimal(q.denominator)
        n = d.to_integral_value(rounding=decimal.ROUND_HALF_EVEN)
        if abs(abs(d - n) - decimal.Decimal("0.5")) < decimal.Decimal(10) ** -30:
            raise Undecided("round of an algebraic constant at a rounding boundary")
        return Poly.const(Fraction(int(n)) / q)

    if isinstance(a, np.ndarray):
        if a.dtype != object:
            return a
        return _elementwise(r, "round")(a)
    return r(a)


def np_sum(a, axis=None, dtype=None, out=None, keepdims=False, **kw):
    if isinstance(a, (list, tuple)):
        a = array(a)
    if not isinstance(a, np.ndarray):
        return a
    if a.dtype == bool:
        return san(np.sum(a, axis=axis, keepdims=keepdims), "sum")
    if a.dtype == object and a.size == 0:
        r = np.sum(np.zeros(a.shape, dtype=int), axis=axis, keepdims=keepdims)
        return to_obj(r) if isinstance(r, np.ndarray) else ZERO
    r = np.sum(a, axis=axis, keepdims=keepdims)
    if out is not None:
        array_setitem(out, Ellipsis, r)
        return out
    if a.dtype == object and not isinstance(r, np.ndarray):
        return P(r)
    return san(r, "sum")


def np_mean(a, axis=None, dtype=None, out=None, keepdims=False, **kw):
    a = asarray(a)
    ao = to_obj(a)
    s = np_sum(ao, axis=axis, keepdims=keepdims)
    if axis is None:
        n = ao.size
    elif isinstance(axis, tuple):
        n = 1
        for ax in axis:
            n *= ao.shape[ax]
    else:
        n = ao.shape[int(axis)]
    return s * Fraction(1, n)


def np_average(a, axis=None, weights=None, **kw):
    if weights is None:
        return np_mean(a, axis=axis)
    a = to_obj(asarray(a))
    w = to_obj(asarray(weights))
    if axis is None:
        return np_sum(a * w.reshape(a.shape)) / np_sum(w)
    axis = int(axis) % a.ndim
    shape = [1] * a.ndim
    shape[axis] = a.shape[axis]
    if w.ndim != 1 or w.shape[0] != a.shape[axis]:
        raise ValueError("average: weights must be 1-D with the length of the averaged axis")
    return np_sum(a * w.reshape(shape), axis=axis) / np_sum(w)


def np_prod(a, axis=None, dtype=None, **kw):
    a = asarray(a)
    if a.dtype != object:
        if _kind_of(dtype) == "float":
            a = to_obj(a)
        else:
            return san(np.prod(a, axis=axis, **kw), "prod")
    return san(np.multiply.reduce(a, axis=axis), "prod")


def linalg_norm(x, ord=None, axis=None, keepdims=False):
    x = to_obj(asarray(x))
    if ord not in (None, 2, "fro"):
        raise Undecided("norm ord=%r" % (ord,))
    sq = np_sum(x * x, axis=axis, keepdims=keepdims)
    return sqrt(sq)


def _gauss_jordan(A, B):
    """solve A X = B exactly; A (n,n), B (n,m) object arrays"""
    n = A.shape[0]
    M = [[A[i, j] for j in range(n)] + [B[i, j] for j in range(B.shape[1])] for i in range(n)]
    for c in range(n):
        piv = None
        # prefer constant pivots
        for r in range(c, n):
            if M[r][c].t and M[r][c].is_const():
                piv = r
                break
        if piv is None:
            for r in range(c, n):
                if not ring.is_zero(M[r][c]):
                    piv = r
                    break
        if piv is None:
            raise Undecided("singular matrix in exact solve")
        M[c], M[piv] = M[piv], M[c]
        ip = ring.inv(M[c][c])
        M[c] = [v * ip for v in M[c]]
        for r in range(n):
            if r != c and M[r][c].t:
                f = M[r][c]
                M[r] = [a - f * b for a, b in zip(M[r], M[c])]
    X = np.empty(B.shape, dtype=object)
    for i in range(n):
        for j in range(B.shape[1]):
            X[i, j] = M[i][n + j]
    return X


def _adj_inv(a):
    """inverse of a 1x1 / 2x2 / 3x3 matrix as adjugate / determinant (one inverse atom instead of pivoting)"""
    n = a.shape[0]
    if n == 1:
        out = np.empty((1, 1), dtype=object)
        out[0, 0] = ring.inv(a[0, 0])
        return out
    d = linalg_det(a)
    if not P(d).t:
        raise Undecided("singular matrix in exact inverse")
    idet = ring.inv(d)
    out = np.empty((n, n), dtype=object)
    for i in range(n):
        for j in range(n):
            minor = np.delete(np.delete(a, j, axis=0), i, axis=1)
            c = linalg_det(minor) if n > 2 else minor[0, 0]
            out[i, j] = (c if (i + j) % 2 == 0 else -c) * idet
    return out


def linalg_inv(a):
    a = to_obj(asarray(a))
    if a.ndim == 2:
        n = a.shape[0]
        if n <= 3 and not all(P(v).is_const() for v in a.reshape(-1)):
            return _adj_inv(a)
        return _gauss_jordan(a, eye(n))
    out = np.empty(a.shape, dtype=object)
    for idx in np.ndindex(a.shape[:-2]):
        out[idx] = _gauss_jordan(a[idx], eye(a.shape[-1]))
    return out


def linalg_solve(a, b):
    a = to_obj(asarray(a))
    b = to_obj(asarray(b))
    if a.ndim == 2:
        if b.ndim == 1:
            return _gauss_jordan(a, b.reshape(-1, 1)).reshape(-1)
        return _gauss_jordan(a, b)
    out = np.empty(b.shape, dtype=object)
    for idx in np.ndindex(a.shape[:-2]):
        bb = b[idx]
        if bb.ndim == 1:
            out[idx] = _gauss_jordan(a[idx], bb.reshape(-1, 1)).reshape(-1)
        else:
            out[idx] = _gauss_jordan(a[idx], bb)
    return out


def linalg_det(a):
    a = to_obj(asarray(a))

    def det2(m):
        n = m.shape[0]
        if n == 1:
            return m[0, 0]
        if n == 2:
            return m[0, 0] * m[1, 1] - m[0, 1] * m[1, 0]
        r = ZERO
        for j in range(n):
            if m[0, j].t:
                minor = np.delete(np.delete(m, 0, axis=0), j, axis=1)
                r = r + (m[0, j] if j % 2 == 0 else -m[0, j]) * det2(minor)
        return r

    if a.ndim == 2:
        return det2(a)
    out = np.empty(a.shape[:-2], dtype=object)
    for idx in np.ndindex(a.shape[:-2]):
        out[idx] = det2(a[idx])
    return out


# opaque eigen-decompositions: results are fresh function atoms of the input (tagged by a
# serial per distinct input) so axis bookkeeping around them can be checked
OPAQUE_CALLS = []


def _opaque_linalg(name, nout):
    def g(a, *args, **kw):
        a = to_obj(asarray(a))
        serial = len(OPAQUE_CALLS)
        OPAQUE_CALLS.append((name, a.copy(), args, kw))
        n = a.shape[-1]
        batch = a.shape[:-2]
        vals = np.empty(batch + (n,), dtype=object)
        vecs = np.empty(batch + (n, n), dtype=object)
        for idx in np.ndindex(batch):
            tag = "%s%d[%s]" % (name, serial, ",".join(map(str, idx)))
            for i in range(n):
                vals[idx + (i,)] = ring.sym("%s.w%d" % (tag, i), positive=True)
                for j in range(n):
                    vecs[idx + (i, j)] = ring.sym("%s.v%d%d" % (tag, i, j))
        if nout == 1:
            return vals
        return vals, vecs

    g.__name__ = name
    return g


# ------------------------------------------------------------------------------------------
# ndarray attribute access
# ------------------------------------------------------------------------------------------
def _arr_astype(a):
    def astype(dtype, copy=True, **kw):
        k = _kind_of(dtype)
        if k in ("float", "object"):
            return to_obj(a).copy() if a.dtype == object else to_obj(a)
        if k == "int":
            if a.dtype == object:
                out = np.empty(a.shape, dtype=int)
                fo = out.reshape(-1)
                for i, v in enumerate(a.reshape(-1)):
                    fo[i] = int(P(v).const_value())
                return out
            return a.astype(int)
        if k == "bool":
            if a.dtype == object:
                return (a != 0)
            return a.astype(bool)
        raise Undecided("astype(%r)" % (dtype,))

    return astype


_ARR_SAFE = {
    "reshape", "ravel", "flatten", "transpose", "copy", "squeeze", "swapaxes", "take", "repeat", "tolist",
    "nonzero", "cumsum", "trace", "diagonal", "item", "conj", "conjugate", "all", "any", "fill", "view",
    "searchsorted", "tobytes", "__len__",
}


def native_getattr(it, obj, name):
    from .interp import InterpRaise, Opaque

    if isinstance(obj, ExtModule):
        if name in obj.ns:
            return obj.ns[name]
        return Opaque("%s.%s" % (obj.name, name))
    if isinstance(obj, np.ndarray):
        if name in ("shape", "ndim", "size"):
            return getattr(obj, name)
        if name == "T":
            return obj.T
        if name == "dtype":
            return DType({"O": "float", "i": "int", "u": "int", "b": "bool"}.get(obj.dtype.kind, "other"))
        if name == "astype":
            return _arr_astype(obj)
        if name == "real":
            return obj
        if name == "flat":
            return obj.flat
        if name == "sum":
            return lambda *a, **k: np_sum(obj, *a, **k)
        if name == "mean":
            return lambda *a, **k: np_mean(obj, *a, **k)
        if name == "prod":
            return lambda *a, **k: np_prod(obj, *a, **k)
        if name in ("max", "min"):
            return lambda *a, **k: _reduce_cmp(name)(obj, *a, **k)
        if name in ("argmax", "argmin"):
            return lambda *a, **k: _argreduce(name)(obj, *a, **k)
        if name == "dot":
            return lambda b: dot(obj, b)
        if name == "round":
            return lambda *a, **k: np_round(obj, *a, **k)
        if name == "argsort":
            return lambda *a, **k: argsort(obj, *a, **k)
        if name == "sort":
            def _sort(*a, **k):
                obj[...] = sort(obj, *a, **k)
            return _sort
        if name == "fill":
            return lambda v: array_setitem(obj, Ellipsis, v)
        if name == "real_to_dual":
            from . import admodels

            return lambda b: admodels.real_to_dual(obj, b)
        if name == "x":
            return obj
        if name in _ARR_SAFE:
            m = getattr(obj, name)
            if name == "reshape":
                def _reshape(*shape, **k):
                    if len(shape) == 1 and isinstance(shape[0], (tuple, list)):
                        shape = tuple(shape[0])
                    return obj.reshape(*[int(P(s)) if isinstance(s, (Fraction, Poly)) else s for s in shape], **k)
                return _reshape
            return m
        if not hasattr(obj, name):
            raise InterpRaise(AttributeError("'numpy.ndarray' object has no attribute %r" % name), it.where())
        if type(obj) is not np.ndarray and type(obj).__module__.startswith("fverif") and name in getattr(obj, "__dict__", {}):
            return getattr(obj, name)  # instance attribute of a checker-side ndarray subclass (e.g. the BasisArray stand-in)
        raise it.undecided("ndarray attribute %r" % name)
    if isinstance(obj, Poly):
        if name in ("shape",):
            return ()
        if name == "ndim":
            return 0
        if name == "size":
            return 1
        if name == "T":
            return obj
        if name == "copy":
            return lambda: obj
        if name == "astype":
            return lambda *a, **k: obj
        if name == "dtype":
            return DType("float")
        if name == "real":
            return obj
        if name in ("sum", "mean", "item", "squeeze", "ravel"):
            return lambda *a, **k: obj
        if name == "x":
            r = np.empty((), dtype=object)
            r[()] = obj
            return r
        if name == "real_to_dual":
            from . import admodels

            return lambda b: admodels.real_to_dual(obj, b)
        if name == "ntrax":
            return 0
        raise InterpRaise(AttributeError("scalar has no attribute %r" % name), it.where())
    if isinstance(obj, Fraction):
        if name in ("shape",):
            return ()
        if name == "ndim":
            return 0
        if name in ("real", "conjugate", "numerator", "denominator"):
            return getattr(obj, name)
        if name == "is_integer":
            return lambda: obj.denominator == 1
        raise InterpRaise(AttributeError("float has no attribute %r" % name), it.where())
    if isinstance(obj, DType):
        if name == "kind":
            return {"float": "f", "int": "i", "bool": "b"}.get(obj.kind, "O")
        if name == "type":
            return obj
        if name == "name":
            return obj.kind
        raise it.undecided("dtype attribute %r" % name)
    if isinstance(obj, AbstractSparse):
        return getattr(obj, name)
    if isinstance(obj, int) and not isinstance(obj, bool) and name in ("ravel", "reshape", "item", "astype", "shape", "ndim", "size", "flatten"):
        # numpy integer scalars (converted to python ints by the sanitiser) still answer the array protocol
        return getattr(np.int64(obj), name) if name not in ("astype",) else (lambda *a, **k: obj)
    if isinstance(obj, (str, list, tuple, dict, set, frozenset, range, slice, int, bool)) or obj is None:
        try:
            return getattr(obj, name)
        except AttributeError as e:
            raise InterpRaise(e, it.where())
    if isinstance(obj, BaseException):
        return getattr(obj, name)
    if isinstance(obj, type) and issubclass(obj, BaseException):
        return getattr(obj, name)
    from .interp import TypeMarker, GeneratorResult

    if isinstance(obj, TypeMarker):
        if name == "__name__":
            return obj.name
        raise it.undecided("attribute %r of type %s" % (name, obj.name))
    if isinstance(obj, _Namespace):
        try:
            return getattr(obj, name)
        except AttributeError as e:
            raise InterpRaise(e, it.where())
    try:
        return getattr(obj, name)
    except AttributeError as e:
        raise InterpRaise(e, it.where())


def native_setattr(it, obj, name, val):
    if isinstance(obj, _Namespace):
        setattr(obj, name, val)
        return True
    if isinstance(obj, np.ndarray) and name == "shape":
        obj.shape = val
        return True
    return False


def native_setitem(it, obj, idx, val):
    if isinstance(obj, AbstractSparse):
        obj[idx] = val
        return True
    return False


class _Namespace:
    pass


# ------------------------------------------------------------------------------------------
# scipy.sparse as dense abstract matrices
# ------------------------------------------------------------------------------------------
SPARSE_LOG = []


class AbstractSparse:
    """a sparse matrix summarised by its dense value (duplicates summed on construction)"""

    def __init__(self, dense, fmt="csr"):
        self.dense = dense
        self.format = fmt

    @property
    def shape(self):
        return self.dense.shape

    @property
    def T(self):
        return AbstractSparse(self.dense.T.copy(), self.format)

    def transpose(self):
        return self.T

    def toarray(self, order=None, out=None):
        if out is not None:
            array_setitem(out, Ellipsis, self.dense.reshape(out.shape))
            return out
        return self.dense.copy()

    todense = toarray

    def tocsr(self):
        return AbstractSparse(self.dense, "csr")

    def tocsc(self):
        return AbstractSparse(self.dense, "csc")

    def tocoo(self):
        return AbstractSparse(self.dense, "coo")

    def tolil(self):
        return AbstractSparse(self.dense, "lil")

    def copy(self):
        return AbstractSparse(self.dense.copy(), self.format)

    def resize(self, *shape):
        if len(shape) == 1:
            shape = tuple(shape[0])
        shape = _shape(shape)
        new = _filled(shape, 0, "float")
        r = min(shape[0], self.dense.shape[0])
        c = min(shape[1], self.dense.shape[1])
        new[:r, :c] = self.dense[:r, :c]
        self.dense = new

    def reshape(self, *shape, **kw):
        if len(shape) == 1 and isinstance(shape[0], (tuple, list)):
            shape = tuple(shape[0])
        return AbstractSparse(self.dense.reshape(*[int(P(x)) for x in shape]).copy(), self.format)

    def eliminate_zeros(self):
        return None

    def sum_duplicates(self):
        return None

    def astype(self, dtype):
        return self

    def diagonal(self):
        return np.diagonal(self.dense).copy()

    def sum(self, axis=None):
        return np_sum(self.dense, axis=axis)

    def dot(self, other):
        return self @ other

    def multiply(self, other):
        o = other.dense if isinstance(other, AbstractSparse) else other
        return AbstractSparse(to_obj(self.dense * o))

    def _wrap(self, d):
        return AbstractSparse(san(d, "sparse"), self.format)

    def __getitem__(self, idx):
        idx = fix_index(idx)
        if isinstance(idx, tuple):
            # scipy semantics for A[rows, cols] with two arrays is pointwise, A[:, cols] slices
            r = self.dense[idx]
        else:
            r = self.dense[idx]
        if isinstance(r, np.ndarray):
            if r.ndim == 1:
                # row / column selection keeps 2-D shape in scipy
                if isinstance(idx, tuple) and len(idx) == 2 and isinstance(idx[1], (int, np.integer)) and not isinstance(idx[0], (int, np.integer)):
                    r = r.reshape(-1, 1)
                elif isinstance(idx, tuple) and len(idx) == 2 and isinstance(idx[0], np.ndarray) and isinstance(idx[1], np.ndarray):
                    return r  # pointwise
                else:
                    r = r.reshape(1, -1)
            return self._wrap(r)
        return r

    def __setitem__(self, idx, val):
        idx = fix_index(idx)
        if isinstance(val, AbstractSparse):
            val = val.dense
        array_setitem(self.dense, idx, val)

    def __add__(self, o):
        if isinstance(o, AbstractSparse):
            return self._wrap(self.dense + o.dense)
        if isinstance(o, (int, Fraction, Poly)) and P(o) == 0:
            return self
        return san(self.dense + to_obj(o), "sparse+dense")

    __radd__ = __add__

    def __sub__(self, o):
        if isinstance(o, AbstractSparse):
            return self._wrap(self.dense - o.dense)
        return san(self.dense - to_obj(o), "sparse-dense")

    def __rsub__(self, o):
        return san(to_obj(o) - self.dense, "dense-sparse")

    def __neg__(self):
        return self._wrap(-self.dense)

    def __mul__(self, o):
        if isinstance(o, (int, Fraction, Poly)):
            return self._wrap(self.dense * P(o))
        if isinstance(o, AbstractSparse):
            return self._wrap(matmul(self.dense, o.dense))
        if isinstance(o, np.ndarray):
            if o.ndim == 0:
                return self._wrap(self.dense * P(o.item()))
            return matmul(self.dense, o)
        return NotImplemented

    def __rmul__(self, o):
        if isinstance(o, (int, Fraction, Poly)):
            return self._wrap(self.dense * P(o))
        return NotImplemented

    def __imul__(self, o):
        # scipy.sparse: multiplication by a scalar in place scales the stored data of *this* matrix (every alias sees it)
        if isinstance(o, (int, float, Fraction, Poly)) or (isinstance(o, np.ndarray) and o.ndim == 0):
            self.dense[...] = self.dense * P(o.item() if isinstance(o, np.ndarray) else o)
            return self
        return NotImplemented

    def __itruediv__(self, o):
        if isinstance(o, (int, float, Fraction, Poly)) or (isinstance(o, np.ndarray) and o.ndim == 0):
            self.dense[...] = self.dense / P(o.item() if isinstance(o, np.ndarray) else o)
            return self
        return NotImplemented

    def __truediv__(self, o):
        return self._wrap(self.dense / P(o))

    def __matmul__(self, o):
        if isinstance(o, AbstractSparse):
            return self._wrap(matmul(self.dense, o.dense))
        return matmul(self.dense, to_obj(asarray(o)))

    def __rmatmul__(self, o):
        return matmul(to_obj(asarray(o)), self.dense)

    def __repr__(self):
        return "<abstract sparse %s>" % (self.dense.shape,)


def _sparse_ctor(fmt):
    def ctor(arg1, shape=None, dtype=None, copy=False):
        if isinstance(arg1, AbstractSparse):
            return AbstractSparse(arg1.dense.copy(), fmt)
        if isinstance(arg1, np.ndarray):
            d = to_obj(arg1)
            if d.ndim == 1:
                d = d.reshape(1, -1)
            return AbstractSparse(d.copy(), fmt)
        if isinstance(arg1, tuple) and len(arg1) == 2 and isinstance(arg1[1], (tuple, list)) and len(arg1[1]) == 2:
            vals, (rows, cols) = arg1
            vals = to_obj(asarray(vals)).reshape(-1)
            rows = to_int_array(asarray(rows)).reshape(-1)
            cols = to_int_array(asarray(cols)).reshape(-1)
            if not (len(vals) == len(rows) == len(cols)):
                raise Modelled(ValueError("row, column, and data array must all be the same length"))
            if shape is None:
                shape = (int(rows.max()) + 1 if len(rows) else 0, int(cols.max()) + 1 if len(cols) else 0)
            shape = _shape(shape)
            if len(rows) and (rows.min() < 0 or cols.min() < 0):
                raise Modelled(ValueError("negative index found"))
            if len(rows) and (rows.max() >= shape[0] or cols.max() >= shape[1]):
                raise Modelled(ValueError("index exceeds matrix dimensions"))
            d = _filled(shape, 0, "float")
            for v, r, c in zip(vals, rows, cols):
                d[r, c] = d[r, c] + v
            SPARSE_LOG.append((fmt, shape, len(vals)))
            return AbstractSparse(d, fmt)
        if isinstance(arg1, tuple) and len(arg1) == 2 and all(isinstance(x, (int, np.integer, Fraction, Poly)) for x in arg1):
            return AbstractSparse(_filled(_shape(arg1), 0, "float"), fmt)
        if isinstance(arg1, (list, tuple)):
            return ctor(array(arg1), shape=shape)
        raise Undecided("sparse constructor argument %r" % type(arg1).__name__)

    ctor.__name__ = fmt + "_matrix"
    return ctor


def _sp_dense(b):
    if isinstance(b, AbstractSparse):
        return b.dense
    if b is None:
        return None
    if isinstance(b, (int, Fraction, Poly)):
        # scipy turns a scalar block into a 1x1 matrix
        r = np.empty((1, 1), dtype=object)
        r[0, 0] = P(b)
        return r
    return to_obj(asarray(b))


def sp_bmat(blocks, format=None, dtype=None):
    if isinstance(blocks, np.ndarray):
        blocks = [[blocks[i, j] for j in range(blocks.shape[1])] for i in range(blocks.shape[0])]
    rows = [[_sp_dense(b) for b in row] for row in blocks]
    nr, nc = len(rows), len(rows[0])
    heights = [None] * nr
    widths = [None] * nc
    for i in range(nr):
        for j in range(nc):
            b = rows[i][j]
            if b is not None:
                if heights[i] is not None and heights[i] != b.shape[0]:
                    raise Modelled(ValueError("blocks[%d,:] has incompatible row dimensions" % i))
                if widths[j] is not None and widths[j] != b.shape[1]:
                    raise Modelled(ValueError("blocks[:,%d] has incompatible column dimensions" % j))
                heights[i] = b.shape[0]
                widths[j] = b.shape[1]
    if None in heights or None in widths:
        raise ValueError("blocks must have at least one non-None entry per row/column")
    out = _filled((sum(heights), sum(widths)), 0, "float")
    r0 = 0
    for i in range(nr):
        c0 = 0
        for j in range(nc):
            b = rows[i][j]
            if b is not None:
                out[r0:r0 + heights[i], c0:c0 + widths[j]] = b
            c0 += widths[j]
        r0 += heights[i]
    return AbstractSparse(out, format or "coo")


def sp_vstack(blocks, format=None, dtype=None):
    return sp_bmat([[b] for b in blocks], format=format)


def sp_hstack(blocks, format=None, dtype=None):
    return sp_bmat([list(blocks)], format=format)


def sp_issparse(x):
    return isinstance(x, AbstractSparse)


def sp_identity(n, **kw):
    return AbstractSparse(eye(n), kw.get("format", "dia"))


# ------------------------------------------------------------------------------------------
# module table
# ------------------------------------------------------------------------------------------
def _wrap_generic(fn, name):
    def g(*a, **k):
        a = [_prep(x) for x in a]
        k = {kk: _prep(v) for kk, v in k.items()}
        if "dtype" in k:
            kd = _kind_of(k["dtype"])
            k["dtype"] = {"float": object, "int": int, "bool": bool, "object": object, None: None}[kd]
        return san(fn(*a, **k), name)

    g.__name__ = name
    return g


def _prep(x):
    if isinstance(x, Fraction):
        return P(x)
    if isinstance(x, list):
        if x and _nested_kind(x) == "float":
            return _build_obj(_conv_nested(x)) if _is_regular(x) else [_prep(v) for v in x]
        return [_prep(v) for v in x]
    if isinstance(x, tuple):
        return tuple(_prep(v) for v in x)
    return x


def _is_regular(x):
    try:
        def shp(c):
            if isinstance(c, np.ndarray):
                return c.shape
            if isinstance(c, (list, tuple)):
                s = [shp(v) for v in c]
                if any(t != s[0] for t in s):
                    raise ValueError
                return (len(c),) + (s[0] if s else ())
            return ()
        shp(x)
        return True
    except ValueError:
        return False


_GENERIC = """
reshape ravel transpose swapaxes moveaxis rollaxis stack vstack hstack dstack concatenate tile repeat pad insert
append delete take roll flip fliplr flipud broadcast_to broadcast_arrays expand_dims squeeze nonzero flatnonzero
isin in1d setdiff1d union1d intersect1d triu_indices tril_indices triu tril diag diag_indices ix_ ndindex indices
meshgrid trace diagonal cross outer kron tensordot cumsum diff add subtract multiply divide true_divide negative
atleast_1d atleast_2d atleast_3d split array_split hsplit vsplit column_stack row_stack take_along_axis
put_along_axis unravel_index ravel_multi_index argwhere logical_and logical_or logical_not logical_xor any all
count_nonzero shape ndim size copy block einsum_path searchsorted bincount lexsort rot90 compress choose select
broadcast_shapes invert bitwise_and bitwise_or mod floor_divide cumprod iterable may_share_memory shares_memory resize trim_zeros
""".split()


class UFunc:
    """callable summary of a numpy ufunc with .reduce / .outer"""

    def __init__(self, name):
        self.name = name
        self.__name__ = name
        self._f = _wrap_generic(getattr(np, name), name)
        self._ufunc = getattr(np, name)

    def __call__(self, *a, **k):
        return self._f(*a, **k)

    def reduce(self, a, axis=0, **kw):
        a = asarray(a) if not isinstance(a, np.ndarray) else a
        return san(self._ufunc.reduce(a, axis=axis, **kw), self.name + ".reduce")

    def outer(self, a, b, **kw):
        return san(self._ufunc.outer(asarray(a), asarray(b), **kw), self.name + ".outer")

    def at(self, a, indices, b=None):
        """unbuffered in-place operation `a[indices] op= b`: repeated indices accumulate (numpy's own routine on the object array)"""
        if not isinstance(a, np.ndarray):
            raise Modelled(TypeError("first operand must be array"))
        if isinstance(indices, (list, tuple)) and all(not isinstance(i, (list, tuple, np.ndarray, slice)) for i in indices) and not isinstance(indices, tuple):
            indices = np.asarray([int(P(i)) for i in indices], dtype=int)
        bb = asarray(b) if isinstance(b, (np.ndarray, list, tuple)) else b
        if a.dtype != object and isinstance(bb, np.ndarray) and bb.dtype == object:
            raise Undecided("ufunc.at: symbolic values into a numeric array")
        if a.dtype == object and isinstance(bb, np.ndarray) and bb.dtype != object:
            bb = to_obj(bb)
        try:
            self._ufunc.at(a, indices, bb)
        except (IndexError, ValueError, TypeError) as e:
            raise Modelled(e)
        return None


def _np_any(a, axis=None, **kw):
    if isinstance(a, np.ndarray) and a.dtype == object:
        a = a != 0
    r = np.any(a, axis=axis, **kw)
    return san(r, "any")


def _np_all(a, axis=None, **kw):
    if isinstance(a, np.ndarray) and a.dtype == object:
        a = a != 0
    return san(np.all(a, axis=axis, **kw), "all")


def _leggauss(n):
    from . import numeric

    return numeric.leggauss(int(P(n)))


def _vectorize(f, **kw):
    raise Undecided("np.vectorize")


def _floor(x, **kw):
    import math

    return _elementwise(lambda v: Poly.const(math.floor(v.const_value())), "floor")(x)


def _ceil(x, **kw):
    import math

    return _elementwise(lambda v: Poly.const(math.ceil(v.const_value())), "ceil")(x)


def _np_float(x=0):
    from .interp import _to_float

    if isinstance(x, np.ndarray):
        return to_obj(x)
    return _to_float(x)


def _np_int(x=0):
    from .interp import _to_int

    return _to_int(x)


class ContractViolation(Exception):
    """the analysed code calls a third-party function outside its documented precondition: the result is unspecified"""


def _unique_contract(name):
    inner = _wrap_generic(getattr(np, name), name)

    def f(a, b, *args, **kw):
        if kw.get("assume_unique"):
            for arr, what in ((a, "first"), (b, "second")):
                flat = np.asarray(arr).reshape(-1).tolist()
                if len(set(map(str, flat))) != len(flat):
                    raise Modelled(ContractViolation("numpy.%s(assume_unique=True) is called with a %s argument that has repeated elements: "
                                                     "numpy leaves the result unspecified (the sort-based path gives wrong answers)" % (name, what)))
        return inner(a, b, *args, **kw)

    f.__name__ = name
    return f


def externals(it):
    from .interp import TypeMarker, T_FLOAT, T_INT, T_BOOL, Opaque

    ns = {}
    for name in _GENERIC:
        if hasattr(np, name):
            ns[name] = _wrap_generic(getattr(np, name), name)
    for name in ("isin", "in1d", "setdiff1d", "intersect1d"):
        if hasattr(np, name):
            ns[name] = _unique_contract(name)
    for name in ("logical_and", "logical_or", "logical_xor", "add", "multiply", "subtract", "bitwise_and", "bitwise_or"):
        ns[name] = UFunc(name)
    ns.update(
        array=array, asarray=asarray, asanyarray=asarray, ascontiguousarray=asarray, zeros=zeros, ones=ones, empty=empty,
        full=full, zeros_like=zeros_like, ones_like=ones_like, empty_like=empty_like, full_like=full_like, eye=eye,
        identity=identity, arange=arange, linspace=linspace, einsum=einsum, matmul=matmul, dot=dot, sqrt=sqrt, cbrt=cbrt,
        log=log, exp=exp, abs=np_abs, absolute=np_abs, fabs=np_abs, sign=sign, sinh=sinh, cosh=cosh, tanh=tanh, sin=sin,
        cos=cos, tan=tan, arctan=arctan, arcsin=arcsin, arccos=arccos, square=square, reciprocal=reciprocal, power=np_power,
        float_power=np_power, maximum=maximum, minimum=minimum, isclose=isclose, allclose=allclose, array_equal=array_equal,
        where=where, max=_reduce_cmp("max"), amax=_reduce_cmp("max"), min=_reduce_cmp("min"), amin=_reduce_cmp("min"),
        argmax=_argreduce("argmax"), argmin=_argreduce("argmin"), unique=unique, sort=sort, argsort=argsort,
        round=np_round, around=np_round, sum=np_sum, mean=np_mean, average=np_average, prod=np_prod, product=np_prod,
        isnan=isnan, isfinite=isfinite, isinf=isinf, deg2rad=deg2rad, rad2deg=rad2deg, radians=deg2rad, degrees=rad2deg,
        any=_np_any, all=_np_all, floor=_floor, ceil=_ceil, vectorize=_vectorize,
        isscalar=lambda x: isinstance(x, (int, Fraction, Poly, np.integer, np.bool_, bool, str)),
        pi=ring.pi(), newaxis=None, nan=ring.sym("NaN"), inf=INF, e=ring.fun_atom("Exp", ONE),
        ndarray=np.ndarray, generic=np.generic,
        float64=TypeMarker("float64", _np_float, lambda x: isinstance(x, (Fraction, Poly))),
        float32=TypeMarker("float32", _np_float, lambda x: False),
        float16=TypeMarker("float16", _np_float, lambda x: False),
        floating=TypeMarker("floating", _np_float, lambda x: isinstance(x, (Fraction, Poly))),
        int64=TypeMarker("int64", _np_int, lambda x: isinstance(x, np.integer)),
        int32=TypeMarker("int32", _np_int, lambda x: False),
        int_=TypeMarker("int", _np_int, lambda x: isinstance(x, np.integer)),
        integer=TypeMarker("integer", _np_int, lambda x: isinstance(x, np.integer)),
        intp=TypeMarker("int", _np_int, lambda x: isinstance(x, np.integer)),
        bool_=T_BOOL, number=TypeMarker("number", _np_float, lambda x: isinstance(x, (Fraction, Poly, np.integer))),
        errstate=lambda **k: NullContext(), seterr=lambda **k: {}, dtype=lambda x: DType(_kind_of(x)),
        finfo=lambda *a: _finfo(), s_=np.s_, index_exp=np.index_exp,
    )
    linalg = ExtModule("numpy.linalg", dict(
        inv=linalg_inv, solve=linalg_solve, det=linalg_det, norm=linalg_norm,
        eig=_opaque_linalg("eig", 2), eigh=_opaque_linalg("eigh", 2), eigvals=_opaque_linalg("eigvals", 1),
        eigvalsh=_opaque_linalg("eigvalsh", 1), LinAlgError=ArithmeticError,
    ))
    ns["linalg"] = linalg
    legendre = ExtModule("numpy.polynomial.legendre", dict(leggauss=_leggauss))
    ns["polynomial"] = ExtModule("numpy.polynomial", dict(legendre=legendre))
    ns["random"] = Opaque("numpy.random")
    ns["testing"] = Opaque("numpy.testing")
    npm = ExtModule("numpy", ns)

    sparse = ExtModule("scipy.sparse", dict(
        csr_matrix=_sparse_ctor("csr"), csc_matrix=_sparse_ctor("csc"), coo_matrix=_sparse_ctor("coo"),
        lil_matrix=_sparse_ctor("lil"), csr_array=_sparse_ctor("csr"), coo_array=_sparse_ctor("coo"),
        bmat=sp_bmat, vstack=sp_vstack, hstack=sp_hstack,
        issparse=sp_issparse, identity=sp_identity, eye=sp_identity, spmatrix=AbstractSparse, sparray=AbstractSparse,
    ))
    sparse.ns["linalg"] = ExtModule("scipy.sparse.linalg", dict(spsolve=Opaque("spsolve"), eigsh=Opaque("eigsh")))
    special = ExtModule("scipy.special", dict(factorial=_factorial, erf=erf))
    def _griddata(points, values, xi, method="linear", **kw):
        """scipy.interpolate.griddata for one-dimensional sites with exact (constant) coordinates: piecewise linear interpolation of the
        values (any trailing shape) at the sites; the general scattered-data case is not summarised"""
        pts = to_obj(asarray(points))
        if pts.ndim != 1 or method != "linear":
            raise Undecided("scipy.interpolate.griddata: only 1-D sites with linear interpolation are summarised")
        xs = [P(v).const_value() for v in pts]
        vals = to_obj(asarray(values))
        order = sorted(range(len(xs)), key=lambda k: xs[k])
        xq = to_obj(asarray(xi)).reshape(-1)
        out = np.empty((len(xq),) + vals.shape[1:], dtype=object)
        for n_, q in enumerate(xq):
            qv = P(q).const_value()
            if qv < xs[order[0]] or qv > xs[order[-1]]:
                out[n_] = ring.sym("NaN")
                continue
            for a, b in zip(order[:-1], order[1:]):
                if xs[a] <= qv <= xs[b]:
                    t = Fraction(qv - xs[a], xs[b] - xs[a])
                    out[n_] = vals[a] * (1 - t) + vals[b] * t
                    break
        return out

    interpolate = ExtModule("scipy.interpolate", dict(griddata=_griddata))
    scipy = ExtModule("scipy", dict(sparse=sparse, special=special,
                                    interpolate=interpolate, optimize=Opaque("scipy.optimize")))

    def _warn(msg=None, *a, **k):
        it.events.append(("warn", str(msg)[:200], it.where()))

    warnings = ExtModule("warnings", dict(warn=_warn, catch_warnings=lambda **k: NullContext(), simplefilter=lambda *a, **k: None,
                                          filterwarnings=lambda *a, **k: None))
    import string as _string
    import copy as _copy

    def _deepcopy(x, memo=None):
        return deep_copy(x)

    def _shallow(x):
        if isinstance(x, np.ndarray):
            return x.copy()
        from .interp import Instance

        if isinstance(x, Instance):
            n = Instance(x.cls)
            n.attrs.update(x.attrs)
            return n
        return _copy.copy(x)

    def _wraps(f):
        return lambda g: g

    def _namedtuple(name, fields, **kw):
        if isinstance(fields, str):
            fields = fields.replace(",", " ").split()
        import collections

        return collections.namedtuple(name, fields, **kw)

    mods = {
        "numpy": npm, "numpy.linalg": linalg, "numpy.polynomial": ns["polynomial"], "numpy.polynomial.legendre": legendre,
        "scipy": scipy, "scipy.sparse": sparse, "scipy.sparse.linalg": sparse.ns["linalg"], "scipy.special": special, "scipy.interpolate": interpolate,
        "einsumt": ExtModule("einsumt", dict(einsumt=einsumt)),
        "warnings": warnings,
        "string": ExtModule("string", dict(ascii_lowercase=_string.ascii_lowercase, ascii_uppercase=_string.ascii_uppercase,
                                           ascii_letters=_string.ascii_letters)),
        "copy": ExtModule("copy", dict(deepcopy=_deepcopy, copy=_shallow)),
        "functools": ExtModule("functools", dict(wraps=_wraps, partial=_partial, reduce=_reduce, lru_cache=_lru_cache, cache=_lru_cache(None))),
        "collections": ExtModule("collections", dict(namedtuple=_namedtuple)),
        "itertools": ExtModule("itertools", dict(product=lambda *a, **k: list(itertools.product(*a, **k)),
                                                 combinations=lambda *a: list(itertools.combinations(*a)),
                                                 permutations=lambda *a: list(itertools.permutations(*a)),
                                                 chain=lambda *a: list(itertools.chain(*a)),
                                                 groupby=lambda xs, key=None: [(k, list(g)) for k, g in itertools.groupby(list(xs), key)])),
        "types": ExtModule("types", dict(SimpleNamespace=_simple_namespace)),
        "inspect": ExtModule("inspect", dict(signature=_signature)),
        "math": ExtModule("math", dict(pi=ring.pi(), sqrt=sqrt, ceil=lambda x: int(_ceil(x)), floor=lambda x: int(_floor(x)),
                                       factorial=lambda n: _factorial(n, exact=True))),
        "os": Opaque("os"), "sys": Opaque("sys"),
        "threading": ExtModule("threading", dict(Thread=ThreadSummary)),
    }
    return mods


class _finfo:
    eps = ring.sym("EPS", positive=True)


def _partial(f, *a, **k):
    def g(*b, **kk):
        d = dict(k)
        d.update(kk)
        return f(*(a + b), **d)

    return g


def _lru_cache(maxsize=128, typed=False):
    """functools.lru_cache / cache: a memoising wrapper -- a repeated call returns the *same object* (whoever changes it in place changes it for
    every later caller)"""
    def deco(f):
        memo = {}

        def wrapper(*a, **k):
            try:
                key = (tuple(a), tuple(sorted(k.items())))
                hash(key)
            except TypeError:
                raise Undecided("lru_cache with unhashable arguments")
            if key not in memo:
                memo[key] = f(*a, **k)
            return memo[key]

        wrapper.__name__ = getattr(f, "__name__", "cached")
        wrapper.cache_clear = memo.clear
        return wrapper

    if callable(maxsize) and not isinstance(maxsize, bool):
        f, maxsize = maxsize, 128
        return deco(f)
    return deco


def _reduce(f, xs, *init):
    import functools

    return functools.reduce(f, xs, *init)


def _simple_namespace(**kw):
    n = _Namespace()
    for k, v in kw.items():
        setattr(n, k, v)
    return n


def _signature(f):
    from .interp import FunctionValue, BoundMethod

    skip = 0
    if isinstance(f, BoundMethod):
        f = f.fn
        skip = 1
    if isinstance(f, FunctionValue):
        a = f.node.args
        names = [p.arg for p in getattr(a, "posonlyargs", [])] + [p.arg for p in a.args] + [p.arg for p in a.kwonlyargs]
        names = names[skip:]
        if a.vararg is not None:
            names.append(a.vararg.arg)
        if a.kwarg is not None:
            names.append(a.kwarg.arg)
        ns = _Namespace()
        ns.parameters = {n: n for n in names}
        return ns
    import inspect

    try:
        sig = inspect.signature(f)
    except (TypeError, ValueError):
        raise Undecided("inspect.signature of %r" % (f,))
    ns = _Namespace()
    ns.parameters = {n: n for n in sig.parameters}
    return ns


def _factorial(n, exact=False):
    import math

    if isinstance(n, np.ndarray):
        ia = to_int_array(n) if n.dtype == object else n
        out = np.empty(ia.shape, dtype=object)
        fo = out.reshape(-1)
        for i, v in enumerate(ia.reshape(-1)):
            fo[i] = Poly.const(math.factorial(int(v)))
        return out
    v = math.factorial(int(P(n)))
    return v if exact else Fraction(v)


class ThreadSummary:
    """threading.Thread summary: records target/args; start() runs the target immediately
    (the race-freedom obligation is a separate lint, C02.O8)"""

    LOG = []

    def __init__(self, target=None, args=(), kwargs=None, **kw):
        self.target = target
        self.args = tuple(args)
        self.kwargs = kwargs or {}
        self.started = False
        self.joined = False
        ThreadSummary.LOG.append(self)

    def start(self):
        self.started = True
        self.target(*self.args, **self.kwargs)

    def join(self, *a):
        self.joined = True


def deep_copy(x, memo=None):
    from .interp import Instance, BoundMethod

    if memo is None:
        memo = {}
    if id(x) in memo:
        return memo[id(x)]
    if isinstance(x, BoundMethod):
        # copy.deepcopy re-binds a bound method to the copy of its object (an instance that stores `self.alias = self.method`)
        return BoundMethod(deep_copy(x.obj, memo), x.fn)
    if isinstance(x, np.ndarray):
        r = x.copy()
    elif isinstance(x, Instance):
        r = Instance(x.cls)
        memo[id(x)] = r
        for k, v in x.attrs.items():
            r.attrs[k] = deep_copy(v, memo)
        return r
    elif isinstance(x, list):
        r = [deep_copy(v, memo) for v in x]
    elif isinstance(x, tuple):
        r = tuple(deep_copy(v, memo) for v in x)
    elif isinstance(x, dict):
        r = {k: deep_copy(v, memo) for k, v in x.items()}
    elif isinstance(x, AbstractSparse):
        r = x.copy()
    else:
        r = x
    memo[id(x)] = r
    return r
