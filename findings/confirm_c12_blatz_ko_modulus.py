"""C12.O6: blatz_ko (both backends) -- documented psi = mu/2 (I2/I3 + 2 sqrt(I3) - 5) with mu 'the shear modulus'; the code had mu (...):
the tangent at the undeformed state had the shear modulus 2 mu.  Run with felupe on sys.path (before / after the fix)."""
import numpy as np
import felupe as fem
import felupe.constitution.tensortrax as mat

mu = 1.7
umat = mat.Hyperelastic(mat.models.hyperelastic.blatz_ko, mu=mu)
F = np.eye(3).reshape(3, 3, 1, 1)
A = umat.hessian([F, None])[0][..., 0, 0]
print("A_1212 =", A[0, 1, 0, 1], " A_1122 =", A[0, 0, 1, 1], " documented shear modulus", mu, "(lambda = mu at nu = 1/4)")
ok = abs(A[0, 1, 0, 1] - mu) < 1e-9 and abs(A[0, 0, 1, 1] - mu) < 1e-9
try:
    import felupe.constitution.jax as matj
    Aj = matj.Hyperelastic(matj.models.hyperelastic.blatz_ko, mu=mu).hessian([F, None])[0][..., 0, 0]
    print("jax A_1212 =", float(Aj[0, 1, 0, 1]))
    ok = ok and abs(float(Aj[0, 1, 0, 1]) - mu) < 1e-6
except ImportError:
    pass
print("OK" if ok else "DEFECT")
raise SystemExit(0 if ok else 1)
