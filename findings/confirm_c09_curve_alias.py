import numpy as np, felupe as fem
mesh = fem.Cube(n=3); region = fem.RegionHexahedron(mesh); field = fem.FieldContainer([fem.Field(region, dim=3)])
bounds, loadcase = fem.dof.uniaxial(field, clamped=True)
solid = fem.SolidBody(fem.NeoHooke(mu=1, bulk=2), field)
step = fem.Step([solid], ramp={bounds["move"]: fem.math.linsteps([0, 0.2], num=2)}, boundaries=bounds)
job = fem.CharacteristicCurve([step], boundary=bounds["move"]); job.evaluate(verbose=False)
x0 = np.array(job.x)[:, 0].copy()
field[0].fill(0)
x1 = np.array(job.x)[:, 0]
print("recorded displacements", x0, "after field[0].fill(0):", x1)
assert np.allclose(x0, x1)
