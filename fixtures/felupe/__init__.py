# synthetic modules used as canaries: each contains one seeded violation that a rule must flag
