"""C14 -- forces balance and load resultants equal the applied loads (DESIGN.md section 3, C14)."""

from fractions import Fraction

import numpy as np

from .. import ring, npmodel, micro
from ..ring import P, sym, is_zero, ZERO, ONE
from ..common import new_interp, symarray, finish_info, method_where
from .c01 import setup_fields
from .c02 import regions, diff_dense, ref_linear, ref_bilinear
from .c03 import OpaqueHyper
from .c17 import leibniz, cofactor

SPEC = dict(
    level="proof",
    rule="on the symbolic micro-instance whose basis satisfies the two facts C04/C06 prove for every real region (sum_a h_a == 1, "
    "sum_a dh_a/dX == 0, imposed as relations on the symbolic basis arrays): O1 the internal nodal forces of a solid body (arbitrary "
    "hyperelastic energy) sum to zero per component (axial component only when axisymmetric); O2 for a material with symmetric Kirchhoff "
    "stress (P = tau F^-T, tau an arbitrary symmetric tensor) the total moment sum_n x_n x f_n vanishes, where the basis reproduces the "
    "nodal positions (region built by Region.reload from source on a symbolic cell); O3 body force: the vector is the value form of "
    "scale * values on the first field and sums to scale * values * volume; O4 point load: exactly the given values in the rows of the "
    "loaded points of the chosen field (times 2 pi R when axisymmetric), zero elsewhere; O5 follower pressure: vector == sum N_a (-p) "
    "cof(F) N dA, multiplier -1; O6 mass matrix: Gram matrix of the first field, total mass rho * volume per direction; O7 multi-point "
    "constraint forces are self-equilibrated.",
    trusted_base=["C04.O4 / C06.O1 (partition of unity and its gradient on every region)", "C11.O1 (P F^T symmetric for each material)", "C02 (assembly)"],
    explanation="algebraic value numbering on the micro-instance; resultants as identities in the symbolic data",
    exhaustive=True,
    not_decided=["resultants as numbers on a concrete mesh"],
    assumptions=["real arithmetic"],
)

FLOORS = {}


def tasks(tier):
    ts = [("force balance", "run_balance", {}), ("moment balance", "run_moment", {}), ("loads", "run_loads", {}), ("pressure", "run_pressure", {}), ("mass", "run_mass", {})]
    # balance "for any deformed state" includes every later state of one body: what it assembles there is what a fresh body assembles
    for cfg in ("NeoHooke(bulk)", "Volumetric", "NeoHooke(mu,bulk)"):
        ts.append(("re-assembly %s" % cfg, "run_included", dict(modname="c01", fname="run_reassembly", kwargs=dict(cfg=cfg), oid="C14.O1",
                                                              why="force and moment balance are shown for the stress of the current state; a body that carries stress over from an earlier evaluation loses them")))
    # "-p times the integrated current area vector, which vanishes on a closed surface": the loaded faces are those the boundary region selects --
    # the outline, or with only_surface=False every face of every cell (interior faces twice, once from each side, so that they cancel)
    from . import c13
    for ct, fn_, el_, n_ in c13.TABLES:
        if ct in ("quad", "hexahedron"):
            ts.append(("loaded faces %s" % ct, "run_included", dict(modname="c13", fname="run_selection", kwargs=dict(cell_type=ct, elname=el_, nnodes=n_), oid="C14.O10", select_oid="C13.O4",
                                                                   why="the pressure resultant is minus p times the area vector of exactly the selected faces: a face dropped or kept against the documented selection changes it")))
    ts.append(("multi-point constraints and contact", "run_included", dict(modname="c01", fname="run_multipoint", kwargs={}, oid="C14.O7",
                                                                          why="self-equilibrated constraint forces in every configuration (skip tuples, centre point among the points, contact with zero initial gap)")))
    # body forces, mass and pressure resultants rest on the array forms; on a uniform-grid region (one evaluated cell, broadcast to all cells)
    # the one cell's values have to reach the slots of every cell
    ts.append(("array forms on a uniform-grid region", "run_included", dict(modname="c02", fname="run_uniform", kwargs={}, oid="C14.O8",
                                                                           why="the resultant of a body force / the total mass on a region built with uniform=True is the sum over all cells of the one evaluated cell's contribution")))
    # resultants (rho g V, rho V, -p times the area vector) are sums over quadrature points: each point has to carry its own weight, also in
    # the permuted (cell-point ordered) rules of the quadratic quads / hexahedra and their boundary rules
    for cn, mn, cfgs in (("GaussLegendre", "felupe.quadrature._gauss_legendre", [dict(order=2, dim=2, permute=True), dict(order=2, dim=3, permute=True), dict(order=3, dim=2, permute=True)]),
                         ("GaussLegendreBoundary", "felupe.quadrature._gauss_legendre", [dict(order=2, dim=3, permute=True)])):
        ts.append(("quadrature rule %s" % cn, "run_included", dict(modname="c05", fname="run_scheme", kwargs=dict(modname=mn, clsname=cn, cfgs=cfgs, tier=tier), oid="C14.O9", select_oid="C05.O1",
                                                                 why="body-force, mass and pressure resultants on distorted quadratic cells are exact only if every quadrature point of the permuted rule carries the weight that belongs to it")))
    return ts


def impose_partition_of_unity(ra):
    na = ra.h.shape[0]
    for q in range(ra.h.shape[1]):
        ra.h[na - 1, q, 0] = ONE - sum((ra.h[a, q, 0] for a in range(na - 1)), ZERO)
    for idx in np.ndindex(*ra.dhdX.shape[1:]):
        ra.dhdX[(na - 1,) + idx] = -sum((ra.dhdX[(a,) + idx] for a in range(na - 1)), ZERO)


def _fields(it, kind, mixed=0, nq=2):
    """like c01.setup_fields but with a basis that is a partition of unity"""
    from .c01 import setup_fields as sf
    import fverif.props.c02 as c02mod

    orig = c02mod.regions

    def patched(d, uniform=False, nq=2):
        ra, rb = orig(d, uniform=uniform, nq=nq)
        impose_partition_of_unity(ra)
        return ra, rb

    import fverif.props.c01 as c01mod
    c01mod.regions = patched
    try:
        return sf(it, kind, mixed, nq=nq)
    finally:
        c01mod.regions = orig


def run_balance(col):
    for kind in ("Field2", "Field3", "PlaneStrain", "Axisymmetric"):
        it = new_interp()
        fc, unknowns, (ra, rb), d, tdim = _fields(it, kind)
        body = it.call(it.get("felupe.mechanics._solidbody:SolidBody"), [], dict(umat=OpaqueHyper("Wm", dim=tdim), field=fc))
        r = micro.dense(it.call(it.getattr(it.getattr(body, "assemble"), "vector"), [fc], {}))
        comps = range(d) if kind != "Axisymmetric" else [0]
        bad = [i for i in comps if not is_zero(sum((P(r[d * n + i, 0]) for n in range(ra.mesh.npoints)), ZERO))]
        col.add("C14.O1", "SolidBody[%s] force balance" % kind, "internal nodal forces sum to zero per component (axial component for axisymmetric bodies)", not bad, "components %s" % bad)
        if kind == "Axisymmetric":
            rad = sum((P(r[d * n + 1, 0]) for n in range(ra.mesh.npoints)), ZERO)
            col.add("C14.O1", "SolidBody[Axisymmetric] radial resultant", "the radial resultant is the hoop contribution only (non-zero in general: no balance claimed)", bool(rad.t), nontrivial=False)
        col.info.setdefault("files_consulted", {}).update(it.files_read)


def run_moment(col):
    """region from Region.reload (source) on a symbolic cell, so that the basis reproduces positions; material with symmetric Kirchhoff stress"""
    from .c06 import make_region
    it = new_interp()
    reg, mesh, el, qd = make_region(it, 2, 3, 1, 1)
    F_ = it.get("felupe.field._base:Field")
    f0 = it.call(F_, [reg], dict(dim=2))
    U = symarray("U", (3, 2))
    it.setattr(f0, "values", U)
    fc = micro.container(it, [f0])

    class KirchhoffMat:
        """P = tau F^-T with an arbitrary symmetric tau (every objective material has this form, C11.O1)"""

        def __init__(self):
            self.x = [npmodel.eye(2), npmodel.zeros(0)]

        def gradient(self, x):
            F = x[0]
            Pm = np.empty(F.shape, dtype=object)
            for t in np.ndindex(*F.shape[2:]):
                tau = np.empty((2, 2), dtype=object)
                for i in range(2):
                    for j in range(2):
                        tau[i, j] = sym("tau%d%d_%s" % (min(i, j), max(i, j), "_".join(map(str, t))))
                Fm = F[(slice(None), slice(None)) + t]
                det = leibniz(Fm)
                for i in range(2):
                    for J in range(2):
                        Pm[(i, J) + t] = sum((tau[i, k] * cofactor(Fm, k, J) for k in range(2)), ZERO) * ring.inv(det)
            return [Pm, x[-1]]

        def hessian(self, x):
            raise AssertionError("not needed")

    body = it.call(it.get("felupe.mechanics._solidbody:SolidBody"), [], dict(umat=KirchhoffMat(), field=fc))
    r = micro.dense(it.call(it.getattr(it.getattr(body, "assemble"), "vector"), [fc], {}))
    X = mesh.points
    mom = ZERO
    for n in range(3):
        x0, x1 = X[n, 0] + U[n, 0], X[n, 1] + U[n, 1]
        mom = mom + x0 * P(r[2 * n + 1, 0]) - x1 * P(r[2 * n, 0])
    col.add("C14.O2", "SolidBody moment balance", "for a symmetric Kirchhoff stress the internal nodal forces have zero total moment about the origin (and, with the force balance, about any point)", is_zero(mom),
            "moment %s" % ring.fmt(mom, 4))
    fs = [sum((P(r[2 * n + i, 0]) for n in range(3)), ZERO) for i in range(2)]
    col.add("C14.O1", "SolidBody force balance (region from Region.reload)", "forces sum to zero on a region built by Region.reload on a symbolic cell", all(is_zero(v) for v in fs))
    finish_info(col, it)


def run_loads(col):
    it = new_interp()
    for mixed in (0, 1):
        fc, unknowns, (ra, rb), d, tdim = _fields(it, "Field2", mixed=mixed)
        n = len(unknowns)
        vol = sum((ra.dV[q, c] for q in range(ra.dV.shape[0]) for c in range(ra.dV.shape[1])), ZERO)
        b = [sym("b0"), sym("b1")]
        rho = sym("rho", True)
        for cname, mod, kw in (("SolidBodyForce", "_solidbody_force", dict(values=b, scale=rho)), ("SolidBodyGravity", "_solidbody_gravity", dict(gravity=b, density=rho))):
            cls = it.get("felupe.mechanics.%s:%s" % (mod, cname))
            item = it.call(cls, [fc], kw)
            r = micro.dense(it.call(it.getattr(it.getattr(item, "assemble"), "vector"), [fc], {}))
            want = ref_linear(ra, d, lambda i, J, q, c: rho * b[i], False)
            bad = diff_dense(r[: ra.mesh.npoints * d], want)
            tail_zero = all(not P(v).t for v in r[ra.mesh.npoints * d:].reshape(-1))
            col.add("C14.O3", "%s vector (%d extra fields)" % (cname, mixed), "value form of scale * values on the first field; rows of further fields are zero", not bad and tail_zero and r.shape == (n, 1), "; ".join(bad))
            tot = [sum((P(r[d * p + i, 0]) for p in range(ra.mesh.npoints)), ZERO) for i in range(d)]
            col.add("C14.O3", "%s resultant (%d extra fields)" % (cname, mixed), "nodal forces sum to density * acceleration * volume", all(is_zero(tot[i] - rho * b[i] * vol) for i in range(d)))
        # ramped loads: items are created with integer zeros (a common idiom) and updated with the substep's values
        newv = [Fraction(7, 2), Fraction(-5, 2)]
        for cname, mod, kw in (("SolidBodyForce", "_solidbody_force", dict(values=[0, 0], scale=rho)), ("SolidBodyGravity", "_solidbody_gravity", dict(gravity=[0, 0], density=rho))):
            cls = it.get("felupe.mechanics.%s:%s" % (mod, cname))

            def chk(cls=cls, kw=kw):
                item = it.call(cls, [fc], kw)
                it.call(it.getattr(it.getattr(item, "assemble"), "vector"), [fc], {})
                it.call_method(item, "update", [list(newv)])
                r = micro.dense(it.call(it.getattr(it.getattr(item, "assemble"), "vector"), [fc], {}))
                tot = [sum((P(r[d * p + i, 0]) for p in range(ra.mesh.npoints)), ZERO) for i in range(d)]
                return all(is_zero(tot[i] - rho * newv[i] * vol) for i in range(d)), "%s: resultant %s for values %s" % (method_where(cls, "update"), [str(t) for t in tot], [str(v) for v in newv])
            col.check("C14.O3", "%s resultant after update (%d extra fields)" % (cname, mixed), "after update(values) the nodal forces sum to density * (the new values) * volume, whatever the item was created with", chk)
        cls = it.get("felupe.mechanics._pointload:PointLoad")
        vals = symarray("pl", (2, d))
        pts = [2, 0]
        for axi in (False, True):
            item = it.call(cls, [fc, pts], dict(values=vals, axisymmetric=axi))
            r = micro.dense(it.call(it.getattr(it.getattr(item, "assemble"), "vector"), [fc], {}))
            bad = []
            for k in range(n):
                want = ZERO
                if k < ra.mesh.npoints * d and (k // d) in pts:
                    want = vals[pts.index(k // d), k % d]
                    if axi:
                        want = want * 2 * ring.pi() * ra.mesh.points[k // d, 1]
                if not is_zero(P(r[k, 0]) - want):
                    bad.append(k)
            def chk_pl(item=item, axi=axi):
                nv = symarray("pl2", (2, d))
                it.call_method(item, "update", [nv])
                r2 = micro.dense(it.call(it.getattr(it.getattr(item, "assemble"), "vector"), [fc], {}))
                fresh = it.call(cls, [fc, pts], dict(values=nv, axisymmetric=axi))
                rf = micro.dense(it.call(it.getattr(it.getattr(fresh, "assemble"), "vector"), [fc], {}))
                bad2 = diff_dense(r2, rf)
                return not bad2, "%s: %s" % (method_where(cls, "update"), "; ".join(b[:120] for b in bad2[:2]))
            col.check("C14.O4", "PointLoad update (axisymmetric=%s, %d extra fields)" % (axi, mixed), "after update(values) the item assembles the vector of a fresh item with those values and the same points / flags", chk_pl)
            def chk_moved(axi=axi):
                # the public attribute `points` re-assigned after a first assembly (a load that travels along an edge): nothing of the first points survives
                npt = ra.mesh.npoints
                cand = [q for q in range(npt) if q not in pts]
                far = [q for q in cand if not is_zero(P(ra.mesh.points[q, 1]) - P(ra.mesh.points[pts[0], 1]))] + cand
                pts_b = (far + list(pts))[:2]
                mv = it.call(cls, [fc, pts], dict(values=vals, axisymmetric=axi))
                it.call(it.getattr(it.getattr(mv, "assemble"), "vector"), [fc], {})
                it.setattr(mv, "points", list(pts_b))
                it.call_method(mv, "update", [vals])
                r2 = micro.dense(it.call(it.getattr(it.getattr(mv, "assemble"), "vector"), [fc], {}))
                fresh = it.call(cls, [fc, list(pts_b)], dict(values=vals, axisymmetric=axi))
                rf = micro.dense(it.call(it.getattr(it.getattr(fresh, "assemble"), "vector"), [fc], {}))
                bad2 = diff_dense(r2, rf)
                return not bad2, "mechanics/_pointload.py PointLoad._vector after `load.points = %s`: %s" % (pts_b, "; ".join(b[:120] for b in bad2[:2]))
            col.check("C14.O4", "PointLoad points re-assigned after an assembly (axisymmetric=%s, %d extra fields)" % (axi, mixed), "after `load.points = other points` and update(values) the item assembles the vector of a fresh item on those points (2 pi R of the current points when axisymmetric)", chk_moved)
            col.add("C14.O4", "PointLoad vector (axisymmetric=%s, %d extra fields)" % (axi, mixed), "exactly the given values in the rows of the loaded points (times 2 pi R when axisymmetric), zeros elsewhere", not bad and r.shape == (n, 1), "rows %s" % bad)
        # documented alternative spellings: ids counted from the end, one scalar for every component, no values at all
        npts_ = ra.mesh.npoints
        for pts2, vals2, what in (([-1, 0], symarray("pn", (2, d)), "negative id"), ([1], sym("qs"), "scalar value"), ([2, 1], None, "values=None"),
                                  (np.array([0, 2]), symarray("pr", (d,)), "one row for all points")):
            def chk_alt(pts2=pts2, vals2=vals2):
                item = it.call(cls, [fc, pts2], dict(values=vals2))
                r = micro.dense(it.call(it.getattr(it.getattr(item, "assemble"), "vector"), [fc], {}))
                ids = [int(q) % npts_ for q in pts2]
                bad = []
                for k in range(n):
                    want = ZERO
                    if k < npts_ * d and (k // d) in ids and vals2 is not None:
                        v = np.asarray(npmodel.to_obj(np.asarray(vals2)))
                        want = P(v[ids.index(k // d), k % d]) if v.ndim == 2 else (P(v[k % d]) if v.ndim == 1 else P(vals2))
                    if not is_zero(P(r[k, 0]) - want):
                        bad.append(k)
                return not bad and r.shape == (n, 1), "mechanics/_pointload.py PointLoad._vector: rows %s" % bad
            col.check("C14.O4", "PointLoad %s (%d extra fields)" % (what, mixed), "the given values land in the rows of the addressed points (ids from the end, scalars and single rows broadcast, None is a zero load)", chk_alt)
        if not mixed:
            def chk_dup():
                # a point id listed twice: "a point load [assembles] to exactly its values" -- the nodal vector carries every given row
                vd = symarray("pd", (3, d))
                item = it.call(cls, [fc, [0, 0, 1]], dict(values=vd))
                r = micro.dense(it.call(it.getattr(it.getattr(item, "assemble"), "vector"), [fc], {}))
                tot = [sum((P(r[d * p_ + i, 0]) for p_ in range(ra.mesh.npoints)), ZERO) for i in range(d)]
                want = [vd[0, i] + vd[1, i] + vd[2, i] for i in range(d)]
                return all(is_zero(tot[i] - want[i]) for i in range(d)), "mechanics/_pointload.py PointLoad._vector: `force[points] += values` with a repeated index adds one of the rows only: resultant %s for rows summing to %s" % ([str(t) for t in tot], [str(w_) for w_ in want])
            col.check("C14.O4", "PointLoad:point-id-listed-twice", "the nodal forces of a point load sum to the sum of its given rows, also when a point is listed more than once", chk_dup)
        if mixed:
            item = it.call(cls, [fc, [1]], dict(values=[[sym("q")]], apply_on=1))
            r = micro.dense(it.call(it.getattr(it.getattr(item, "assemble"), "vector"), [fc], {}))
            off = ra.mesh.npoints * d
            col.add("C14.O4", "PointLoad apply_on=1", "a load on the second field lands in that field's block", is_zero(P(r[off + 1, 0]) - sym("q")) and sum(1 for v in r.reshape(-1) if P(v).t) == 1)
    finish_info(col, it)


def run_pressure(col):
    it = new_interp()
    fc, unknowns, (ra, rb), d, tdim = _fields(it, "Field3", nq=1)
    ra.normals = symarray("N", (3, 1, 2))
    p = sym("pressure")
    cls = it.get("felupe.mechanics._solidbody_pressure:SolidBodyPressure")
    item = it.call(cls, [fc], dict(pressure=p))
    asm = it.getattr(item, "assemble")
    r = micro.dense(it.call(it.getattr(asm, "vector"), [fc], {}))
    U = fc.attrs["fields"][0].attrs["values"]
    cells = ra.mesh.cells

    def fe(i, J, q, c):
        F = np.empty((3, 3), dtype=object)
        for a_ in range(3):
            for b_ in range(3):
                F[a_, b_] = (ONE if a_ == b_ else ZERO) + sum((U[cells[c, a], a_] * ra.dhdX[a, b_, q, c] for a in range(cells.shape[1])), ZERO)
        return -p * sum((cofactor(F, i, J_) * ra.normals[J_, q, c] for J_ in range(3)), ZERO)

    want = ref_linear(ra, 3, fe, False)
    bad = [k for k in range(want.shape[0]) if not is_zero(ring.cancel(P(r[k, 0])) - want[k, 0])]
    col.add("C14.O5", "SolidBodyPressure vector", "nodal forces == sum_q N_a (-p) cof(F) N dA (current area vector times minus the pressure)", not bad, "%s: rows %s" % (method_where(cls, "_vector"), bad))
    col.add("C14.O5", "SolidBodyPressure multiplier", "the solver applies the multiplier -1 exactly once (C01.O8)", P(it.getattr(asm, "multiplier")) == -1)
    # ramped loads: after update(new) an item assembles what a fresh item with the new value (and otherwise the same arguments) assembles
    p2 = sym("pressure2")

    def chk_upd():
        it.call_method(item, "update", [p2])
        r2 = micro.dense(it.call(it.getattr(it.getattr(item, "assemble"), "vector"), [fc], {}))
        fresh = it.call(cls, [fc], dict(pressure=p2))
        rf = micro.dense(it.call(it.getattr(it.getattr(fresh, "assemble"), "vector"), [fc], {}))
        bad2 = diff_dense(r2, rf)
        return not bad2, "%s: %s" % (method_where(cls, "update"), "; ".join(b[:120] for b in bad2[:2]))
    col.check("C14.O5", "SolidBodyPressure update", "after update(pressure) the item assembles the vector of a fresh item with that pressure", chk_upd)
    finish_info(col, it)


def run_mass(col):
    it = new_interp()
    fc, unknowns, (ra, rb), d, tdim = _fields(it, "Field2", mixed=1)
    rho = sym("rho", True)
    body = it.call(it.get("felupe.mechanics._solidbody:SolidBody"), [], dict(umat=OpaqueHyper("Wm", dim=2), field=it.call_method(fc, "__getitem__", [0]).cls and micro.container(it, fc.attrs["fields"][:1]), density=rho))
    M = micro.dense(it.call(it.getattr(it.getattr(body, "assemble"), "mass"), [], {}))
    vol = sum((ra.dV[q, c] for q in range(ra.dV.shape[0]) for c in range(ra.dV.shape[1])), ZERO)
    np_ = ra.mesh.npoints
    bad = []
    for i in range(d):
        for k in range(d):
            tot = sum((P(M[d * a + i, d * b + k]) for a in range(np_) for b in range(np_)), ZERO)
            if not is_zero(tot - (rho * vol if i == k else ZERO)):
                bad.append((i, k))
    col.add("C14.O6", "SolidBody mass total", "the mass matrix carries the total mass density * volume in each direction (and nothing between directions)", not bad and M.shape == (np_ * d, np_ * d), str(bad))
    # a second assembly with another density (keyword, then attribute) carries that density
    rho2, rho3 = sym("rho2", True), sym("rho3", True)
    M2 = micro.dense(it.call(it.getattr(it.getattr(body, "assemble"), "mass"), [], dict(density=rho2)))
    it.setattr(body, "density", rho3)
    M3 = micro.dense(it.call(it.getattr(it.getattr(body, "assemble"), "mass"), [], {}))
    tot2 = sum((P(M2[d * a, d * b]) for a in range(np_) for b in range(np_)), ZERO)
    tot3 = sum((P(M3[d * a, d * b]) for a in range(np_) for b in range(np_)), ZERO)
    col.add("C14.O6", "SolidBody mass with a changed density", "every assembly carries the density in force at that call: mass(density=rho2) and, after body.density = rho3, mass()",
            is_zero(tot2 - rho2 * vol) and is_zero(tot3 - rho3 * vol), "mechanics/_solidbody.py SolidBody._mass: totals %s ; %s" % (ring.fmt(tot2, 3), ring.fmt(tot3, 3)))
    # every body class x field kind: total mass per direction == density * (revolved) volume
    from .c02 import radius
    for bname, bmod in (("SolidBody", "_solidbody"), ("SolidBodyNearlyIncompressible", "_solidbody_incompressible")):
        for kind in ("PlaneStrain", "Axisymmetric"):
            def chk(bname=bname, bmod=bmod, kind=kind):
                fck, unk, (rak, rbk), dk, tdk = _fields(it, kind, nq=1)
                kw = dict(umat=OpaqueHyper("Wm", dim=3), field=fck, density=rho)
                if bname.endswith("Incompressible"):
                    kw["bulk"] = sym("bulk", True)
                b = it.call(it.get("felupe.mechanics.%s:%s" % (bmod, bname)), [], kw)
                Mk = micro.dense(it.call(it.getattr(it.getattr(b, "assemble"), "mass"), [], {}))
                if kind == "Axisymmetric":
                    R = radius(rak)
                    volk = sum((2 * ring.pi() * R[q, c] * rak.dV[q, c] for q in range(rak.dV.shape[0]) for c in range(rak.dV.shape[1])), ZERO)
                else:
                    volk = sum((rak.dV[q, c] for q in range(rak.dV.shape[0]) for c in range(rak.dV.shape[1])), ZERO)
                npk = rak.mesh.npoints
                badk = []
                for i in range(dk):
                    for k in range(dk):
                        tot = sum((P(Mk[dk * a + i, dk * b_ + k]) for a in range(npk) for b_ in range(npk)), ZERO)
                        if not is_zero(tot - (rho * volk if i == k else ZERO)):
                            badk.append((i, k))
                return not badk and Mk.shape == (npk * dk, npk * dk), "mechanics/%s.py %s._mass: components %s" % (bmod, bname, badk)
            col.check("C14.O6", "%s[%s] mass total" % (bname, kind), "the mass matrix carries density * volume per direction (volume of revolution, weight 2 pi R, when axisymmetric)", chk)
    col.add("C14.O6", "SolidBody mass symmetric", "symmetric (Gram matrix of the shape functions, hence positive semi-definite)", all(is_zero(P(M[i, j]) - P(M[j, i])) for i in range(M.shape[0]) for j in range(i)))
    # multi-point constraint forces are self-equilibrated
    k = sym("kpen", True)
    fc1 = micro.container(it, fc.attrs["fields"][:1])
    cls = it.get("felupe.mechanics._multipoint:MultiPointConstraint")
    import itertools
    for skip in itertools.product((False, True), repeat=d):
        if all(skip):
            continue
        item = it.call(cls, [fc1], dict(points=[0, 1], centerpoint=3, multiplier=k, skip=skip))
        r = micro.dense(it.call(it.getattr(it.getattr(item, "assemble"), "vector"), [fc1], {}))
        bad = [i for i in range(d) if not is_zero(sum((P(r[d * n + i, 0]) for n in range(np_)), ZERO))]
        skipped = [i for i in range(d) if skip[i] and any(P(r[d * n + i, 0]).t for n in range(np_))]
        col.add("C14.O7", "MultiPointConstraint equilibrium skip=%s" % (skip,), "constraint forces sum to zero per component; no force on a skipped component", not bad and not skipped,
                "mechanics/_multipoint.py MultiPointConstraint._vector: unbalanced components %s, forces on skipped components %s" % (bad, skipped))
    finish_info(col, it)


def run_included(col, modname, fname, kwargs, oid, why, select_oid=None):
    from ..common import include

    include(col, modname, fname, kwargs, oid, why, select_oid=select_oid)
