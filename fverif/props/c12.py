"""C12 -- independent implementations of the same model agree (DESIGN.md section 3, C12)."""

import ast
import os
from decimal import Decimal
from fractions import Fraction

import numpy as np

from .. import ring, npmodel, admodels
from ..ring import P, sym, diff, is_zero, subs, ZERO, ONE, Poly
from ..common import list_modules, functions_in, finish_info, where_of, symarray, new_interp, method_where
from ..interp import FunctionValue, InterpRaise

SPEC = dict(
    level="proof",
    rule="O1: every function under constitution/jax/models/** is paired with its tensortrax namesake (same relative module path and "
    "name) and both bodies are evaluated from the AST in the same abstract world (C diagonal with positive symbols / C full "
    "symmetric / symbolic stretches, symbolic parameters, both generic cases of max()); they must return the same ring element. "
    "O2: hand-coded NeoHooke / OgdenRoxburgh vs the AD energies. O3-O5: the linear-elastic family, plane cases, orthotropic converter. "
    "non-trivial = the compared value is not a constant",
    trusted_base=[
        "summaries of tensortrax.math / jax.numpy in fverif/admodels.py (backend idioms mapped to the same abstract operations)",
        "eigvalsh / expm are opaque functions of their argument (same atom for the same argument)",
        "the jax-only eigenvalue regularisation C + diag(+-1e-4) is recognised, logged and treated as C (bound 1e-4 as documented)",
    ],
    explanation="algebraic value numbering of sibling implementations; equality of canonical ring elements",
    exhaustive=True,
    not_decided=["numerical agreement of the two AD backends' derivative code (trusted)"],
    assumptions=["real arithmetic", "generic point"],
)

FLOORS = {"jax/tensortrax pairs": ("pairs", 21)}


def _pairs(it):
    """(jax module, tensortrax module, function name) for every top-level def of the jax model modules (from the AST)"""
    out = []
    for mn in list_modules("felupe.constitution.jax.models"):
        if not mn.split(".")[-1].startswith("_"):
            continue
        tmn = mn.replace(".jax.", ".tensortrax.")
        m = it.module(mn)
        for n in m.tree.body:
            if isinstance(n, ast.FunctionDef) and not n.name.startswith("_"):
                out.append((mn, tmn, n.name))
    return out


def _defnode(it, modname, name):
    m = it.module(modname)
    for n in m.tree.body:
        if isinstance(n, ast.FunctionDef) and n.name == name:
            return n
    raise KeyError(name)


def tasks(tier):
    it = admodels.new_model_interp()
    ts = [("discovery", "run_discovery", {})]
    for mn, tmn, name in _pairs(it):
        ts.append(("pair %s" % name + ("@lagrange" if ".lagrange" in mn else ""), "run_pair", dict(jmod=mn, tmod=tmn, name=name)))
    ts.append(("hand-vs-AD", "run_hand_vs_ad", {}))
    # agreement of stress and elasticity tensor with the AD version: equal energies (above) + the hand-coded gradient / hessian are the
    # derivatives of that energy (the AD version's are by construction)
    for case in ("unloading", "primary"):
        ts.append(("OgdenRoxburgh tangent [%s]" % case, "run_included", dict(modname="c03", fname="run_ogden", kwargs=dict(case=case), oid="C12.O2",
                                                                        why="the hand-coded pseudo-elastic model agrees with Hyperelastic(ogden_roxburgh) in stress and tangent only if its own stress and tangent are consistent derivatives")))
    # ... and the hand-coded models return that stress also into a re-used out= buffer (SolidBody always passes the previous buffer)
    for cfg in ("mu+bulk", "mu", "bulk", "Volumetric"):
        ts.append(("NeoHooke[%s] out= buffers" % cfg, "run_included", dict(modname="c03", fname="run_neohooke", kwargs=dict(cfg=cfg), oid="C12.O2", select_oid="C03.O1o",
                                                                     why="agreement with the AD version must hold for the values the hand-coded model returns into a supplied (dirty) out buffer")))
    # O6: the documented initial moduli (frozen table DOC_MODULI, each entry confirmed by reading the docstring)
    from . import c11
    for backend, mn, name in c11._ad_models(it):
        if name in DOC_MODULI:
            ts.append(("initial moduli %s.%s" % (backend, name), "run_initial_moduli", dict(backend=backend, modname=mn, name=name)))
    ts.append(("linear-family", "run_linear_family", {}))
    ts.append(("plane", "run_plane", {}))
    ts.append(("orthotropic", "run_orthotropic", {}))
    ts.append(("canary", "run_canary", {}))
    return ts


# documented initial shear (and bulk) modulus of the isotropic models, as functions of the parameter symbols (lists: one symbol per term).
# Frozen from the docstrings (Eq. labels in brackets); a model without a documented closed form has no entry.
def _S(xs):
    return sum(xs, ZERO)


DOC_MODULI = {
    "neo_hooke": (lambda p: p["mu"], None, "parameter mu: 'Shear modulus'"),
    "mooney_rivlin": (lambda p: 2 * (p["C10"] + p["C01"]), None, "[shear-modulus-mr] mu = 2 (C10 + C01)"),
    "yeoh": (lambda p: 2 * p["C10"], None, "[shear-modulus-yeoh] mu = 2 C10"),
    "third_order_deformation": (lambda p: 2 * (p["C10"] + p["C01"]), None, "[shear-modulus-tod] mu = 2 (C10 + C01)"),
    "ogden": (lambda p: _S(p["mu"]), None, "[shear-modulus-ogden] mu = sum_i mu_i"),
    "storakers": (lambda p: _S(p["mu"]), lambda p: _S([2 * m * (Fraction(1, 3) + b) for m, b in zip(p["mu"], p["beta"])]),
                  "[shear-modulus-foam] mu = sum_i mu_i, [bulk-modulus-foam] K = sum_i 2 mu_i (1/3 + beta_i)"),
    "lopez_pamies": (lambda p: _S(p["mu"]), None, "[shear-modulus-lp] mu = sum_r mu_r"),
    "blatz_ko": (lambda p: p["mu"], None, "parameter mu: 'The shear modulus'; [psi-blatz-ko] psi = mu/2 (I2/I3 + 2 sqrt(I3) - 5)"),
    "alexander": (lambda p: 2 * (p["C1"] + p["C2"] * ring.inv(p["gamma"]) + p["C3"]), None, "[shear-modulus-alexander] mu = 2 (C1 + C2/gamma + C3)"),
    "anssari_benam_bucchi": (lambda p: p["mu"] * (1 - 3 * p["N"]) * ring.inv(3 - 3 * p["N"]), None, "[shear-modulus-abb] mu_0 = mu (1 - 3N)/(3 - 3N)"),
    "extended_tube": (lambda p: p["Gc"] + p["Ge"], None, "[shear-modulus-et] mu = Ge + Gc (closed form at delta = 0: evaluated there)"),
    "arruda_boyce": (lambda p: p["C1"] * (1 + Fraction(3, 5) * ring.inv(p["limit"] ** 2) + Fraction(99, 175) * ring.inv(p["limit"] ** 4) + Fraction(513, 875) * ring.inv(p["limit"] ** 6)
                                         + Fraction(42039, 67375) * ring.inv(p["limit"] ** 8)), None, "[shear-modulus-ab] mu = C1 (1 + 3/(5 lm^2) + 99/(175 lm^4) + 513/(875 lm^6) + 42039/(67375 lm^8))"),
    "saint_venant_kirchhoff": (lambda p: p["mu"], lambda p: p["lmbda"] + Fraction(2, 3) * p["mu"], "parameters mu, lmbda: the Lame constants (k = 2)"),
}


def run_initial_moduli(col, backend, modname, name):
    """O6: second-order jet of the energy at C = 1 along an isochoric uniaxial path (C = diag(s^2, 1/s, 1/s): W'' = 3 mu_0) and along the
    volumetric path (C = s^2 1: W'' = 9 K_0), for symbolic parameters, against the documented closed forms"""
    from . import c11

    it = admodels.new_model_interp()
    pkg = modname.rsplit(".", 1)[0]
    it.module(pkg)
    fobj = it.get(modname + ":" + name)
    m = it.module(modname)
    node = [n for n in m.tree.body if isinstance(n, ast.FunctionDef) and n.name == name][0]
    where = "%s:%d" % (modname.replace("felupe.", ""), node.lineno)
    kw, names = c11._params(it, node, fobj)
    if name in ("ogden", "storakers", "lopez_pamies"):
        for k_, v_ in list(kw.items()):
            if isinstance(v_, list) and len(v_) < 2:
                kw[k_] = [sym("par_%s%d" % (k_, i_), True) for i_ in range(2)]
    if name == "extended_tube":
        kw["delta"] = ZERO  # the documented closed form is that of delta = 0
    C = admodels.world_C("diag")
    cs = [C[i, i] for i in range(3)]
    npmodel.MAX_CASE[0] = "first"
    try:
        W = it.call(fobj, [C], dict(kw))
    finally:
        npmodel.MAX_CASE[0] = None
    W = P(W[0] if isinstance(W, tuple) else W)
    at1 = {c: ONE for c in cs}
    H = [[subs(diff(diff(W, cs[i]), cs[j]), at1) for j in range(3)] for i in range(3)]
    g = [subs(diff(W, cs[i]), at1) for i in range(3)]
    mu_doc, K_doc, reason = DOC_MODULI[name]
    label = "%s.%s" % (backend, name)

    def jet(v):
        # d^2/ds^2 W(c(s)) at s = 1 with c'(1) = v and, for c_i = s^k_i, c_i''(1) = k_i (k_i - 1); the first derivatives vanish at a stress-free state
        tot = ZERO
        for i in range(3):
            for j in range(3):
                tot = tot + H[i][j] * v[i] * v[j]
            tot = tot + g[i] * (v[i] * (v[i] - 1))
        return tot

    mu0 = jet([2, -1, -1]) * Fraction(1, 3)
    okm = is_zero(mu0 - mu_doc(kw))
    col.add("C12.O6", "%s initial shear modulus" % label, "the tangent at the undeformed state has the initial shear modulus the documentation states (%s)" % reason, okm,
            "%s: the energy gives mu_0 = %s, documented %s" % (where, ring.fmt(mu0, 6), ring.fmt(P(mu_doc(kw)), 6)))
    if K_doc is not None:
        K0 = jet([2, 2, 2]) * Fraction(1, 9)
        okk = is_zero(K0 - K_doc(kw))
        col.add("C12.O6", "%s initial bulk modulus" % label, "the tangent at the undeformed state has the initial bulk modulus the documentation states (%s)" % reason, okk,
                "%s: the energy gives K_0 = %s, documented %s" % (where, ring.fmt(K0, 6), ring.fmt(P(K_doc(kw)), 6)))
    finish_info(col, it)


def run_discovery(col):
    it = admodels.new_model_interp()
    prs = _pairs(it)
    col.info["pairs"] = ["%s:%s" % (m.split("models.")[1], n) for m, _, n in prs]
    missing = []
    for mn, tmn, name in prs:
        try:
            it.get(tmn + ":" + name)
        except Exception as e:  # noqa
            missing.append("%s:%s (%s)" % (tmn, name, e))
    col.add("C12.O1", "pairing", "every jax model function has a tensortrax namesake at the same relative path", not missing, str(missing), nontrivial=False)
    finish_info(col, it)


# models whose list-valued parameters are *terms of a series* (any number of them, all lists of one length): evaluated with two terms, so that a
# term picking up another term's parameter is visible (the attached defaults have one term)
TERM_MODELS = ("ogden", "storakers")


def _param_value(name, default, tag="", terms=False):
    if isinstance(default, (list, tuple)):
        return [sym("%s%d" % (name, i), positive=True) for i in range(max(2, len(default)) if terms else len(default))]
    return sym(name, positive=True)


class OpaqueF:
    """opaque chain/force function handed to the micro-sphere frameworks"""

    def __init__(self, with_state):
        self.with_state = with_state

    def __call__(self, lam, *args, **kwargs):
        lam = npmodel.to_obj(np.asarray(lam))
        key = sorted((k, str(v)) for k, v in kwargs.items())
        out = np.empty(lam.shape, dtype=object)
        for idx in np.ndindex(lam.shape):
            out[idx] = ring.ofun("f%s" % key, [lam[idx]])
        if self.with_state:
            return out, symarray("SVNEW", (4,))
        return out


SYMBOLIC_EPS = [True]  # regularisation parameters with a default are passed as symbols too (a keyword that is not forwarded shows up)


def build_args(node, world, kwargs_attr):
    fn = node
    params = [a.arg for a in node.args.args]
    ndef = len(node.args.defaults)
    args = {}
    for i, pn in enumerate(params):
        has_default = i >= len(params) - ndef
        if pn == "C":
            args[pn] = admodels.world_C(world)
        elif pn == "F":
            F = np.empty((3, 3), dtype=object)
            for a in range(3):
                for b in range(3):
                    F[a, b] = sym("F%d%d" % (a, b))
                    if world == "Fdiag" and a != b:
                        F[a, b] = ZERO
            args[pn] = F
        elif pn in ("statevars", "Wmax_n", "Cin"):
            n = {"morph": 13, "morph_uniaxial": 84, "morph_representative_directions": 84}.get(fn.name, 4)
            args[pn] = symarray("sv", (n,))
        elif pn in ("stretch", "λ"):
            n = 21 if fn.name == "morph_uniaxial" else 3
            args[pn] = symarray("lam", (n,), positive=True)
        elif pn == "f":
            args[pn] = OpaqueF(with_state="statevars" in params)
        elif pn == "kwargs":
            args[pn] = {"mu": sym("kw_mu", True)}
        elif pn == "quadrature":
            continue
        elif has_default and pn not in (kwargs_attr or {}):
            if pn in ("ε",) and not SYMBOLIC_EPS[0]:
                continue
            args[pn] = sym("par_" + pn, positive=True)
        else:
            default = (kwargs_attr or {}).get(pn, 0)
            if pn == "p" and fn.name.startswith("morph"):
                default = [0] * 8
            args[pn] = _param_value("par_" + pn, default, terms=fn.name in TERM_MODELS)
    return args


def flatten(v):
    if isinstance(v, tuple) or isinstance(v, list):
        out = []
        for x in v:
            out.extend(flatten(x))
        return out
    if isinstance(v, np.ndarray):
        return [P(x) for x in v.reshape(-1)]
    return [P(v)]


def run_pair(col, jmod, tmod, name):
    it = admodels.new_model_interp()
    fj = it.get(jmod + ":" + name)
    ft = it.get(tmod + ":" + name)
    kw = {}
    try:
        kw = it.getattr(ft, "kwargs")
    except InterpRaise:
        # kwargs are attached in the package __init__
        pkg = tmod.rsplit(".", 1)[0]
        it.module(pkg)
        try:
            kw = it.getattr(ft, "kwargs")
        except InterpRaise:
            kw = {}
    # the attached default parameters (used for every parameter the user leaves out, `Hyperelastic(model, mu=1)`) are part of the model
    try:
        it.module(jmod.rsplit(".", 1)[0])
        kwj = it.getattr(fj, "kwargs")
    except InterpRaise:
        kwj = None
    if kw or kwj:
        def norm(d):
            return {k: [str(P(x)) for x in flatten(v)] for k, v in (d or {}).items()}
        col.add("C12.O1", "%s attached default parameters" % name, "both backends attach the same default parameter values to the model function (they complete partial parameter sets)",
                kwj is not None and norm(kw) == norm(kwj), "%s.kwargs = %s but %s.kwargs = %s" % (jmod.replace("felupe.constitution.", ""), kwj, tmod.replace("felupe.constitution.", ""), kw))
    nj, nt = _defnode(it, jmod, name), _defnode(it, tmod, name)
    # the jax models are declared @wraps(<tensortrax namesake>): constitution/jax/_helpers.py vmap reads parameter order and default values with
    # inspect.signature (which follows __wrapped__ to the tensortrax signature) and hands the values over *positionally* -- the two signatures
    # have to list the same parameters in the same order with the same defaults
    wrapped = any(isinstance(d, ast.Call) and getattr(d.func, "id", getattr(d.func, "attr", "")) == "wraps" for d in nj.decorator_list)
    if wrapped:
        sj = ([a.arg for a in nj.args.args], [ast.dump(d) for d in nj.args.defaults])
        st_ = ([a.arg for a in nt.args.args], [ast.dump(d) for d in nt.args.defaults])
        col.add("C12.O1", "%s signatures" % name, "a jax model that wraps its tensortrax namesake has the same parameter list (names, order, defaults): parameters are bound by position through the wrapped signature",
                sj == st_, "%s(%s) vs %s(%s)" % (jmod.replace("felupe.constitution.", ""), ", ".join(sj[0]), tmod.replace("felupe.constitution.", ""), ", ".join(st_[0])))
    params = [a.arg for a in nt.args.args]
    uses_eig = any(isinstance(n, ast.Name) and n.id in ("eigvalsh", "eigh", "eigvalsh2") for f in (nt, nj) for n in ast.walk(f))
    worlds = (["diag"] if uses_eig else ["diag", "full"]) if "C" in params else ["-"]
    if "F" in params:
        # the stress-type (Lagrange) models multiply several full 3x3 rational-function matrices; with a full F the
        # normal forms have 1e5+ terms per entry, so the deformation gradient is taken in principal axes there
        # (old state tensors stay full symmetric)
        worlds = ["Fdiag"] if name.startswith("morph") else ["-"]
    uses_max = any(isinstance(n, ast.Name) and n.id == "maximum" for n in ast.walk(nt))
    cases = ["first", "second"] if (uses_max or ".lagrange" in jmod or "morph" in name) else [None]
    for world in worlds:
        for case in cases:
            label = "%s [%s%s]" % (name, world, "" if case is None else ", max=" + case)

            contract = {}

            def chk(world=world, case=case, contract=contract):
                admodels.WORLD["reg_log"] = []
                npmodel.MAX_CASE[0] = case
                try:
                    aj = build_args(nj, world, kw)
                    at = build_args(nt, world, kw)
                    admodels.WORLD["contract_log"] = []
                    rj = it.call(fj, [], aj)
                    contract["jax"] = sorted({r for r, _ in admodels.WORLD["contract_log"]})
                    admodels.WORLD["contract_log"] = []
                    rt = it.call(ft, [], at)
                    contract["tensortrax"] = sorted({r for r, _ in admodels.WORLD["contract_log"]})
                finally:
                    npmodel.MAX_CASE[0] = None
                a, b = flatten(rj), flatten(rt)
                if len(a) != len(b):
                    return False, "results have different sizes: %d vs %d" % (len(a), len(b))
                # cheap exact pre-check: two expressions that denote one function agree at every point; evaluate both at one rational point
                # (roots of constants stay exact algebraic numbers in the ring); a difference there is a proof of inequality and saves the
                # normalisation of a huge difference
                bad = []
                syms = sorted(set().union(*[ring.all_syms(x) for x in a + b]))
                for shift in (0, 1, 2):
                    point = {g: Fraction(3 + k + shift, 7 + k + 2 * shift) for k, g in enumerate(syms)}
                    for i, (x, y) in enumerate(zip(a, b)):
                        if x.t == y.t:
                            continue
                        try:
                            xs, ys = ring.subs(x, point), ring.subs(y, point)
                            dx = xs - ys
                            if ring.all_syms(dx):
                                continue
                            # a constant (possibly algebraic / with function atoms of constants): separated from zero at 80 digits?
                            v = ring.const_decimal(dx)
                            scale = max(abs(ring.const_decimal(xs)), 1)
                        except (ring.Undecided, ZeroDivisionError, RecursionError, ArithmeticError):
                            continue
                        if abs(v) > scale * Decimal(10) ** -40:
                            bad.append(i)
                            break
                    if bad:
                        break
                if not bad:
                    bad = [i for i, (x, y) in enumerate(zip(a, b)) if not is_zero(x - y)]
                detail = "%s:%d vs %s:%d: " % (jmod.replace("felupe.constitution.", ""), nj.lineno, tmod.replace("felupe.constitution.", ""), nt.lineno)
                if bad:
                    i = bad[0]
                    detail += "component %d differs: jax %s ; tensortrax %s" % (i, ring.fmt(a[i], 6), ring.fmt(b[i], 6))
                if admodels.WORLD["reg_log"]:
                    detail += " [eigenvalue regularisation recognised: %s]" % admodels.WORLD["reg_log"][:2]
                return not bad, detail, any(not x.is_const() for x in a)

            col.check("C12.O1", label, "the jax model and its tensortrax namesake denote the same function (same canonical ring element)", chk)
            if case in (None, "first") and (contract.get("jax") or contract.get("tensortrax")):
                # numpy / tensortrax read one triangle of the argument, jax symmetrises it: for an argument that is not symmetric the
                # two backends evaluate different functions although the model bodies are the same text
                col.add("C12.O7", "%s[%s]:symmetric-argument-routines" % (name, world),
                        "eigvalsh / eigh / (tensortrax) expm receive symmetric arguments only -- otherwise the backends' conventions differ and the namesakes do not agree",
                        False, "%s:%d / %s:%d: non-symmetric argument to jax %s, tensortrax %s (stored state not coaxial with C)" % (
                            jmod.replace("felupe.constitution.", ""), nj.lineno, tmod.replace("felupe.constitution.", ""), nt.lineno, contract.get("jax"), contract.get("tensortrax")))
    finish_info(col, it)


def run_hand_vs_ad(col):
    it = admodels.new_model_interp()
    base = "felupe.constitution."
    # diagonal world: F = diag(a, b, c), C = diag(a^2, b^2, c^2)
    a = [sym("a%d" % i, True) for i in range(3)]
    F = np.empty((3, 3, 1, 1), dtype=object)
    F[...] = ZERO
    C = np.empty((3, 3), dtype=object)
    C[...] = ZERO
    for i in range(3):
        F[i, i, 0, 0] = a[i]
        C[i, i] = a[i] * a[i]
    mu = sym("mu", True)
    nh = it.call(it.get(base + "hyperelasticity._neo_hooke_nearly_incompressible:NeoHooke"), [], dict(mu=mu))
    Wh = it.call_method(nh, "function", [[F, None]])[0][0, 0]
    for backend in ("tensortrax", "jax"):
        f = it.get(base + "%s.models.hyperelastic._neo_hooke:neo_hooke" % backend)
        Wa = it.call(f, [C], dict(mu=mu))
        col.add("C12.O2", "NeoHooke(mu) vs %s neo_hooke" % backend, "hand-coded and AD energies agree (C = F^T F, principal axes)", is_zero(P(Wa) - Wh),
                "hand %s ; AD %s" % (ring.fmt(Wh, 6), ring.fmt(P(Wa), 6)))
    # full F through det(F^T F) = det(F)^2 (verified identity, then used as a rewrite for the AD determinant)
    from .c17 import leibniz
    Ff = np.empty((3, 3, 1, 1), dtype=object)
    for i in range(3):
        for j in range(3):
            Ff[i, j, 0, 0] = sym("F%d%d" % (i, j))
    Cf = np.einsum("ki,kj->ij", Ff[:, :, 0, 0], Ff[:, :, 0, 0])
    dF = leibniz(Ff[:, :, 0, 0])
    ident = is_zero(leibniz(Cf) - dF * dF)
    col.add("C12.O2", "det(F^T F) == det(F)^2", "algebraic identity used to compare energies on a full deformation gradient", ident)
    if ident:
        X = ring.power(dF, Fraction(-2, 3))
        admodels.WORLD["det_of"] = (npmodel.to_obj(Cf), ring.power(X, -3))  # det(F)^2 kept as the square of the det(F) atom
        try:
            Whf = it.call_method(nh, "function", [[Ff, None]])[0][0, 0]
            for backend in ("tensortrax", "jax"):
                f = it.get(base + "%s.models.hyperelastic._neo_hooke:neo_hooke" % backend)
                Wa = it.call(f, [Cf], dict(mu=mu))
                col.add("C12.O2", "NeoHooke(mu) vs %s neo_hooke (full F)" % backend, "hand-coded and AD energies agree for a full deformation gradient", is_zero(P(Wa) - Whf))
        finally:
            admodels.WORLD["det_of"] = None
    # Ogden-Roxburgh: the softening function eta is the same expression
    r, m, beta = sym("r", True), sym("m", True), sym("beta", True)
    from .c03 import OpaqueHyper, Fsym
    inner = OpaqueHyper("Wm", with_state=True)
    orh = it.call(it.get(base + "hyperelasticity._ogden_roxburgh:OgdenRoxburgh"), [], dict(material=inner, r=r, m=m, beta=beta))
    Fs = Fsym()
    Wold = sym("Wmax_n", True)
    sv = np.empty((1, 1, 1), dtype=object)
    sv[0, 0, 0] = Wold
    for case in ("first", "second"):
        npmodel.MAX_CASE[0] = case
        try:
            g = it.call_method(orh, "gradient", [[Fs, sv]])
            Win = inner.function([Fs, sv])[0][0, 0]
            Pin = inner.gradient([Fs, sv])[0]
            # eta_hand = P_hand / P_inner (entry 0,0)
            fad = it.get(base + "tensortrax.models.hyperelastic._ogden_roxburgh:ogden_roxburgh")
            Wsym = sym("Wval", True)
            res = it.call(fad, [admodels.world_C("full"), np.array([Wold], dtype=object)],
                          dict(material=lambda C, **k: Wsym, r=r, m=m, beta=beta))
        finally:
            npmodel.MAX_CASE[0] = None
        # AD version: dWdF-like dual quantity with derivative eta(W) dW -> extract eta as d/dW
        eta_ad = diff(P(res[0]), Wsym)
        eta_ad = ring.subs(eta_ad, {Wsym: Win})
        eta_hand_times_P = g[0][0, 0, 0, 0]
        okk = is_zero(eta_hand_times_P - eta_ad * Pin[0, 0, 0, 0])
        col.add("C12.O2", "OgdenRoxburgh vs ogden_roxburgh [max=%s]" % case, "the softening factor eta(W, Wmax) is the same function in the hand-coded and the AD version", okk,
                "AD eta = %s" % ring.fmt(eta_ad, 6))
        new_hand = g[1][0, 0, 0]
        new_ad = P(res[1].reshape(-1)[0])
        new_ad = ring.subs(new_ad, {Wsym: Win})
        col.add("C12.O2", "OgdenRoxburgh vs ogden_roxburgh state [max=%s]" % case, "both store the same new maximum", is_zero(new_hand - new_ad))
    finish_info(col, it)


def _lin_objs(it):
    base = "felupe.constitution."
    E, nu = sym("E", True), sym("nu", True)
    le = it.call(it.get(base + "linear_elasticity._linear_elastic:LinearElastic"), [], dict(E=E, nu=nu))
    lt = it.call(it.get(base + "linear_elasticity._linear_elastic:LinearElasticTensorNotation"), [], dict(E=E, nu=nu))
    conv = it.get(base + "linear_elasticity._lame_converter:lame_converter")
    lam, mu = it.call(conv, [E, nu], {})
    ms = it.call(it.get(base + "small_strain._material_strain:MaterialStrain"), [],
                 {"material": it.get(base + "small_strain.models._linear_elastic:linear_elastic"), "λ": lam, "μ": mu})
    return E, nu, le, lt, ms


def run_linear_family(col):
    from .c03 import Fsym, _strain_state, same_arrays
    it = new_interp()
    E, nu, le, lt, ms = _lin_objs(it)
    F = Fsym()
    sv0 = npmodel.zeros((0, 1, 1))
    svs = npmodel.zeros((18, 1, 1))  # virgin small-strain state: zero old strain / stress
    res = {
        "LinearElastic": (it.call_method(le, "gradient", [[F, sv0]])[0], it.call_method(le, "hessian", [[F, sv0]])[0]),
        "LinearElasticTensorNotation": (it.call_method(lt, "gradient", [[F, sv0]])[0], it.call_method(lt, "hessian", [[F, sv0]])[0]),
        "MaterialStrain(linear_elastic)": (it.call_method(ms, "gradient", [[F, svs]])[0], it.call_method(ms, "hessian", [[F, svs]])[0]),
    }
    names = list(res)
    for i in range(len(names)):
        for j in range(i + 1, len(names)):
            a, b = names[i], names[j]
            col.add("C12.O3", "%s vs %s stress" % (a, b), "the 9 stress entries are equal rational functions of (E, nu, F)", same_arrays(res[a][0], res[b][0]))
            A_, B_ = res[a][1], res[b][1]
            col.add("C12.O3", "%s vs %s elasticity" % (a, b), "the 81 tangent entries are equal rational functions of (E, nu)",
                    same_arrays(np.broadcast_to(A_, (3, 3, 3, 3, 1, 1)), np.broadcast_to(B_, (3, 3, 3, 3, 1, 1))))
    finish_info(col, it)


def run_plane(col):
    from .c03 import Fsym
    it = new_interp()
    base = "felupe.constitution.linear_elasticity._linear_elastic:"
    E, nu = sym("E", True), sym("nu", True)
    le = it.call(it.get(base + "LinearElastic"), [], dict(E=E, nu=nu))
    A3 = it.call_method(le, "hessian", [], {})[0]
    A3 = np.broadcast_to(A3, (3, 3, 3, 3, 1, 1))
    pe = it.call(it.get(base + "LinearElasticPlaneStrain"), [], dict(E=E, nu=nu))
    ps = it.call(it.get(base + "LinearElasticPlaneStress"), [], dict(E=E, nu=nu))
    F2 = Fsym(2)
    sv0 = npmodel.zeros((0, 1, 1))
    Ae = it.call_method(pe, "hessian", [[F2, sv0]])[0]
    As = it.call_method(ps, "hessian", [[F2, sv0]])[0]
    bad_e, bad_s = [], []
    for i, j, k, l in np.ndindex(2, 2, 2, 2):
        if not is_zero(Ae[i, j, k, l, 0, 0] - A3[i, j, k, l, 0, 0]):
            bad_e.append((i, j, k, l))
        cond = A3[i, j, k, l, 0, 0] - A3[i, j, 2, 2, 0, 0] * A3[2, 2, k, l, 0, 0] * ring.inv(A3[2, 2, 2, 2, 0, 0])
        if not is_zero(As[i, j, k, l, 0, 0] - cond):
            bad_s.append((i, j, k, l))
    col.add("C12.O4", "LinearElasticPlaneStrain vs 3D", "in-plane tangent == 3D tensor with eps_33 = 0", not bad_e, "%s entries %s" % (base, bad_e))
    col.add("C12.O4", "LinearElasticPlaneStress vs 3D", "in-plane tangent == 3D tensor condensed with sigma_33 = 0 (C_abcd - C_ab33 C_33cd / C_3333)", not bad_s, str(bad_s))
    # stresses as well (through a padded 3D deformation gradient)
    F3 = np.empty((3, 3, 1, 1), dtype=object)
    F3[...] = ZERO
    F3[:2, :2] = F2
    F3[2, 2, 0, 0] = ONE
    P3 = it.call_method(le, "gradient", [[F3, sv0]])[0]
    Pe = it.call_method(pe, "gradient", [[F2, sv0]])[0]
    bad = [(i, j) for i in range(2) for j in range(2) if not is_zero(Pe[i, j, 0, 0] - P3[i, j, 0, 0])]
    col.add("C12.O4", "LinearElasticPlaneStrain stress vs 3D", "in-plane stress == 3D stress for F_33 = 1, F_3a = 0", not bad, str(bad))
    # plane stress: sigma_33 = 0 determines eps_33
    e33 = sym("e33")
    F3[2, 2, 0, 0] = ONE + e33
    P3 = it.call_method(le, "gradient", [[F3, sv0]])[0]
    s33 = P3[2, 2, 0, 0]
    ds = diff(s33, e33)
    sol = -ring.subs(s33, {e33: 0}) * ring.inv(ds)
    Ps = it.call_method(ps, "gradient", [[F2, sv0]])[0]
    bad = [(i, j) for i in range(2) for j in range(2) if not is_zero(Ps[i, j, 0, 0] - ring.subs(P3[i, j, 0, 0], {e33: sol}))]
    col.add("C12.O4", "LinearElasticPlaneStress stress vs 3D", "in-plane stress == 3D stress with eps_33 solved from sigma_33 = 0", not bad, str(bad))
    # the plane laws also hand out their 3D state: strain(x) and stress(x) (3x3).  They describe the same state as the 3D law: the 3D
    # law evaluated at the returned strain tensor gives the returned stress tensor (plane strain: eps_33 = 0, plane stress: sigma_33 = 0)
    for nm, um in (("LinearElasticPlaneStrain", pe), ("LinearElasticPlaneStress", ps)):
        def chk_state(nm=nm, um=um):
            e3 = npmodel.to_obj(np.asarray(it.call_method(um, "strain", [[F2, sv0]])[0]))
            s3 = npmodel.to_obj(np.asarray(it.call_method(um, "stress", [[F2, sv0]])[0]))
            if e3.shape[:2] != (3, 3) or s3.shape[:2] != (3, 3):
                return False, "%s%s: strain %s, stress %s are not 3x3" % (base, nm, e3.shape, s3.shape)
            Fe = np.empty((3, 3, 1, 1), dtype=object)
            for i in range(3):
                for j in range(3):
                    Fe[i, j, 0, 0] = P(e3[i, j].reshape(-1)[0]) + (ONE if i == j else ZERO)
            S3 = it.call_method(le, "gradient", [[Fe, sv0]])[0]
            bad = [(i, j) for i in range(3) for j in range(3) if not is_zero(P(s3[i, j].reshape(-1)[0]) - P(S3[i, j, 0, 0]))]
            sym_e = [(i, j) for i in range(3) for j in range(i) if not is_zero(P(e3[i, j].reshape(-1)[0]) - P(e3[j, i].reshape(-1)[0]))]
            at_rest = {v: (ONE if k in (0, 3) else ZERO) for k, v in enumerate(F2.reshape(-1))}
            rest = [(i, j) for i in range(3) for j in range(3) if not is_zero(ring.subs(P(e3[i, j].reshape(-1)[0]), at_rest))]
            return not bad and not sym_e and not rest, "%s%s.strain / .stress: 3D law at strain(x) differs from stress(x) in entries %s; strain not symmetric %s; strain at F = 1 non-zero %s" % (base, nm, bad, sym_e, rest)
        col.check("C12.O4", "%s strain(x) / stress(x) vs 3D" % nm, "the 3D linear-elastic law evaluated at the 3x3 strain tensor the plane law reports equals the 3x3 stress tensor it reports; the reported strain is a symmetric tensor that vanishes at F = 1", chk_state)
    finish_info(col, it)


def run_orthotropic(col):
    it = admodels.new_model_interp()
    base = "felupe.constitution."
    Es = [sym("E%d" % i, True) for i in (1, 2, 3)]
    nus = [sym("nu%s" % s, True) for s in ("12", "23", "31")]
    Gs = [sym("G%s" % s, True) for s in ("12", "23", "31")]
    lo = it.call(it.get(base + "linear_elasticity._linear_elastic_orthotropic:LinearElasticOrthotropic"), [], dict(E=Es, nu=nus, G=Gs))
    A = it.call_method(lo, "hessian", [], {})[0]
    conv = it.get(base + "linear_elasticity._lame_converter:lame_converter_orthotropic")
    lmbda, mu = it.call(conv, [Es, nus, Gs], {})
    svk = it.get(base + "tensortrax.models.hyperelastic._saint_venant_kirchhoff_orthotropic:saint_venant_kirchhoff_orthotropic")
    C = admodels.world_C("full")
    one = [ONE, ZERO, ZERO]
    W = it.call(svk, [C], dict(mu=mu, lmbda=lmbda, r1=[1, 0, 0], r2=[0, 1, 0], r3=[0, 0, 1]))
    W = P(W)
    # second derivative of the energy w.r.t. E = (C - 1)/2 at C = 1, symmetric-variable convention
    Cs = {(i, j): sym("C%d%d" % (min(i, j), max(i, j))) for i in range(3) for j in range(3)}
    at1 = {Cs[(i, j)]: (ONE if i == j else ZERO) for i in range(3) for j in range(i, 3)}

    def dE(w, i, j):
        # d/dE_ij with E_ij = E_ji independent-symmetric: dW/dC_ij * 2, off-diagonals shared between ij and ji
        d = diff(w, Cs[(i, j)]) * 2
        return d if i == j else d * Fraction(1, 2)

    bad = []
    for i, j, k, l in np.ndindex(3, 3, 3, 3):
        d2 = ring.subs(dE(dE(W, i, j), k, l), at1)
        if not is_zero(d2 - A[i, j, k, l, 0, 0]):
            bad.append(((i, j, k, l), ring.fmt(d2, 4), ring.fmt(A[i, j, k, l, 0, 0], 4)))
    col.add("C12.O5", "LinearElasticOrthotropic vs saint_venant_kirchhoff_orthotropic",
            "engineering-constant elasticity tensor == second derivative of the orthotropic SVK energy at the undeformed state with parameters from lame_converter_orthotropic",
            not bad, str(bad[:3]))
    # material axes other than the global ones: a triad that is a permutation of the global axes (the matrix [r1, r2, r3] is not symmetric for a
    # cyclic permutation, so rows and columns cannot be confused): the tangent is the engineering-constant tensor with its indices relabelled
    for perm in ((1, 2, 0), (2, 0, 1), (1, 0, 2)):
        def chk_axes(perm=perm):
            eye3 = [[1 if i == j else 0 for j in range(3)] for i in range(3)]
            tri = [eye3[perm[a]] for a in range(3)]          # material axis a points along the global axis perm[a]
            Wr = P(it.call(svk, [C], dict(mu=mu, lmbda=lmbda, r1=tri[0], r2=tri[1], r3=tri[2])))
            q = [perm.index(g) for g in range(3)]            # global index -> material index
            bad = []
            for i, j, k, l in np.ndindex(3, 3, 3, 3):
                d2 = ring.subs(dE(dE(Wr, i, j), k, l), at1)
                if not is_zero(d2 - A[q[i], q[j], q[k], q[l], 0, 0]):
                    bad.append((i, j, k, l))
            return not bad, "constitution/tensortrax/models/hyperelastic/_saint_venant_kirchhoff_orthotropic.py: tangent entries %s are not those of the relabelled engineering-constant tensor" % bad[:4]
        col.check("C12.O5", "saint_venant_kirchhoff_orthotropic with material axes r_a = e_%s" % (list(perm),),
                  "with the material axes along permuted global axes the tangent at the undeformed state is the orthotropic linear-elastic tensor with its indices relabelled accordingly", chk_axes)
    # Seth-Hill strain exponent k: for every k the orthotropic law with isotropic parameters is the isotropic saint_venant_kirchhoff(k), its
    # energy and stress vanish at the undeformed state (principal-axes world: C = diag(c1, c2, c3))
    svk_iso = it.get(base + "tensortrax.models.hyperelastic._saint_venant_kirchhoff:saint_venant_kirchhoff")
    Cd = admodels.world_C("diag")
    cs = [Cd[i, i] for i in range(3)]
    at1d = {c: ONE for c in cs}
    m_, l_ = sym("mu", True), sym("lmbda", True)
    mus3 = [sym("mu%d" % i, True) for i in (1, 2, 3)]
    lm6 = [sym("lm%d" % i, True) for i in range(6)]
    ow = "constitution/tensortrax/models/hyperelastic/_saint_venant_kirchhoff_orthotropic.py saint_venant_kirchhoff_orthotropic"
    for k, order in [(k, o) for k in (2, 0, 1, 4, -2, 3, 6) for o in ((0, 1, 2), (1, 2, 0))]:
        def chk_iso(k=k, order=order):
            admodels.WORLD["eig_order"] = order
            try:
                Wo = P(it.call(svk, [Cd], dict(mu=[m_] * 3, lmbda=[l_] * 6, r1=[1, 0, 0], r2=[0, 1, 0], r3=[0, 0, 1], k=k)))
                Wi = P(it.call(svk_iso, [Cd], dict(mu=m_, lmbda=l_, k=k)))
            finally:
                admodels.WORLD["eig_order"] = None
            return is_zero(Wo - Wi), "%s: k=%s energy differs from saint_venant_kirchhoff(k=%s) by %s" % (ow, k, k, ring.fmt(Wo - Wi, 3))
        col.check("C12.O5", "saint_venant_kirchhoff_orthotropic(k=%s) vs saint_venant_kirchhoff(k=%s), eigenvalue order %s" % (k, k, order),
                  "with isotropic parameters (mu_a = mu, lmbda_ab = lmbda, r = identity) the orthotropic energy equals the isotropic one for the same strain exponent", chk_iso)

        def chk_k2(k=k, order=order):
            # genuinely orthotropic parameters in the principal-axes world: the energy is mu_a E_aa^2 + 1/2 lmbda_ab E_aa E_bb with the Seth-Hill
            # strain E_aa = f_k(c_a) of the *a-th axis*, in whatever order the eigenvalues are returned
            admodels.WORLD["eig_order"] = order
            try:
                Wg = P(it.call(svk, [Cd], dict(mu=mus3, lmbda=lm6, r1=[1, 0, 0], r2=[0, 1, 0], r3=[0, 0, 1], k=k)))
            finally:
                admodels.WORLD["eig_order"] = None
            if k == 0:
                Ea = [ring.fun_atom("Log", c) * Fraction(1, 2) for c in cs]
            else:
                Ea = [(P(c) ** Fraction(k, 2) - ONE) / k for c in cs]
            lam = {}
            t = 0
            for a in range(3):
                for b in range(a, 3):
                    lam[(a, b)] = lam[(b, a)] = lm6[t]
                    t += 1
            want = sum((mus3[a] * Ea[a] * Ea[a] for a in range(3)), ZERO) + sum((lam[(a, b)] * Ea[a] * Ea[b] * Fraction(1, 2) for a in range(3) for b in range(3)), ZERO)
            w0 = ring.subs(Wg, at1d)
            ds = [ring.subs(diff(Wg, c), at1d) for c in cs]
            ok = is_zero(Wg - want) and is_zero(w0) and all(is_zero(d) for d in ds)
            return ok, "%s: k=%s W - (mu_a E_aa^2 + lmbda_ab E_aa E_bb / 2) = %s; at C = 1: W = %s, dW/dc = %s" % (
                ow, k, ring.fmt(Wg - want, 3), ring.fmt(w0, 3), [ring.fmt(d, 3) for d in ds])
        col.check("C12.O5", "saint_venant_kirchhoff_orthotropic(k=%s) principal axes, eigenvalue order %s" % (k, order),
                  "for every strain exponent the strain of axis a is f_k of the stretch along axis a (independent of the order in which eigh lists the eigenvalues); energy and stress vanish at C = 1", chk_k2)
    finish_info(col, it)


def run_canary(col):
    """two 'twin' functions that differ in one coefficient must be told apart"""
    from ..runner import VERIF
    from ..interp import Interp

    it = Interp(src_root=os.path.join(VERIF, "fixtures"))
    it.externals.update(admodels.math_namespace(it))
    fa = it.get("felupe.canary_twins:yeoh_a")
    fb = it.get("felupe.canary_twins:yeoh_b")
    C = admodels.world_C("diag")
    kw = dict(C10=sym("C10"), C20=sym("C20"), C30=sym("C30"))
    differ = not is_zero(P(it.call(fa, [C], kw)) - P(it.call(fb, [C], kw)))
    col.info["canaries_expected"] = 1
    col.info["canaries_fired"] = 1 if differ else 0
    col.add("canary", "fixtures/canary_twins.py", "twin comparison distinguishes a changed coefficient", differ, nontrivial=False)


def run_included(col, modname, fname, kwargs, oid, why, select_oid=None):
    from ..common import include

    include(col, modname, fname, kwargs, oid, why, select_oid=select_oid)
