"""helpers shared by the property modules"""

import ast
import os

import numpy as np

from . import ring, npmodel
from .ring import Poly, P, sym, ZERO, ONE
from .interp import Interp, ClassValue, ModuleValue, Instance, FunctionValue, InterpRaise
from .runner import SRC


def new_interp():
    it = Interp(src_root=SRC)
    return it


def rel(path):
    return os.path.relpath(path, os.path.join(SRC, "felupe"))


def symarray(name, shape, positive=False):
    out = np.empty(shape, dtype=object)
    for idx in np.ndindex(*shape):
        out[idx] = sym("%s[%s]" % (name, ",".join(map(str, idx))), positive=positive)
    return out


def constarray(vals):
    return npmodel.array(vals, dtype=npmodel.DType("float"))


def list_modules(pkg):
    """module names (felupe.<pkg>.<file>) for every python file in a package directory, recursively"""
    base = os.path.join(SRC, *pkg.split("."))
    out = []
    for root, dirs, files in os.walk(base):
        dirs.sort()
        for f in sorted(files):
            if f.endswith(".py"):
                relp = os.path.relpath(os.path.join(root, f), SRC)[:-3]
                parts = relp.split(os.sep)
                if parts[-1] == "__init__":
                    parts = parts[:-1]
                out.append(".".join(parts))
    return out


def classes_in(it, modname, base=None):
    """ClassValues defined in the module (optionally subclasses of base)"""
    m = it.module(modname)
    res = []
    for k, v in list(m.env.d.items()):
        if isinstance(v, ClassValue) and v.module is m:
            if base is None or (v is not base and v.issub(base)):
                res.append(v)
    res.sort(key=lambda c: c.node.lineno)
    return res


def functions_in(it, modname):
    m = it.module(modname)
    res = []
    for k, v in list(m.env.d.items()):
        if isinstance(v, FunctionValue) and v.module is m:
            res.append(v)
    res.sort(key=lambda c: c.node.lineno)
    return res


def where_of(v):
    """file:line of a ClassValue / FunctionValue"""
    if isinstance(v, ClassValue):
        return "%s:%d" % (rel(v.module.path), v.node.lineno)
    if isinstance(v, FunctionValue):
        return "%s:%d" % (rel(v.module.path), v.node.lineno)
    return "?"


def method_where(cls, name):
    f, owner = cls.find(name)
    if isinstance(f, FunctionValue):
        return "%s:%d" % (rel(f.module.path), f.node.lineno)
    return where_of(cls)


def arr_equal_entries(A, B):
    """list of index tuples where object arrays differ (identically)"""
    A = npmodel.to_obj(np.asarray(A)) if not (isinstance(A, np.ndarray) and A.dtype == object) else A
    B = npmodel.to_obj(np.asarray(B)) if not (isinstance(B, np.ndarray) and B.dtype == object) else B
    if A.shape != B.shape:
        return [("shape", A.shape, B.shape)]
    bad = []
    for idx in np.ndindex(A.shape):
        a, b = A[idx], B[idx]
        if a.t != b.t and not ring.is_zero(a - b):
            bad.append(idx)
    return bad


def nontrivial(p):
    return not P(p).is_const()


def finish_info(col, it):
    col.info.setdefault("functions_evaluated", [])
    for (mod, qn), ln in sorted(it.trace_functions.items()):
        s = "%s:%s:%d" % (mod.replace("felupe.", ""), qn, ln)
        if s not in col.info["functions_evaluated"]:
            col.info["functions_evaluated"].append(s)
    col.info.setdefault("files_consulted", {}).update(it.files_read)


def include(col, modname, fname, kwargs, oid, why, select=None, select_oid=None):
    """run a task of a neighbouring property inside this property's check and record its obligations under `oid`:
    clauses another property's machinery decides but which are necessary conditions of this property too (stated in `why`)"""
    import importlib

    mod = importlib.import_module("fverif.props." + modname)
    sub = type(col)()
    getattr(mod, fname)(sub, **kwargs)
    n = 0
    for o in sub.obs:
        if select is not None and not select(o):
            continue
        if select_oid is not None and o["oid"] not in ((tuple(select_oid) if isinstance(select_oid, (tuple, list)) else (select_oid,)) + ("task",)):
            continue
        o = dict(o)
        o["rule"] = "%s [%s; decided by the %s machinery, obligation %s]" % (o["rule"], why, modname.upper(), o["oid"])
        o["oid"] = oid
        col.obs.append(o)
        n += 1
    col.info["included_%s_%s" % (modname, fname)] = n
    for s_ in sub.info.get("functions_evaluated", []):
        col.info.setdefault("functions_evaluated", [])
        if s_ not in col.info["functions_evaluated"]:
            col.info["functions_evaluated"].append(s_)
    col.info.setdefault("files_consulted", {}).update(sub.info.get("files_consulted", {}))
    return n
