#!/usr/bin/env python3
"""Generate /verif/MANIFEST.json from the table below (kept in one place so that claimed /
not-applicable lists stay consistent)."""
import json
import os

HERE = os.path.dirname(os.path.dirname(os.path.abspath(__file__)))

CLAIMED = {
    "C04": dict(
        category="proof",
        text="All clauses of C04 are decided as polynomial identities over Q on the closed forms written in the source: every "
        "Element subclass (discovered, floor 17) is evaluated from its AST on symbolic reference coordinates; gradient = d function, "
        "hessian = d gradient and symmetric, Kronecker property at the class's own points table, partition of unity, completeness "
        "for the documented polynomial space, bubble functions vanish on every facet for a symbolic multiplier, permutation tables "
        "are permutations. Holds for all points of the cell at once, which no sampling test can give.",
        design_ref="DESIGN.md section 3, C04",
        note="Trusted: numpy array semantics on object dtype as summarised in fverif/npmodel.py; the exact ring (cross-checked "
        "against sympy in setup); the completeness-degree table (spec). Real arithmetic, not floating point.",
        technique="algebraic value numbering of the element methods (AST evaluation over an exact polynomial ring), polynomial identity test",
    ),
}

CLAIMED["C17"] = dict(
    category="proof",
    text="Every public routine of felupe/math (41 discovered, floor 41) is evaluated from its AST on symbolic arrays whose batch items "
    "carry distinct generators (so any mixing of batch items is visible), for all modes, tensor dimensions 1..3, broadcast "
    "(size-one) axes, parallel on/off, out=None/dirty reused buffer, supplied determinant, symmetric shortcut, and is compared "
    "entry-wise, as an identity of rational functions, with a reference definition written in the checker (index formulas by "
    "brute force, Leibniz determinant, cofactors, Rodrigues rotation, spectral sums); inputs are compared before/after. Eigen "
    "routines and the solver inside solve_nd are opaque: the axis bookkeeping around them is what is proved.",
    design_ref="DESIGN.md section 3, C17",
    note="Trusted: numpy semantics on object dtype (views, out=, broadcasting); numpy.linalg eigen-solvers and the injected linear "
    "solver; einsumt == einsum for equal subscripts; the reference definitions in fverif/props/c17.py. ravel(trailing_axes != 2) "
    "is outside the property's list of routines and not exercised.",
    technique="algebraic value numbering of felupe.math over an exact ring; comparison of normal forms with reference definitions",
)
CLAIMED["C05"] = dict(
    category="proof",
    text="Every Scheme subclass (7 discovered) is constructed by AST evaluation for all documented (order, dim, permute) combinations "
    "(172 instances); for every monomial of the documented degree set the quadrature sum is compared with the closed-form integral: "
    "exactly for rational / square-root constants, within the enclosure implied by the written digits for truncated float literals "
    "(literal = lit + ulp*eps, eps symbolic in [-1,1]), and to 1e-50 for rules built on numpy's leggauss (summarised to 70 digits). "
    "Multi-dimensional Gauss rules: 1D exactness + tensor-product structure (complete by Fubini) + exponent-box corner monomials. "
    "Also: points in the closed domain, boundary variants = lower rule with -1 appended, permutation = reordering, point order "
    "agrees with the matching element's reference points.",
    design_ref="DESIGN.md section 3, C05",
    note="Trusted: numpy.polynomial.legendre.leggauss returns the n-point Gauss-Legendre rule; numpy meshgrid/stack/reshape on object "
    "arrays; the documented-degree table and closed-form integrals in fverif/props/c05.py; a literal with >= 6 significant digits "
    "is the rounding/truncation of an exact constant (1 ulp). The sphere rule is checked for even total degree <= 8 (it stores "
    "one hemisphere with doubled weights; odd degrees vanish by antipodal symmetry of the intended integrand).",
    technique="constant-table analysis: scheme tables extracted by AST evaluation, exact rational / interval comparison with closed-form monomial integrals",
)

CLAIMED["C03"] = dict(
    category="proof",
    text="For every hand-coded constitutive class (discovered by AST: 18 classes with gradient and hessian) and every parameter "
    "configuration that changes control flow, the methods are evaluated from the AST on a symbolic deformation gradient, symbolic "
    "parameters, p, J and state; each tensor entry is one obligation: stress == d energy/dF, elasticity == d stress/dF, all six "
    "blocks of the mixed u/p/J forms == the mixed second derivatives (inner material an opaque hyperelastic W(F) with derivative "
    "atoms), pseudo-elastic softening in both generic cases of the max-history switch, small-strain framework and the radial-return "
    "plasticity tangent on both sides of the yield surface (consistent tangent as total derivative through eps = sym(F-1)), composite, "
    "kinematic quantities, and the push-forward algebra of the tensortrax/jax wrappers with the AD libraries as opaque derivative "
    "operators. Inputs unchanged; out= dirty buffers give the same values. Identities of rational functions modulo det(F)^(p/q), Log, Erf, sqrt relations.",
    design_ref="DESIGN.md section 3, C03",
    note="Trusted: numpy object-array semantics; tensortrax/jax differentiate the function they are handed (pure-AD models - "
    "viscoelastic, MORPH - have no hand-derived tangent and are covered only through that trust); generic point (det F != 0, "
    "moduli != 0); behaviour at the non-smooth points is excluded as in the property.",
    technique="algebraic value numbering over an exact ring with function atoms; formal total derivative; entry-wise identity test",
)

CLAIMED["C11"] = dict(
    category="proof",
    text="Hand-coded finite-strain models (8 configurations) are evaluated on a symbolic F: P(QF) == Q P(F) and P(FQ) == P(F) Q for a "
    "symbolic rotation about each coordinate axis (computed in the quotient ring with s^2 = 1 - c^2; the axis rotations generate "
    "SO(3)), P F^T symmetric, major symmetry of A, P(1) == 0. Every AD model function (28 discovered, both backends): stress-free "
    "reference state as dW/dC == 0 at C = 1 with symbolic parameters (entry-wise on a full symmetric C, or on the ray C = s 1 for "
    "eigenvalue-based isotropic energies), W(kC) == W(C) for the isochoric ones, W(Q^T C Q) == W(C) or use of C only under "
    "eigvalsh/det/trace; the AD wrapper's stress is F S(F^T F) with symmetric S (hence objective, P F^T symmetric, major symmetry); "
    "every Lagrange-wrapped material satisfies P(QF) == Q P(F) with F in principal axes and full symbolic state.",
    design_ref="DESIGN.md section 3, C11",
    note="Trusted: summaries of tensortrax.math / jax.numpy; eigvalsh is a symmetric function of the eigenvalue multiset; for the "
    "micro-sphere models the 21-point rule is replaced by an exact rule with the same second moments (which C05 proves for the "
    "real rule up to its literal precision). MORPH at the exact virgin state (0/0) is not decided. One KNOWN FINDING is reported on the "
    "unchanged tree (known_findings.txt): tensortrax morph hands a non-symmetric matrix to its symmetric-only expm, so P F^T is not symmetric for "
    "histories that are not coaxial with C; every other violation is still reported. The sibling identity of the Lagrange models (C12.O1) and the "
    "AD-wrapper algebra (C03.O9) are included.",
    technique="algebraic value numbering in a quotient ring (symbolic rotations), jets at the reference state, scaling identities",
)
CLAIMED["C12"] = dict(
    category="proof",
    text="Every function under constitution/jax/models (21 discovered from the AST) is paired with its tensortrax namesake and both "
    "bodies are evaluated in the same abstract world (diagonal and full symmetric C, symbolic stretches, symbolic parameters, both "
    "cases of max()); they must return the same canonical ring element. Hand-coded NeoHooke vs AD neo_hooke (also for a full F via "
    "the verified identity det(F^T F) = det(F)^2), OgdenRoxburgh's softening function vs the AD version, LinearElastic vs "
    "LinearElasticTensorNotation vs the small-strain framework's linear-elastic law (9 stress + 81 tangent entries as rational "
    "functions of E, nu), plane strain / plane stress vs the 3D law under the kinematic / static constraint, the orthotropic tensor "
    "vs the second derivative of the orthotropic SVK energy at C = 1 through lame_converter_orthotropic.",
    design_ref="DESIGN.md section 3, C12",
    note="Trusted: backend idioms are mapped to the same abstract operations (fverif/admodels.py); the jax-only eigenvalue "
    "regularisation C + diag(+-1e-4) is recognised, logged and treated as C (a larger shift is reported); the Lagrange (stress-type) "
    "models are compared with F in principal axes. Documented initial moduli (O6): the second-order jet of each energy at C = 1 is compared with a frozen table of the docstrings' closed forms (thirteen models, both backends; a model without a documented closed form has no entry). One KNOWN FINDING is reported on the "
    "unchanged tree (known_findings.txt): the MORPH backends pass a non-symmetric matrix to eigvalsh / tensortrax expm and differ by 6 % for "
    "non-coaxial histories; every other violation is still reported. Huge expressions are first compared at an exact rational point.",
    technique="algebraic value numbering of sibling implementations; equality of canonical forms",
)

CLAIMED["C01"] = dict(
    category="proof",
    text="Every class under felupe/mechanics that builds Assemble(vector=, matrix=) (12 discovered) is instantiated from source on a "
    "symbolic micro-instance: felupe's own Field / FieldPlaneStrain / FieldAxisymmetric / FieldContainer on a fake region with symbolic "
    "basis arrays and symbolic field values; the material is an arbitrary hyperelastic energy given as an opaque function atom. The "
    "assembled vector r and matrix K (dense value of the abstract sparse matrix, i.e. after global placement) satisfy "
    "K[I,J] == d r[I]/d x[J] for every pair of global unknowns -- 3D, plane strain, axisymmetric, mixed u/p/J (NearlyIncompressible, "
    "ThreeFieldVariation), the condensed nearly-incompressible body at the settled state its own extract produces, follower pressure, "
    "Cauchy-stress load, multi-point constraint and contact (both sides of the switch), and K == K^T where required; load items: "
    "vector independent of the unknowns, zero matrix; the solver applies the multiplier alike to vector and matrix; repeated "
    "assembly returns the same values.",
    design_ref="DESIGN.md section 3, C01",
    note="Trusted: C03 for each concrete material (here an opaque W); scipy.sparse summaries; the micro-instance bound (2 cells x 2 "
    "basis functions x 2 quadrature points; the kernels' index algebra is size-polymorphic). ThreeFieldVariation on an "
    "axisymmetric field is run in the thorough tier only (expression size).",
    technique="algebraic value numbering end-to-end on a symbolic micro-instance; total derivative of the assembled vector",
)
CLAIMED["C02"] = dict(
    category="proof",
    text="IntegralFormCartesian (linear / bilinear, all four grad flag combinations, scalar and vector fields on two different regions, "
    "explicit and omitted size-one integrand axes, None integrand), IntegralFormAxisymmetric (modes 1, 2, 30, 10, 40 incl. None), "
    "IntegralForm block modes 1/2/3 with absent blocks, trimming of 3D integrands on 2D fields, uniform-region broadcast and the "
    "parallel flag are evaluated from source on the symbolic micro-instance; the dense value of the assembled sparse matrix is "
    "compared entry-wise with the defining sums coded in the checker, including the global row/column of every contribution "
    "(field indices come from felupe's own Field._indices_per_cell) and the 2 pi R weight / hoop terms on the radial component.",
    design_ref="DESIGN.md section 3, C02",
    note="Trusted: scipy.sparse duplicate summation, bmat/vstack (summarised); einsumt == einsum; the defining sums in "
    "fverif/props/c02.py; BasisArray (ndarray subclass) replaced by a checker-side twin. The Form expression API (O9: bilinear / linear / "
    "mixed forms, all parallel x sym combinations, re-assembly on other fields) and the thread discipline (O8.ii: recording Thread stand-in, "
    "single writer per slot of the shared buffer, all threads joined) are covered by fverif/props/c02_expr.py. The value-type "
    "axisymmetric linear form with a 3-component integrand is not specified by the property and not checked.",
    technique="algebraic value numbering of the assembly kernels on a symbolic micro-instance; comparison with defining sums",
)

CLAIMED["C06"] = dict(
    category="proof",
    text="Region.reload is evaluated from source on symbolic, arbitrarily distorted cells (nodal coordinates, reference gradients with "
    "the zero-sum property of C04, weights all generators; dims 1-3): dXdr, drdX (inverse), dV = det * w, reproduction of constants "
    "and linear functions by dhdX, the exact second derivative of h(r(X)) (incl. the geometry term dh/dX . d2X/drdr; hessian of constants and "
    "linear fields vanishes on distorted cells), uniform evaluation of the first cell, re-evaluation histories (reload / copy / astype after the mesh moved, after "
    "another region used the element object, after uniform=True); translation invariance of every template's geometry map; the negative-volume "
    "warning is reached iff some dV < 0 (both sign cases via an order oracle); Field / FieldPlaneStrain / FieldAxisymmetric "
    "interpolate, grad, hess, extract against their defining sums (zero padding, F33 = 1 + u_r/R with the radial component and "
    "coordinate at index 1); every Region* template (25 discovered, evaluated with Region.__init__ intercepted) pairs its element "
    "with a default rule whose documented exactness covers the degree of products of the element's gradients (from C04's polynomials).",
    design_ref="DESIGN.md section 3, C06",
    note="Not decided (sums over runtime data; they follow from these identities with C04 and C05): volumes summing to the geometric "
    "volume on a concrete mesh, equality across element families, rigid-motion invariance, float32 arithmetic (the cast / copy / reload bookkeeping of the cached arrays is decided: O7; shared default "
    "schemes: O8). Reproduction of "
    "higher-order polynomials on affine cells follows from the push-forward identities and C04's completeness. Two KNOWN FINDINGS are reported on the "
    "unchanged tree (known_findings.txt): the MINI templates use the hierarchical bubble function in the geometry map, so dV changes under a translation of the mesh (C06.O12).",
    technique="algebraic value numbering of Region.reload and the field kernels on symbolic cells; degree computation on the element polynomials",
)
CLAIMED["C10"] = dict(
    category="proof",
    text="On the symbolic micro-instance with an arbitrary hyperelastic energy: plane-strain nodal forces are the derivative of the energy "
    "of the unit-thickness 3D slab with suppressed out-of-plane displacement; axisymmetric nodal forces are the derivative of "
    "sum W(F) 2 pi R dA with F33 = 1 + u_r/R; the condensed nearly-incompressible body's residual equals the displacement residual of "
    "the explicit (u, p, J) formulation with cell-wise constant p, J at the solution of the p- and J-equations (which vanish identically "
    "there), the settled state is J = v/V, p = bulk (J - 1), and _extract performs the exact Newton update J <- (h:du + v)/V, "
    "p <- bulk (J - 1); a uniform region assembles the same vector and matrix as the general region on identical cells.",
    design_ref="DESIGN.md section 3, C10",
    note="Not decided: that both formulations converge to equal numbers (iteration and solver accuracy) and the revolved-3D limit of "
    "axisymmetric models. Stiffness equality follows from C01 (matrix = derivative of these vectors).",
    technique="algebraic value numbering; total derivative of an energy functional; substitution of the condensed solution",
)

CLAIMED["C13"] = dict(
    category="proof",
    text="The six face / rotated-cell tables (boundary_cells_quad/8/9, hexahedron/20/27), extracted by evaluating the functions from source, "
    "are checked against the matching element class's reference points: every rotated cell is the reference cell re-parametrised by a "
    "proper rotation (signed permutation matrix, det +1), its listed face nodes are exactly the nodes of the facet xi_last = -1, the "
    "faces are pairwise distinct and cover all sides. RegionBoundary._init_faces on a symbolic Jacobian: dA orthogonal to the facet with "
    "dA . dX/dxi_last == -det(dXdr) w (outward for positive volumes), unit normals, unit tangents orthogonal to dA, ensure_3d padding. "
    "RegionBoundary.__init__ on distorted two-cell meshes of all six cell types with exact rational coordinates: surface = faces whose "
    "node set occurs once, mask = faces all of whose points satisfy it (only_surface on/off x 3 masks), area vectors sum to zero and "
    "the flux of the position vector equals dim * volume exactly.",
    design_ref="DESIGN.md section 3, C13",
    note="Closure on every valid mesh follows from the per-face rotation property and the divergence theorem (stated, not mechanised); "
    "it is additionally verified exactly on one distorted two-cell mesh per cell type.",
    technique="constant-table analysis with exact rational geometry; algebraic value numbering of _init_faces",
)
CLAIMED["C16"] = dict(
    category="proof",
    text="triangulate tables (quad; hexahedron modes 0 and 3): positive sub-cells, volumes sum to the cell, conforming tiling; flip: "
    "orientation-reversing for all five listed cell types, masks; mirror keeps positive orientation and volume for exact rational unit "
    "normals; expand / revolve: corner Jacobians of generated cells == base Jacobian * layer thickness / 2 with symbolic base "
    "coordinates and thickness, layer numbering, revolved cells positive incl. the closed 360 degree case; collect_edges/faces/volumes, "
    "add_midpoints_*, convert: vertex sets are exactly the edges / faces / cell, inserted points are centroids of all their vertices "
    "(symbolic coordinates), and on the reference cell the result is the target element's point table in order (triangle6, tetra10, "
    "quad8/9, hexahedron20/27); line / rectangle / cube generators with symbolic bounds; translate, rotate (distances preserved for a "
    "symbolic angle); concatenate, stack, dual, merge_duplicate_points bookkeeping.",
    design_ref="DESIGN.md section 3, C16",
    note="Circle and Triangle generators are evaluated from source (griddata summarised for its one use, trig constants to 80 digits "
    "where np.round needs them) for radii 1e-10 ... 1e7. Not decided: the rounding-tolerance clause of merge_duplicate_points for binary "
    "floats near a rounding boundary, arbitrary compositions on concrete meshes (each transformation is covered on its own).",
    technique="constant-table analysis with exact rational geometry; algebraic value numbering for symbolic coordinates",
)

CLAIMED["C07"] = dict(
    category="proof",
    text="Flow analysis (abstract interpretation of newtonrhapson's AST with three-valued booleans and the range-loop fact, all paths, any "
    "maxiter): success is True at every return; with success True no raise is reachable after the loop; loop exhaustion, zero iterations "
    "and NaN norms end in a raise; the residual handed to check() and stored in the result is re-assembled after the last update; "
    "update_statevars is only called under a guard implying success and nothing else in the package assigns results.statevars outside "
    "constructors. Evaluation of check() on symbolic data: fnorm = |f[dof1]| / (eps + |f[dof0]|), success = fnorm < ftol and xnorm < xtol. "
    "Scripted abstract runs of the real Newton loop (field containers, link, solve/partition, update, check all from source; every "
    "convergence pattern up to 3 iterations, maxiter 0, NaN): each linear solve receives K[dof1][:,dof1] and -f[dof1] - K[dof1][:,dof0] "
    "(ext0 - u0) at the current iterate with multipliers applied, the increment is ext0 - u0 on prescribed unknowns so the returned "
    "field carries exactly the prescribed values, no entry is left unwritten, the returned residual is the one assembled at the returned "
    "field, state is committed iff converged, non-convergence raises.",
    design_ref="DESIGN.md section 3, C07",
    note="Trusted: spsolve solves what it is given. Not decided: sizes of residuals as numbers, one-step convergence of linear problems.",
    technique="flow analysis (abstract interpretation on the function AST) + algebraic value numbering of scripted runs",
)
CLAIMED["C08"] = dict(
    category="proof",
    text="Numbering formulas with symbolic point ids (cai == dim*cells+i, indices.dof == dim*p+i, Boundary.dof == dof[mask]); FieldContainer "
    "offsets and all eight arithmetic operators / math.values split the global vector at the offsets in container order; dof.partition and "
    "dof.apply evaluated from source with felupe's Boundary objects on 2D/3D lattice meshes (a point without cells, mixed container) for "
    "an exhaustive family of boundary dictionaries (predicates, and/or, every skip tuple, point and dof masks, scalar and array values, "
    "overlaps on both fields) against the set semantics; symmetry / uniaxial / biaxial / shear for every discrete argument combination "
    "(580+ configurations) against the mechanics table.",
    design_ref="DESIGN.md section 3, C08",
    note="The load-case table follows the code's, the mechanics' and every caller's reading of `symmetry` (a plane fixes its normal "
    "component); the table in that function's docstring lists the complemented skip tuples (documentation inconsistency, recorded "
    "in DESIGN.md, not enforced). Coordinate predicates on inexact runtime coordinates are not decided.",
    technique="exhaustive enumeration of discrete configurations on small lattice meshes (source evaluated, not run) + symbolic point ids",
)
CLAIMED["C09"] = dict(
    category="other",
    text="Narrow structural claim: the material-curve ansatz / root function / reported force of ViewMaterial and "
    "ViewMaterialIncompressible (uniaxial, planar, biaxial; with and without state variables, increments threaded in order) and the "
    "characteristic-curve callback (x = displacement of the first boundary point, y = sum over all boundary points of the first field's "
    "residual rows) are decided by evaluating the source with recording stand-ins.",
    design_ref="DESIGN.md section 3, C09",
    note="That the computed field of a patch test is the affine map, and that the reaction equals the analytic stress times the area, are "
    "end-to-end numerical statements (Newton convergence on concrete meshes) and are NOT decided by this family; their ingredients are "
    "C02, C04-C08, C14, C15.",
    technique="algebraic value numbering with recording summaries of the material and the root finder",
)
CLAIMED["C14"] = dict(
    category="proof",
    text="On the symbolic micro-instance with a basis that is a partition of unity (the fact C04/C06 prove for every region): internal "
    "nodal forces of a solid body with an arbitrary hyperelastic energy sum to zero per component (axial only when axisymmetric) for 3D, "
    "plane strain, axisymmetric and 2D fields; with a region built by Region.reload on a symbolic cell and a material with symmetric "
    "Kirchhoff stress the total moment vanishes; body force / gravity vectors are the value form of scale * values on the first field and "
    "sum to scale * values * volume; point loads hold exactly the given values (times 2 pi R when axisymmetric) in the right rows of the "
    "right field; follower pressure == sum N_a (-p) cof(F) N dA with multiplier -1; the mass matrix is a symmetric Gram matrix carrying "
    "rho * volume per direction; multi-point constraint forces are self-equilibrated.",
    design_ref="DESIGN.md section 3, C14",
    note="Trusted: C04.O4/C06.O1, C11.O1 (P F^T symmetric per material), C02. Resultants as numbers on a concrete mesh are not decided.",
    technique="algebraic value numbering on a symbolic micro-instance; resultants as identities",
)
CLAIMED["C15"] = dict(
    category="proof",
    text="Step.generate (interpreted lazily as a generator) drives the real newtonrhapson on symbolic data for every convergence history of "
    "3 substeps x up to 2 Newton iterations (19 histories, with and without a start field) and, with a scripted solver stub, every "
    "pattern of reported success/failure: ramp value i is applied to every ramped item before partition/apply/Newton of substep i, a "
    "result is yielded iff the substep converged, nothing is started after a failure, substep i+1 starts from the values substep i "
    "converged on, state is committed exactly at each converged evaluation. Flow rule: every yield is reached only with res.success "
    "true and no solve starts once the stop flag is set. SolidBody writes trial state only; committed state arrays handed to materials "
    "are unchanged; pseudo-elastic softening stores max(W, old) with eta == 1 on the primary path; the radial return satisfies the yield "
    "condition after the update and increases the equivalent plastic strain by sqrt(2/3) dgamma, dgamma = f / (2 mu + 2K/3).",
    design_ref="DESIGN.md section 3, C15",
    note="Histories are enumerated exhaustively up to the stated bounds on the real control code with abstract data; path independence of "
    "converged results for elastic materials is a convergence statement and not decided.",
    technique="bounded exhaustive enumeration of convergence histories on the source (abstract data), flow rule, algebraic value numbering",
)
CLAIMED["C18"] = dict(
    category="other",
    text="Structural clauses: the pencil handed to the eigen-solver is built correctly (K and M summed over all items, resized to the global "
    "shape, K with the item multiplier, both sliced with the same free unknowns, sigma forwarded), extracted modes are scattered to the "
    "free unknowns of zeroed fields (vanish on prescribed unknowns), frequency = sqrt(lambda)/(2 pi), inplace semantics, and the mass "
    "matrix of both solid-body classes is the symmetric Gram matrix of the first field (also on axisymmetric fields).",
    design_ref="DESIGN.md section 3, C18",
    note="That each returned pair satisfies K v = lambda M v, the number of zero-frequency modes and rigid-motion invariance are properties "
    "of eigsh's output on runtime matrices: NOT decided by this family.",
    technique="algebraic value numbering with a recording eigen-solver",
)
CLAIMED["C19"] = dict(
    category="proof",
    text="Kirchhoff = P F^T and Cauchy = P F^T / det F in all three implementations (two solid bodies, tools.save) for an arbitrary stress; "
    "per-cell view data are quadrature-point means of the named quantity; tools.force / tools.moment sum nodal forces and (X+u-c) x f "
    "over the boundary's points of the first field's block; topoints = mean over attached cells (weighted quadrature mean first with "
    "mean=True); project builds (int N_a N_b dV) x = int N_a values dV with the region's dV and has fields of the region's space as "
    "fixed points; the extrapolation identity for Quad / Hexahedron with the order-1 rule.",
    design_ref="DESIGN.md section 3, C19",
    note="Trusted: spsolve; C02, C04, C05. Numerical solves and project on templates with an insufficient rule (runtime check) are not decided.",
    technique="algebraic value numbering on a symbolic micro-instance",
)
CLAIMED["C20"] = dict(
    category="other",
    text="Structural clauses against a recording summary of meshio: per converged substep exactly one frame, after the callback and before "
    "the next solve, with time = frames written so far and data callbacks receiving field=substep.x; nothing for a substep that did not "
    "converge (all 16 success patterns of 2 steps x 2 substeps); default point data = first field's displacement padded to 3 columns, "
    "default per-cell deformation gradient = quadrature mean; tools.save passes displacements and the first force block through "
    "unchanged; Mesh.write pads to 3 columns and read cuts to dim, cells and type passed through for all 12 cell types; a mesh container "
    "shares one point array among its meshes after construction, append and merge.",
    design_ref="DESIGN.md section 3, C20",
    note="Byte-level round-trip fidelity is meshio's behaviour at run time: NOT decided by this family.",
    technique="evaluation of the job / mesh code from source against a recording summary of meshio (scripted solver outcomes)",
)

NOT_APPLICABLE = {}

TODO_REASON = "check not built yet in this session (static rule designed in DESIGN.md; will be claimed once its checker is committed)"


def main():
    props = [json.loads(l) for l in open(os.path.join(HERE, "properties.jsonl"))]
    checks = []
    na = []
    for p in props:
        pid = p["id"]
        if pid in CLAIMED:
            c = CLAIMED[pid]
            checks.append(dict(
                property_id=pid,
                quick_cmd="python3-vt -m fverif check %s --tier quick" % pid,
                thorough_cmd="python3-vt -m fverif check %s --tier thorough" % pid,
                evidence_file="/verif/evidence/%s.json" % pid,
                replay_cmd_template="cat {path}",
                engine="fverif",
                level_claimed=dict(category=c["category"], text=c["text"], design_ref=c["design_ref"]),
                level_note=c["note"],
                technique=c["technique"],
            ))
        else:
            na.append(dict(property_id=pid, reason=NOT_APPLICABLE.get(pid, TODO_REASON)))
    man = dict(
        version=1,
        setup_cmd="cd /verif && python3-vt -m fverif setup",
        hooks=dict(
            guard="ADTZLR_FELUPE_VERIF",
            enable="none needed: the checks parse /repo/src/felupe with ast on every run and never import or execute it; the guard is declared but guards nothing",
            baseline_off_cmd="cd /repo && /venv/bin/python -m pytest -ra -q -p no:cacheprovider --timeout=900 --continue-on-collection-errors",
            source_commits=[],
            add_only=True,
        ),
        engines=[
            dict(name="fverif", path="/verif/fverif", serves_properties=sorted(CLAIMED),
                 kind_free_text="static analysis: AST evaluator over an exact polynomial ring (algebraic value numbering / SCCP), "
                 "statement-CFG flow rules, constant-table geometry; never imports or runs felupe"),
        ],
        checks=checks,
        notes="Static analysis only (see DESIGN.md). Exit codes: 0 ok, 1 VIOLATION, 2 ANALYSIS-ERROR (fail closed). "
        "fix: commits in /repo are recorded in /verif/known_findings.txt.",
        not_applicable=na,
    )
    with open(os.path.join(HERE, "MANIFEST.json"), "w") as f:
        json.dump(man, f, indent=1)
    print("wrote MANIFEST.json: %d checks, %d not applicable" % (len(checks), len(na)))


if __name__ == "__main__":
    main()
