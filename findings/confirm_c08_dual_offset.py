"""FieldDual(..., offset=k) on a region whose dual mesh is connected (quadratic triangle / tetra, MINI): the parent mesh's cells must stay unchanged."""
import numpy as np
import felupe as fem

mesh = fem.Rectangle(n=3).triangulate().add_midpoints_edges()
region = fem.RegionQuadraticTriangle(mesh)
cells0 = mesh.cells.copy()
u = fem.Field(region, dim=2)
idx0 = u.indices.cai.copy()
p = fem.FieldDual(region, dim=1, offset=2)
print("parent cells changed:", not np.array_equal(mesh.cells, cells0), " max shift", abs(mesh.cells - cells0).max())
u2 = fem.Field(region, dim=2)
print("indices of a second field on the same region differ:", not np.array_equal(u2.indices.cai, idx0))
assert np.array_equal(mesh.cells, cells0)
print("ok")
