"""C05 -- quadrature exactness on the tables the constructors build (DESIGN.md section 3, C05)."""

import itertools
import math
from decimal import Decimal
from fractions import Fraction

import numpy as np

from .. import ring, npmodel, numeric
from ..ring import P, sym, is_zero, ZERO, ONE, Poly
from ..common import new_interp, classes_in, list_modules, finish_info, where_of
from ..interp import InterpRaise

SPEC = dict(
    level="proof",
    rule="every Scheme subclass found under felupe/quadrature is instantiated (AST evaluation of __init__) for all documented "
    "(order, dim, permute) combinations; for every monomial of the documented degree set sum_q w_q m(x_q) is compared with the "
    "closed-form integral. Exact constants (p/q, square roots) are compared exactly; a float literal written with >= 6 significant "
    "digits is lit + ulp*eps with eps in [-1,1] symbolic, and exactness is required within the enclosure of the residual "
    "(|constant part| <= sum |eps coefficients|); numpy's leggauss is summarised by the n-point Gauss-Legendre rule to 70 digits. "
    "Multi-dimensional Gauss rules: exactness of the 1D marginal + tensor-product structure (complete by Fubini) + corner monomials "
    "of the exponent box. non-trivial = monomial of positive degree / structural table comparison",
    trusted_base=[
        "numpy.polynomial.legendre.leggauss(n) returns the n-point Gauss-Legendre rule (summarised to 70 digits)",
        "numpy array semantics on object dtype (meshgrid, stack, reshape, einsum re-implemented)",
        "closed-form monomial integrals and the documented-degree table in fverif/props/c05.py (spec)",
        "a float literal with >= 6 significant digits is meant as the nearest-or-truncated decimal of an exact constant (1 ulp)",
    ],
    explanation="constant-table analysis with exact rational arithmetic on the evaluated scheme tables",
    exhaustive=True,
    not_decided=["numpy's leggauss itself"],
    assumptions=["real arithmetic"],
)

FLOORS = {"scheme classes": ("scheme_classes", 7), "scheme instances": ("scheme_instances", 70)}


def literal_hook(it, node, v):
    s = repr(v)
    mant = s.lower().split("e")[0].replace("-", "").replace(".", "").lstrip("0")
    if len(mant) < 6:
        return None
    d = Decimal(s)
    ulp = Fraction(Decimal(1).scaleb(d.as_tuple().exponent))
    mod, qn, ln = it.stack[-1]
    name = "eps@%s:%d:%d" % (mod.name.split(".")[-1], node.lineno, node.col_offset)
    return Poly.const(Fraction(d)) + ring.sym(name) * ulp


def interp_for_c05():
    it = new_interp()
    it.literal_hook = literal_hook
    return it


def _discover(it):
    base = it.get("felupe.quadrature._scheme:Scheme")
    out = []
    for mn in list_modules("felupe.quadrature"):
        if mn == "felupe.quadrature":
            continue
        for c in classes_in(it, mn, base):
            out.append((mn, c.name))
    return out


def configs(clsname):
    if clsname == "GaussLegendre":
        return [dict(order=o, dim=d, permute=p) for o in range(9) for d in (1, 2, 3) for p in (True, False)
                if not (d == 3 and o > 5 and p)] + []
    if clsname == "GaussLegendreBoundary":
        return [dict(order=o, dim=d, permute=p) for o in range(6) for d in (2, 3) for p in (True, False)]
    if clsname == "GaussLobatto":
        return [dict(order=o, dim=d) for o in range(6) for d in (1, 2, 3)]
    if clsname == "GaussLobattoBoundary":
        return [dict(order=o, dim=d) for o in range(6) for d in (2, 3)]
    if clsname in ("Triangle", "Tetrahedron"):
        return [dict(order=o) for o in (1, 2, 3, 5)]
    if clsname == "BazantOh":
        return [dict(n=21)]
    if clsname == "Scheme":
        return []
    return None


def tasks(tier):
    it = interp_for_c05()
    ts = [("discovery", "run_discovery", {})]
    for mn, cn in _discover(it):
        cf = configs(cn)
        if cf is None:
            ts.append(("unknown:" + cn, "run_unknown", dict(clsname=cn)))
            continue
        # group configs per (class, dim) to balance the load
        groups = {}
        for c in cf:
            groups.setdefault((c.get("dim"), c.get("order", 0) // 3), []).append(c)
        for k, g in sorted(groups.items(), key=str):
            ts.append(("%s %s" % (cn, k), "run_scheme", dict(modname=mn, clsname=cn, cfgs=g, tier=tier)))
    ts.append(("permutation-vs-element", "run_perm", dict(tier=tier)))
    ts.append(("purity", "run_purity", {}))
    ts.append(("canary", "run_canary", {}))
    return ts


def run_unknown(col, clsname):
    col.undecided("C05.spec", clsname, "documented degree table", "scheme class %s has no entry in the checker's configuration table" % clsname)


def run_discovery(col):
    it = interp_for_c05()
    found = _discover(it)
    col.info["scheme_classes"] = [c for _, c in found]
    col.info["scheme_instances"] = sum(len(configs(c) or []) for _, c in found)
    finish_info(col, it)


# -- closed-form integrals ------------------------------------------------------------------
def int_cube(e):
    r = Fraction(1)
    for k in e:
        if k % 2:
            return Fraction(0)
        r *= Fraction(2, k + 1)
    return r


def int_simplex(e):
    d = len(e)
    num = 1
    for k in e:
        num *= math.factorial(k)
    return Fraction(num, math.factorial(sum(e) + d))


def dfact(n):
    r = 1
    while n > 1:
        r *= n
        n -= 2
    return r


def int_sphere_mean(e):
    if any(k % 2 for k in e):
        return Fraction(0)
    num = 1
    for k in e:
        num *= dfact(k - 1)
    return Fraction(num, dfact(sum(e) + 1))


def residual_ok(r):
    """r: ring element = quadrature sum - exact integral. Exact parts must vanish identically;
    parts with literal-uncertainty symbols must contain 0 in their enclosure."""
    r = ring.expand_pows(P(r))
    if not r.t:
        return True, "exact"
    # group by the non-eps part of each monomial
    groups = {}
    for m, c in r.t.items():
        rest = tuple((g, e) for g, e in m if not (g > 0 and ring.G.info[g]["kind"] == "sym" and ring.G.info[g]["name"].startswith("eps@")))
        eps = len(rest) != len(m)
        d = groups.setdefault(rest, [Fraction(0), Fraction(0)])
        if eps:
            d[1] += abs(c)
        else:
            d[0] += c
    worst = None
    for rest, (c0, s) in groups.items():
        if any(g > 0 and ring.G.info[g]["kind"] != "sym" for g, _ in rest):
            # a root atom multiplies this group: decide the whole residual numerically-rigorously instead
            cen, rad = numeric.approx(r)
            if abs(cen) <= rad + Fraction(1, 10 ** 60):
                return True, "enclosure contains 0 (|%s| <= %s)" % (float(cen), float(rad))
            # exact decision
            if is_zero(r):
                return True, "exact (after root relations)"
            return False, "residual %.3e, enclosure radius %.3e" % (float(cen), float(rad))
        if abs(c0) > s:
            worst = (c0, s, rest)
    if worst is None:
        return True, "within literal precision"
    c0, s, rest = worst
    return False, "residual %.6e exceeds what the written digits allow (%.3e)" % (float(c0), float(s))


LEGGAUSS_TOL = Fraction(1, 10 ** 50)


def monomial_sum(points, weights, e):
    acc = ZERO
    n, d = points.shape
    for q in range(n):
        t = weights[q]
        for i in range(d):
            if e[i]:
                t = t * points[q, i] ** e[i]
        acc = acc + t
    return acc


def check_monomials(col, label, where, points, weights, monos, integral, uses_leggauss, oid="C05.O1"):
    for e in monos:
        want = integral(e)
        name = "*".join("%s^%d" % ("xyz"[i], k) for i, k in enumerate(e) if k) or "1"

        def chk(e=e, want=want):
            r = monomial_sum(points, weights, e) - want
            if uses_leggauss and r.is_const():
                v = r.const_value()
                return abs(v) <= LEGGAUSS_TOL, "residual %.3e (leggauss summary accurate to 1e-70)" % float(v), sum(e) > 0
            okk, detail = residual_ok(r)
            return okk, "%s: %s" % (where, detail), sum(e) > 0

        col.check(oid, "%s integrates %s" % (label, name), "sum_q w_q m(x_q) == closed-form integral of m over the reference domain", chk)


def in_domain(kind, pt):
    """pt: list of (center, radius) enclosures"""
    lo = [c - r for c, r in pt]
    hi = [c + r for c, r in pt]
    tol = Fraction(1, 10 ** 40)
    if kind == "cube":
        return all(h >= -1 - tol and l <= 1 + tol for l, h in zip(lo, hi))
    if kind == "simplex":
        return all(h >= -tol for h in hi) and sum(lo) <= 1 + tol
    if kind == "sphere":
        # |x| = 1 within the enclosure
        lo2 = sum(min(l * l, h * h) if l * h > 0 else 0 for l, h in zip(lo, hi))
        hi2 = sum(max(l * l, h * h) for l, h in zip(lo, hi))
        return lo2 <= 1 + tol and hi2 >= 1 - tol
    raise ValueError(kind)


def run_scheme(col, modname, clsname, cfgs, tier):
    it = interp_for_c05()
    cls = it.get(modname + ":" + clsname)
    where = where_of(cls)
    for cfg in cfgs:
        label = "%s(%s)" % (clsname, ", ".join("%s=%s" % kv for kv in cfg.items()))
        try:
            before = numeric.USED["leggauss"]
            sc = it.call(cls, [], dict(cfg))
            # the rule's numbers come from numpy's leggauss (summarised to 70 digits) if the constructor called it now -- or earlier, when the
            # module memoises the call (a cache must not turn 1e-76 residuals into alarms)
            uses_leggauss = numeric.USED["leggauss"] != before or (numeric.USED["leggauss"] > 0 and "leggauss" in open(it.module(modname).path).read())
        except InterpRaise as e:
            col.add("C05.O1", label, "the documented configuration can be constructed", False, "constructor raises %s" % e)
            continue
        pts = npmodel.to_obj(it.getattr(sc, "points"))
        w = npmodel.to_obj(it.getattr(sc, "weights"))
        n, d = pts.shape
        col.add("C05.O2", "%s shapes" % label, "points (n, dim) and weights (n,) agree; npoints/dim attributes agree",
                w.shape == (n,) and (clsname.endswith("Boundary") or (it.getattr(sc, "npoints") == n and it.getattr(sc, "dim") == d)),
                "points %s weights %s" % (pts.shape, w.shape), nontrivial=False)
        boundary = clsname.endswith("Boundary")
        if clsname.startswith("GaussLegendre") or clsname.startswith("GaussLobatto"):
            order = cfg["order"]
            deg = 2 * order + 1
            kind, integral = "cube", int_cube
            dd = d - 1 if boundary else d
            P_ = pts[:, :dd]
            if dd == 1:
                monos = [(k,) for k in range(deg + 1)]
                check_monomials(col, label, where, P_, w, monos, integral, uses_leggauss)
            else:
                # tensor-product structure w.r.t. the 1D marginal of the same class + corner monomials
                base = it.get(modname.rsplit(".", 1)[0] + "." + ("_gauss_legendre:GaussLegendre" if "Legendre" in clsname else "_gauss_lobatto:GaussLobatto"))
                kw1 = dict(order=order, dim=1)
                s1 = it.call(base, [], kw1)
                x1 = npmodel.to_obj(it.getattr(s1, "points"))[:, 0]
                w1 = npmodel.to_obj(it.getattr(s1, "weights"))

                def chk_prod(P_=P_, w=w, x1=x1, w1=w1, dd=dd):
                    want = {}
                    for idx in itertools.product(range(len(x1)), repeat=dd):
                        key = tuple(ring._key(x1[i]) for i in idx)
                        ww = ONE
                        for i in idx:
                            ww = ww * w1[i]
                        want[key] = ww
                    seen = set()
                    for q in range(P_.shape[0]):
                        key = tuple(ring._key(P_[q, i]) for i in range(dd))
                        if key not in want:
                            return False, "point %d = %s is not a product of 1D nodes" % (q, [str(v) for v in P_[q]])
                        if key in seen:
                            return False, "point %d duplicated" % q
                        seen.add(key)
                        if not is_zero(w[q] - want[key]):
                            return False, "weight %d = %s, product of 1D weights = %s" % (q, w[q], want[key])
                    return len(seen) == len(want), "%d of %d product points" % (len(seen), len(want))

                col.check("C05.O1", "%s tensor structure" % label,
                          "the rule is the tensor product of the class's 1D rule of the same order (points = product set, weights = products)", chk_prod)
                ex = sorted({0, 1, deg - 1, deg} & set(range(deg + 1)))
                monos = list(itertools.product(ex, repeat=dd))
                if (order <= 2 and dd == 2) or (order <= 1 and dd == 3) or tier == "thorough" and order <= 3:
                    monos = list(itertools.product(range(deg + 1), repeat=dd))
                check_monomials(col, label, where, P_, w, monos, integral, uses_leggauss)
            if boundary:
                def chk_b():
                    last = pts[:, -1]
                    return all(is_zero(v + ONE) for v in last) and d == cfg["dim"], "last column %s, dim %d" % ([str(v) for v in last[:4]], d)
                col.check("C05.O3", "%s placement" % label, "boundary variant = the (dim-1) rule with last coordinate -1 appended", chk_b)
                def chk_b2():
                    kw = {k: v for k, v in cfg.items()}
                    kw["dim"] = cfg["dim"] - 1
                    base = it.get(modname.rsplit(".", 1)[0] + "." + ("_gauss_legendre:GaussLegendre" if "Legendre" in clsname else "_gauss_lobatto:GaussLobatto"))
                    s0 = it.call(base, [], kw)
                    p0 = npmodel.to_obj(it.getattr(s0, "points"))
                    w0 = npmodel.to_obj(it.getattr(s0, "weights"))
                    same = p0.shape == P_.shape and all(is_zero(a - b) for a, b in zip(p0.reshape(-1), P_.reshape(-1))) and all(is_zero(a - b) for a, b in zip(w0, w))
                    return same, "compared with %s(%s)" % (base.name, kw)
                col.check("C05.O3", "%s = lower rule" % label, "points[:, :-1] and weights equal the one-dimension-lower rule, in the same order", chk_b2)
            if cfg.get("permute") and not boundary:
                def chk_perm():
                    kw = dict(cfg)
                    kw["permute"] = False
                    s0 = it.call(cls, [], kw)
                    p0 = npmodel.to_obj(it.getattr(s0, "points"))
                    w0 = npmodel.to_obj(it.getattr(s0, "weights"))
                    a = sorted((tuple(str(v) for v in p0[q]), str(w0[q])) for q in range(len(w0)))
                    b = sorted((tuple(str(v) for v in pts[q]), str(w[q])) for q in range(len(w)))
                    return a == b, "multiset of (point, weight) rows %s" % ("equal" if a == b else "differs")
                col.check("C05.O4", "%s reorder" % label, "permute=True only reorders the rule: multiset of (point, weight) rows unchanged", chk_perm)
        elif clsname in ("Triangle", "Tetrahedron"):
            kind, integral = "simplex", int_simplex
            deg = cfg["order"]
            monos = [e for e in itertools.product(range(deg + 1), repeat=d) if sum(e) <= deg]
            check_monomials(col, label, where, pts, w, monos, integral, False)
        elif clsname == "BazantOh":
            kind, integral = "sphere", int_sphere_mean
            monos = [e for e in itertools.product(range(9), repeat=3) if sum(e) <= 8 and sum(e) % 2 == 0]
            check_monomials(col, label, where, pts, w, monos, integral, False)
        else:
            continue
        # O2 points inside the closed reference domain
        def chk_dom():
            bad = []
            for q in range(n):
                enc = [numeric.approx(pts[q, i]) for i in range(d)]
                if not in_domain(kind, enc):
                    bad.append("point %d = %s" % (q, [float(c) for c, _ in enc]))
            return not bad, "%s: %s" % (where, "; ".join(bad[:4])) if bad else "all %d points inside" % n
        col.check("C05.O2", "%s points in domain" % label, "every point lies in the closed reference domain", chk_dom)
        col.info["configs_checked"] = col.info.get("configs_checked", 0) + 1
    finish_info(col, it)


class RecordingPlotter:
    def __init__(self):
        self.calls = []

    def add_points(self, *a, **kw):
        self.calls.append(kw)
        return self


def run_purity(col):
    """O6: a scheme is a value: plotting it (also weighted), inverting it or asking for its attributes does not change its points and weights"""
    it = new_interp()  # exact literals suffice here
    small = dict(GaussLegendre=[dict(order=2, dim=2), dict(order=1, dim=3, permute=False)], GaussLegendreBoundary=[dict(order=2, dim=3)],
                 GaussLobatto=[dict(order=2, dim=2)], GaussLobattoBoundary=[dict(order=2, dim=3)], Triangle=[dict(order=3)], Tetrahedron=[dict(order=3)],
                 BazantOh=[dict(n=21)])
    nchecked = 0
    for mn, cn in _discover(it):
        for cfg in small.get(cn, []):
            cls = it.get(mn + ":" + cn)
            label = "%s(%s)" % (cn, ", ".join("%s=%s" % kv for kv in cfg.items()))
            sc = it.call(cls, [], dict(cfg))
            p0 = npmodel.to_obj(it.getattr(sc, "points")).copy()
            w0 = npmodel.to_obj(it.getattr(sc, "weights")).copy()

            def same():
                p1 = npmodel.to_obj(it.getattr(sc, "points"))
                w1 = npmodel.to_obj(it.getattr(sc, "weights"))
                return p1.shape == p0.shape and w1.shape == w0.shape and all(ring.is_zero(P(a) - P(b)) for a, b in zip(p1.reshape(-1), p0.reshape(-1))) and all(
                    ring.is_zero(P(a) - P(b)) for a, b in zip(w1.reshape(-1), w0.reshape(-1)))

            for weighted in (False, True):
                def chk(weighted=weighted):
                    pl = RecordingPlotter()
                    it.call_method(sc, "plot", [], dict(plotter=pl, weighted=weighted))
                    return same() and len(pl.calls) == p0.shape[0], "quadrature/_scheme.py Scheme.plot: points/weights changed or %d of %d points drawn" % (len(pl.calls), p0.shape[0])
                col.check("C05.O6", "%s.plot(weighted=%s) leaves the rule unchanged" % (label, weighted), "plotting draws every point and does not alter points or weights", chk)
            if cls.find("inv")[0] is not None:
                def chk_inv():
                    it.call_method(sc, "inv", [])
                    return same(), "%s: inv() altered the rule it was called on" % where_of(cls)
                col.check("C05.O6", "%s.inv() leaves the rule unchanged" % label, "inv() returns a new scheme and does not alter this one", chk_inv)
            nchecked += 1
    # schemes are independent values: whatever is done to the arrays of one scheme object (a rule mapped to [0, 1] in place, ...), a scheme
    # constructed afterwards with the same arguments has the points and weights of a freshly constructed one
    indep = dict(small)
    indep["GaussLegendre"] = small["GaussLegendre"] + [dict(order=2, dim=1), dict(order=3, dim=1, permute=False)]
    indep["GaussLegendreBoundary"] = small["GaussLegendreBoundary"] + [dict(order=2, dim=2)]
    for mn, cn in _discover(it):
        for cfg in indep.get(cn, []):
            cls = it.get(mn + ":" + cn)
            label = "%s(%s)" % (cn, ", ".join("%s=%s" % kv for kv in cfg.items()))

            def chk_ind(cls=cls, cfg=cfg):
                first = it.call(cls, [], dict(cfg))
                p0 = npmodel.to_obj(it.getattr(first, "points")).copy()
                w0 = npmodel.to_obj(it.getattr(first, "weights")).copy()
                for nm in ("points", "weights"):
                    arr = it.getattr(first, nm)
                    arr[...] = npmodel.to_obj(arr) * 3 + 1
                variants = [first]
                if cls.find("inv")[0] is not None:
                    inv = it.call_method(it.call(cls, [], dict(cfg)), "inv", [])
                    wi = it.getattr(inv, "weights")
                    wi[...] = npmodel.to_obj(wi) * 5
                second = it.call(cls, [], dict(cfg))
                p1 = npmodel.to_obj(it.getattr(second, "points"))
                w1 = npmodel.to_obj(it.getattr(second, "weights"))
                okk = p1.shape == p0.shape and w1.shape == w0.shape and all(ring.is_zero(P(a) - P(b)) for a, b in zip(p1.reshape(-1), p0.reshape(-1))) and all(
                    ring.is_zero(P(a) - P(b)) for a, b in zip(w1.reshape(-1), w0.reshape(-1)))
                return okk, "%s: a scheme constructed after another scheme's arrays were changed in place does not have the rule's points / weights" % where_of(cls)
            col.check("C05.O6", "%s constructed after another instance was modified" % label, "every scheme object owns its points and weights: in-place changes of one instance (or of its inverse) do not reach schemes constructed later", chk_ind)
    col.info["purity_configs"] = nchecked
    finish_info(col, it)


def run_perm(col, tier):
    """O5: the (literal or generated) permutation places rule point k at the position of reference point k of
    the matching element (same ordering per axis)"""
    it = interp_for_c05()
    GL = it.get("felupe.quadrature._gauss_legendre:GaussLegendre")
    pairs = [
        (1, 2, "felupe.element._quad:Quad", {}), (1, 3, "felupe.element._hexahedron:Hexahedron", {}),
        (2, 2, "felupe.element._quad:BiQuadraticQuad", {}), (2, 3, "felupe.element._hexahedron:TriQuadraticHexahedron", {}),
    ]
    for o in range(3, 6 if tier == "quick" else 7):
        pairs.append((o, 2, "felupe.element._lagrange:ArbitraryOrderLagrange", dict(order=o, dim=2)))
    for o in range(3, 4 if tier == "quick" else 5):
        pairs.append((o, 3, "felupe.element._lagrange:ArbitraryOrderLagrange", dict(order=o, dim=3)))
    for order, dim, elname, kw in pairs:
        def chk(order=order, dim=dim, elname=elname, kw=kw):
            sc = it.call(GL, [], dict(order=order, dim=dim))
            gp = npmodel.to_obj(it.getattr(sc, "points"))
            el = it.call(it.get(elname), [], kw)
            ep = npmodel.to_obj(it.getattr(el, "points"))
            if gp.shape != ep.shape:
                return False, "rule has %s points, element %s" % (gp.shape, ep.shape)
            for ax in range(dim):
                gv = sorted({v.const_value() for v in gp[:, ax]})
                ev = sorted({v.const_value() for v in ep[:, ax]})
                if len(gv) != len(ev):
                    return False, "axis %d: %d rule levels vs %d node levels" % (ax, len(gv), len(ev))
                for k in range(gp.shape[0]):
                    if gv.index(gp[k, ax].const_value()) != ev.index(ep[k, ax].const_value()):
                        return False, "rule point %d (%s) is not at the position of element point %d (%s)" % (
                            k, [float(v.const_value()) for v in gp[k]], k, [float(v.const_value()) for v in ep[k]])
            return True, "%d points" % gp.shape[0]
        col.check("C05.O5", "GaussLegendre(order=%d, dim=%d) vs %s" % (order, dim, elname.split(":")[1]),
                  "rule point k has the same per-axis rank as reference point k of the matching element (sibling agreement with C04's points)", chk)
    finish_info(col, it)


def run_canary(col):
    """a triangle rule with a wrong weight must be flagged"""
    import os
    from ..runner import VERIF
    from ..interp import Interp

    it = Interp(src_root=os.path.join(VERIF, "fixtures"))
    it.literal_hook = literal_hook
    sc = it.call(it.get("felupe.canary_quadrature:BadTriangle"), [], {})
    pts = npmodel.to_obj(it.getattr(sc, "points"))
    w = npmodel.to_obj(it.getattr(sc, "weights"))
    fired = 0
    for e in [(0, 0), (1, 0), (0, 1), (2, 0), (1, 1), (0, 2)]:
        okk, _ = residual_ok(monomial_sum(pts, w, e) - int_simplex(e))
        fired += not okk
    col.info["canaries_expected"] = 1
    col.info["canaries_fired"] = 1 if fired else 0
    col.add("canary", "fixtures/canary_quadrature.py BadTriangle", "the exactness rule flags the seeded weight", fired > 0, "%d monomials flagged" % fired, nontrivial=False)
