import numpy as np, felupe as fem
from felupe.math import ddot, grad
mesh = fem.Rectangle(n=3); region = fem.RegionQuad(mesh); field = fem.FieldContainer([fem.Field(region, dim=2)])
dx = 2.5 * region.dV
@fem.Form(v=field, u=field, dx=dx)
def a():
    return [lambda v, u, **kw: ddot(grad(v), grad(u))]
@fem.Form(v=field, u=field)
def b():
    return [lambda v, u, **kw: ddot(grad(v), grad(u))]
Ka, Kb = a.assemble().toarray(), b.assemble().toarray()
print("max |K(dx=2.5 dV) - 2.5 K(dV)| =", abs(Ka - 2.5*Kb).max())
assert np.allclose(Ka, 2.5*Kb)
