"""C16 -- mesh generators and transformations preserve geometry and orientation (DESIGN.md section 3, C16)."""

import itertools
from fractions import Fraction

import numpy as np

from .. import ring, npmodel, numeric
from ..ring import P, sym, is_zero, ZERO, ONE
from ..common import new_interp, symarray, finish_info
from ..interp import InterpRaise
from .c17 import leibniz

SPEC = dict(
    level="proof",
    rule="index tables and formulas of the mesh tools are extracted by evaluating the functions from source on reference cells (the "
    "element classes' own points) or on cells with symbolic coordinates: triangulate: every sub-cell has positive signed volume, the "
    "volumes sum to the cell's, interior facets are shared by exactly two sub-cells and all other facets lie in a face of the cell; flip: "
    "orientation-reversing for every listed cell type; mirror = reflection then flip keeps positive volumes (exact rational unit "
    "normals); expand / revolve: Jacobian determinant at every corner of a generated cell == base-cell Jacobian * layer thickness / 2 "
    "(symbolic base coordinates and thickness), layer numbering k*npoints + id; collect_edges/faces/volumes and add_midpoints_* / "
    "convert: the vertex sets are exactly the edges / faces / cell of the reference cell, each inserted point is the centroid of all "
    "vertices of its set (symbolic coordinates; also for the enriched cell types quad8 / hexahedron20 / tetra10 / ..., whose further node "
    "columns carry independent coordinates and must not enter the average) and on the reference cell the result is the target element's points table in order; "
    "line / rectangle / cube generators with symbolic bounds: positive cells, all points used, none duplicated; translate; "
    "concatenate / stack / dual / merge_duplicate_points index bookkeeping; merge_duplicate_points with decimals in {None, 0, 1, 4, 12} on exact "
    "rational coordinates with near-duplicates well inside the tolerance; the Circle and Triangle generators evaluated from source (scipy's griddata is "
    "summarised for its one use, linear interpolation between two sites; cos / sin of constant angles that are not multiples of 30 / 45 degrees are real "
    "constants evaluated to 80 digits where np.round needs them): no duplicate / unused points, positive cells, closed boundary on the circle, for radii 1e-10 ... 1e7.",
    trusted_base=["C04 reference points of the element classes", "numpy sort/unique on integer arrays", "C17.O6 (rotation matrices are proper rotations)"],
    explanation="constant-table analysis with exact rational geometry; algebraic value numbering for symbolic coordinates",
    exhaustive=True,
    not_decided=["the rounding-tolerance clause of merge_duplicate_points for binary floats near a rounding boundary",
                 "arbitrary compositions of transformations on concrete meshes (each step is covered separately)"],
    assumptions=["real arithmetic"],
)

FLOORS = {}


def tasks(tier):
    return [
        ("triangulate", "run_triangulate", {}),
        ("flip+mirror", "run_flip", {}),
        ("expand", "run_expand", {}),
        ("revolve", "run_revolve", {}),
        ("midpoints", "run_midpoints", {}),
        ("generators", "run_generators", {}),
        ("bookkeeping", "run_bookkeeping", {}),
        ("circle and triangle generators", "run_circle_triangle", {}),
    ]


def ref_points(it, name):
    mod = {"Line": "_line", "Quad": "_quad", "Hexahedron": "_hexahedron", "Triangle": "_triangle", "Tetra": "_tetra", "QuadraticQuad": "_quad",
           "BiQuadraticQuad": "_quad", "QuadraticHexahedron": "_hexahedron", "TriQuadraticHexahedron": "_hexahedron", "QuadraticTriangle": "_triangle",
           "QuadraticTetra": "_tetra"}[name]
    el = it.call(it.get("felupe.element.%s:%s" % (mod, name)), [], {})
    return npmodel.to_obj(it.getattr(el, "points")), el


def cvals(a):
    return [[P(v).const_value() for v in row] for row in a]


def simplex_volume(pts):
    """signed volume * d! of a simplex given by d+1 points (lists of Fractions / Poly)"""
    d = len(pts) - 1
    M = np.empty((d, d), dtype=object)
    for i in range(d):
        for j in range(d):
            M[i, j] = P(pts[i + 1][j]) - P(pts[0][j])
    return leibniz(M)


def corner_dets(it, elname, X):
    """det(dX/dr) at every reference corner of a (multi)linear cell with node coordinates X (n, d)"""
    pts, el = ref_points(it, elname)
    d = pts.shape[1]
    out = []
    for a in range(pts.shape[0]):
        g = npmodel.to_obj(np.asarray(it.call_method(el, "gradient", [pts[a]])))
        M = np.empty((d, d), dtype=object)
        for I in range(d):
            for J in range(d):
                M[I, J] = sum((P(X[b][I]) * g[b, J] for b in range(pts.shape[0])), ZERO)
        out.append(leibniz(M))
    return out


def positive(v):
    v = P(v)
    if v.is_const():
        return v.const_value() > 0
    c, r = numeric.approx(v)
    return c - r > 0


# ------------------------------------------------------------------------------------------
def run_triangulate(col):
    it = new_interp()
    tri = it.get("felupe.mesh._tools:triangulate")
    for ct, elname, modes in (("quad", "Quad", [None]), ("hexahedron", "Hexahedron", [0, 3])):
        pts, el = ref_points(it, elname)
        n, d = pts.shape
        cells = np.arange(n).reshape(1, n)
        P0 = cvals(pts)
        for mode in modes:
            kw = {} if mode is None else dict(mode=mode)
            label = "triangulate %s%s" % (ct, "" if mode is None else " mode=%d" % mode)
            pn, cn, tn = it.call(tri, [pts, cells, ct], kw)
            cn = npmodel.to_int_array(np.asarray(cn))
            vols = [simplex_volume([P0[i] for i in sub]).const_value() for sub in cn.tolist()]
            col.add("C16.O1", "%s orientation" % label, "every sub-cell has positive signed volume on the reference cell", all(v > 0 for v in vols), "signed volumes*d! %s" % vols)
            total = sum(vols) / Fraction(2 if d == 2 else 6)
            col.add("C16.O1", "%s volume" % label, "sub-cell volumes sum to the cell's volume", total == Fraction(2) ** d, "sum %s" % total)
            col.add("C16.O1", "%s cell type" % label, "result cell type is the simplex of the same dimension", tn == ("triangle" if d == 2 else "tetra"), str(tn))
            # conformity: facets shared by two sub-cells or lying in a face of the cell
            facets = {}
            for sub in cn.tolist():
                for f in itertools.combinations(sorted(sub), d):
                    facets[f] = facets.get(f, 0) + 1
            bad = []
            for f, k in facets.items():
                on_face = any(all(P0[i][ax] == s for i in f) for ax in range(d) for s in (-1, 1))
                if not ((k == 2 and not on_face) or (k == 1 and on_face)):
                    bad.append((f, k, on_face))
            col.add("C16.O1", "%s conformity" % label, "interior facets are shared by exactly two sub-cells, all others lie in a face of the cell (a tiling)", not bad, str(bad[:4]))
    finish_info(col, it)


def run_flip(col):
    it = new_interp()
    flip = it.get("felupe.mesh._tools:flip")
    mirror = it.get("felupe.mesh._tools:mirror")
    F = Fraction
    for ct, elname in (("line", "Line"), ("triangle", "Triangle"), ("tetra", "Tetra"), ("quad", "Quad"), ("hexahedron", "Hexahedron")):
        pts, el = ref_points(it, elname)
        n, d = pts.shape
        cells = np.arange(n).reshape(1, n)
        pn, cn, tn = it.call(flip, [pts, cells, ct], {})
        cn = npmodel.to_int_array(np.asarray(cn))[0].tolist()
        if ct in ("line", "triangle", "tetra"):
            v0 = simplex_volume(cvals(pts)).const_value()
            v1 = simplex_volume([cvals(pts)[i] for i in cn]).const_value()
            okk = v0 > 0 and v1 == -v0
            detail = "volume %s -> %s" % (v0, v1)
        else:
            d0 = [x.const_value() for x in corner_dets(it, elname, cvals(pts))]
            d1 = [x.const_value() for x in corner_dets(it, elname, [cvals(pts)[i] for i in cn])]
            okk = all(x > 0 for x in d0) and all(x < 0 for x in d1)
            detail = "corner Jacobians %s -> %s" % (d0[:2], d1[:2])
        col.add("C16.O2", "flip %s" % ct, "the listed face reversal is an orientation-reversing renumbering of the cell", okk and sorted(cn) == list(range(n)), detail)
        # masked flip only touches the selected cells
        cells2 = np.vstack([np.arange(n), np.arange(n) + n])
        pts2 = np.vstack([pts, pts])
        pn, cn2, tn = it.call(flip, [pts2, cells2, ct], dict(mask=np.array([False, True])))
        cn2 = npmodel.to_int_array(np.asarray(cn2))
        col.add("C16.O2", "flip %s mask" % ct, "a mask flips exactly the selected cells", cn2[0].tolist() == list(range(n)) and cn2[1].tolist() == [i + n for i in cn], str(cn2.tolist()))
        # mirror: reflection followed by flip keeps positive orientation, for exact rational unit normals
        normals = [[1, 0, 0], [0, 1, 0], [F(3, 5), F(4, 5), 0]] + ([[F(2, 3), F(1, 3), F(2, 3)], [0, 0, 1]] if d == 3 else [])
        for nrm in normals:
            if d == 1 and nrm[0] == 0:
                continue
            pm, cm, tm = it.call(mirror, [pts, cells, ct], dict(normal=list(nrm), centerpoint=[F(1, 3), F(1, 5), F(-1, 7)]))
            cm = npmodel.to_int_array(np.asarray(cm))[0].tolist()
            Pm = cvals(npmodel.to_obj(pm))
            if ct in ("line", "triangle", "tetra"):
                v = simplex_volume([Pm[i] for i in cm]).const_value()
                okk = v == simplex_volume(cvals(pts)).const_value()
            else:
                dd = [x.const_value() for x in corner_dets(it, elname, [Pm[i] for i in cm])]
                okk = all(x > 0 for x in dd)
            col.add("C16.O2", "mirror %s normal=%s" % (ct, [str(x) for x in nrm[:d]]), "mirroring (Householder reflection, then flip) keeps positively oriented cells and their volume", okk)
        pm, cm, tm = it.call(mirror, [pts, cells, ct], dict(axis=0))
        Pm = cvals(npmodel.to_obj(pm))
        okk = all(Pm[a][0] == -cvals(pts)[a][0] and Pm[a][1:] == cvals(pts)[a][1:] for a in range(n))
        col.add("C16.O2", "mirror %s axis=0" % ct, "axis=0 reflects the first coordinate about the origin", okk)
    finish_info(col, it)


def run_expand(col):
    it = new_interp()
    expand = it.get("felupe.mesh._tools:expand")
    z = sym("z", True)
    for ct, base_el, new_ct, new_el in (("line", "Line", "quad", "Quad"), ("quad", "Quad", "hexahedron", "Hexahedron")):
        bp, _ = ref_points(it, base_el)
        nb, db = bp.shape
        X = symarray("X", (nb, db))
        cells = np.arange(nb).reshape(1, nb)
        for nlayers in (2, 3):
            pn, cn, tn = it.call(expand, [X, cells, ct], dict(n=nlayers, z=z))
            pn = npmodel.to_obj(pn)
            cn = npmodel.to_int_array(np.asarray(cn))
            label = "expand %s->%s n=%d" % (ct, new_ct, nlayers)
            col.add("C16.O3", "%s type/shape" % label, "cell type and sizes of the extruded mesh", tn == new_ct and cn.shape == (nlayers - 1, 2 * nb) and pn.shape == (nlayers * nb, db + 1), "%s %s %s" % (tn, cn.shape, pn.shape))
            # numbering: layer k holds points k*nb + id with the base coordinates and height k*z/(n-1)
            bad = []
            for k in range(nlayers):
                for a in range(nb):
                    row = pn[k * nb + a]
                    if any(not is_zero(P(row[i]) - X[a, i]) for i in range(db)) or not is_zero(P(row[db]) - z * Fraction(k, nlayers - 1)):
                        bad.append((k, a))
            col.add("C16.O3", "%s layers" % label, "layer k is the base mesh at height k z/(n-1), numbered k*npoints + id", not bad, str(bad))
            base_d = corner_dets(it, base_el, [list(X[a]) for a in range(nb)])
            nref, _ = ref_points(it, new_el)
            for cidx in range(cn.shape[0]):
                Xc = [list(pn[i]) for i in cn[cidx]]
                dets = corner_dets(it, new_el, Xc)
                bad = []
                for a in range(len(dets)):
                    # the reference corner a of the new cell projects onto a base corner
                    proj = [v.const_value() for v in nref[a][:db]]
                    b = [i for i in range(nb) if [v.const_value() for v in bp[i]] == proj][0]
                    if not is_zero(dets[a] - base_d[b] * z * Fraction(1, 2 * (nlayers - 1))):
                        bad.append(a)
                col.add("C16.O3", "%s cell %d orientation" % (label, cidx), "corner Jacobian of the extruded cell == base-cell Jacobian * layer thickness / 2 (positive iff the base cell is)", not bad, "corners %s" % bad)
    # vertex -> line
    pn, cn, tn = it.call(expand, [npmodel.zeros((1, 1)), np.array([[0]]), "vertex"], dict(n=3, z=z))
    pn = npmodel.to_obj(pn)
    col.add("C16.O3", "expand vertex->line", "a vertex is extruded to a line along the new axis", tn == "line" and pn.shape == (3, 1) and npmodel.to_int_array(np.asarray(cn)).tolist() == [[0, 1], [1, 2]]
            and all(is_zero(P(pn[k, 0]) - z * Fraction(k, 2)) for k in range(3)), "%s %s" % (tn, pn.shape))
    finish_info(col, it)


def run_revolve(col):
    it = new_interp()
    revolve = it.get("felupe.mesh._tools:revolve")
    F = Fraction
    # base quad in the x-y plane with y > 0 (radius), revolved about axis 0
    X = npmodel.array([[0, 1], [2, F(6, 5)], [F(9, 4), 3], [F(-1, 5), F(5, 2)]], dtype=npmodel.DType("float"))
    cells = np.array([[0, 1, 2, 3]])
    for phi, n in ((90, 2), (180, 3), (360, 5)):
        pn, cn, tn = it.call(revolve, [X, cells, "quad"], dict(n=n, phi=phi, axis=0))
        pn = npmodel.to_obj(pn)
        cn = npmodel.to_int_array(np.asarray(cn))
        bad = []
        for cidx in range(cn.shape[0]):
            dets = corner_dets(it, "Hexahedron", [list(pn[i]) for i in cn[cidx]])
            if not all(positive(v) for v in dets):
                bad.append(cidx)
        npts_expected = (n - 1 if phi == 360 else n) * 4
        col.add("C16.O3", "revolve quad phi=%d n=%d" % (phi, n), "revolved hexahedra are positively oriented (all corner Jacobians > 0); a full revolution re-uses the first layer", not bad and tn == "hexahedron"
                and cn.shape == (n - 1, 8) and pn.shape[0] == npts_expected and int(cn.max()) == npts_expected - 1, "cells %s points %s bad %s" % (cn.shape, pn.shape, bad))
    # the section angles given one by one (non-uniform; their number differs from the default / given n): one layer of cells per sector,
    # every point layer used, the last layer at the last angle (closed ring when that is 360)
    # ... the ring is closed (last layer = first layer) exactly when the sections span a full revolution: a half ring from 180 to 360 degrees is open
    for angles, n in (([0, 30, 90, 120], 11), ([0, 90, 180, 270, 360], 3), ([0, 45, 90], 2), (np.array([0, 60, 90, 150, 180]), 11),
                      ([180, 225, 270, 315, 360], 11), ([90, 180, 270, 360], 4)):
        def chk_angles(angles=angles, n=n):
            pn, cn, tn = it.call(revolve, [X, cells, "quad"], dict(n=n, phi=angles, axis=0))
            pn = npmodel.to_obj(pn)
            cn = npmodel.to_int_array(np.asarray(cn))
            closed = int(angles[-1]) - int(angles[0]) == 360
            nlay = len(angles) - 1 if closed else len(angles)
            if cn.size and int(cn.max()) >= pn.shape[0]:
                return False, "mesh/_tools.py revolve: cells refer to point %d but only %d points are returned" % (int(cn.max()), pn.shape[0])
            bad = [c for c in range(cn.shape[0]) if not all(positive(v) for v in corner_dets(it, "Hexahedron", [list(pn[i]) for i in cn[c]]))]
            used = sorted(set(int(v) for v in cn.reshape(-1)))
            okk = tn == "hexahedron" and cn.shape == (len(angles) - 1, 8) and pn.shape[0] == 4 * nlay and used == list(range(4 * nlay)) and not bad
            return okk, "mesh/_tools.py revolve: %d cells for %d sectors, %d points (%d layers expected), %d points used, badly oriented cells %s" % (
                cn.shape[0], len(angles) - 1, pn.shape[0], nlay, len(used), bad)
        col.check("C16.O3", "revolve quad phi=%s n=%d" % (list(int(a) for a in angles), n), "an array of section angles gives one layer of positively oriented cells per sector, whatever n is; no unused points", chk_angles)
    Xl = npmodel.array([[1], [3]], dtype=npmodel.DType("float"))
    pn, cn, tn = it.call(revolve, [Xl, np.array([[0, 1]]), "line"], dict(n=3, phi=90, axis=0))
    pn = npmodel.to_obj(pn)
    cn = npmodel.to_int_array(np.asarray(cn))
    bad = [c for c in range(cn.shape[0]) if not all(positive(v) for v in corner_dets(it, "Quad", [list(pn[i]) for i in cn[c]]))]
    col.add("C16.O3", "revolve line phi=90 n=3", "revolved quads are positively oriented (reversed slice for line->quad)", not bad and tn == "quad", "bad %s" % bad)
    finish_info(col, it)


def expected_sets(pts, kind):
    """vertex sets of the edges / faces / cell of a reference cell given by its vertex coordinates"""
    n = len(pts)
    d = len(pts[0])
    simplex = n == d + 1
    if kind == "edges":
        if simplex:
            return {frozenset(c) for c in itertools.combinations(range(n), 2)}
        return {frozenset((a, b)) for a, b in itertools.combinations(range(n), 2) if sum(pts[a][i] != pts[b][i] for i in range(d)) == 1}
    if kind == "faces":
        if d == 2:
            return {frozenset(range(n))}
        if simplex:
            return {frozenset(c) for c in itertools.combinations(range(n), 3)}
        return {frozenset(a for a in range(n) if pts[a][ax] == s) for ax in range(d) for s in (-1, 1)}
    return {frozenset(range(n))}


def run_midpoints(col):
    it = new_interp()
    base = "felupe.mesh._convert:"
    for ct, elname in (("triangle", "Triangle"), ("tetra", "Tetra"), ("quad", "Quad"), ("hexahedron", "Hexahedron")):
        pts, el = ref_points(it, elname)
        n, d = pts.shape
        P0 = cvals(pts)
        X = symarray("X", (n, d))
        cells = np.arange(n).reshape(1, n)
        # enriched cell types carry further node columns (mid-edge / mid-face points, free to lie anywhere on curved cells):
        # the inserted points average the *vertices* only
        enriched = {"triangle": {"faces": [("triangle6", 6)]}, "quad": {"faces": [("quad8", 8)]},
                    "tetra": {"faces": [("tetra10", 10)], "volumes": [("tetra10", 10), ("tetra14", 14)]},
                    "hexahedron": {"faces": [("hexahedron20", 20)], "volumes": [("hexahedron20", 20), ("hexahedron26", 26)]}}[ct]
        variants = []
        for kind, fname in (("edges", "collect_edges"), ("faces", "collect_faces"), ("volumes", "collect_volumes")):
            variants.append((kind, fname, ct, n))
            for ect, ncol in enriched.get(kind, []):
                variants.append((kind, fname, ect, ncol))
        for kind, fname, ct_, ncol in variants:
            if kind == "volumes" and d == 2:
                continue
            f = it.get(base + fname)
            X = symarray("X", (ncol, d))
            cells = np.arange(ncol).reshape(1, ncol)
            try:
                pn, cn, _ = it.call(f, [X, cells, ct_], {})
            except InterpRaise as e:
                col.add("C16.O4", "%s %s" % (fname, ct_), "supported cell type", False, str(e))
                continue
            pn = npmodel.to_obj(pn)
            cn = npmodel.to_int_array(np.asarray(cn))[0]
            want = expected_sets(P0, kind)
            # which vertex set does each new point average?  identify by the symbols occurring in it
            got_sets = []
            bad_centroid = []
            for k in range(pn.shape[0]):
                used = set()
                for v in pn[k]:
                    for g in ring.all_syms(P(v)):
                        nm = ring.G.info[g]["name"]
                        used.add(int(nm[2:].split(",")[0]))
                got_sets.append(frozenset(used))
                cen = [sum((X[a, i] for a in used), ZERO) * Fraction(1, max(1, len(used))) for i in range(d)]
                if any(not is_zero(P(pn[k, i]) - cen[i]) for i in range(d)):
                    bad_centroid.append(k)
            col.add("C16.O4", "%s %s vertex sets" % (fname, ct_), "the averaged vertex sets are exactly the %s of the cell (each once)" % kind, set(got_sets) == want and len(got_sets) == len(want),
                    "mesh/_convert.py %s: got %s, expected %s" % (fname, sorted(map(sorted, got_sets)), sorted(map(sorted, want))))
            col.add("C16.O4", "%s %s centroids" % (fname, ct_), "each inserted point is the centroid of all vertices of its %s (symbolic coordinates)" % kind[:-1], not bad_centroid, "points %s" % bad_centroid)
            col.add("C16.O4", "%s %s numbering" % (fname, ct_), "the cell refers to each new point exactly once", sorted(cn.tolist()) == list(range(pn.shape[0])), str(cn.tolist()))
        # integer-typed point arrays (hand-written meshes, voxel grids): the inserted points are still the centroids
        ipts = np.array([[int(v) for v in row] for row in P0], dtype=int)

        def chk_int(ipts=ipts):
            f = it.get(base + "add_midpoints_edges")
            pn, cn, tn = it.call(f, [ipts, np.arange(n).reshape(1, n), ct], {})
            pn = cvals(npmodel.to_obj(np.asarray(pn)))
            cn = npmodel.to_int_array(np.asarray(cn))[0].tolist()
            corner = pn[:n] == [[Fraction(v) for v in row] for row in ipts.tolist()]
            edges = expected_sets(P0, "edges")
            mids = {tuple(sum((Fraction(int(ipts[a, i])) for a in e), Fraction(0)) / len(e) for i in range(d)) for e in edges}
            got = {tuple(p) for p in pn[n:]}
            return corner and got == mids and len(pn) == n + len(edges), "mesh/_convert.py add_midpoints_edges: inserted points %s" % sorted(got)[:4]
        col.check("C16.O4", "add_midpoints_edges %s integer points" % ct, "with an integer-typed point array the inserted points are the edge centroids (no truncation to the input's integer type)", chk_int)
        # ordering against the target element classes on the reference cell
        conv = it.get(base + "convert")
        targets = {"triangle": [("QuadraticTriangle", {}, "triangle6")], "tetra": [("QuadraticTetra", {}, "tetra10")],
                   "quad": [("QuadraticQuad", {}, "quad8"), ("BiQuadraticQuad", dict(calc_midfaces=True), "quad9")],
                   "hexahedron": [("QuadraticHexahedron", {}, "hexahedron20"), ("TriQuadraticHexahedron", dict(calc_midfaces=True, calc_midvolumes=True), "hexahedron27")]}[ct]
        for tname, kw, tct in targets:
            pn, cn, tn = it.call(conv, [pts, np.arange(n).reshape(1, n), ct], dict(order=2, **kw))
            pn = cvals(npmodel.to_obj(pn))
            cn = npmodel.to_int_array(np.asarray(cn))[0].tolist()
            tp, _ = ref_points(it, tname)
            tp = cvals(tp)
            got = [pn[i] for i in cn]
            col.add("C16.O4", "convert %s -> %s" % (ct, tct), "on the reference cell the converted cell lists the target element's reference points in the element's order", got == tp and tn == tct,
                    "type %s; first mismatch %s" % (tn, next(((i, got[i], tp[i]) for i in range(min(len(got), len(tp))) if got[i] != tp[i]), None)))
    finish_info(col, it)


def run_generators(col):
    it = new_interp()
    a0, a1, a2 = sym("a0"), sym("a1"), sym("a2")
    L0, L1, L2 = sym("L0", True), sym("L1", True), sym("L2", True)
    base = "felupe.mesh._line_rectangle_cube:"
    pn, cn, tn = it.call(it.get(base + "line_line"), [], dict(a=a0, b=a0 + L0, n=4))
    pn = npmodel.to_obj(pn)
    cn = npmodel.to_int_array(np.asarray(cn))
    okk = tn == "line" and cn.tolist() == [[0, 1], [1, 2], [2, 3]] and all(is_zero(P(pn[k, 0]) - (a0 + L0 * Fraction(k, 3))) for k in range(4))
    col.add("C16.O5", "line_line", "n equidistant points from a to b, consecutive cells [k, k+1] (positively oriented for b > a, every point used once)", okk)
    pn, cn, tn = it.call(it.get(base + "rectangle_quad"), [], dict(a=(a0, a1), b=(a0 + L0, a1 + L1), n=(3, 2)))
    pn = npmodel.to_obj(pn)
    cn = npmodel.to_int_array(np.asarray(cn))
    bad = []
    for c in range(cn.shape[0]):
        for v in corner_dets(it, "Quad", [list(pn[i]) for i in cn[c]]):
            if not is_zero(v - L0 * L1 * Fraction(1, 8)):
                bad.append(c)
    used = sorted(set(cn.reshape(-1).tolist()))
    distinct = len({tuple(str(v) for v in row) for row in pn}) == pn.shape[0]
    col.add("C16.O5", "rectangle_quad", "cells have the positive Jacobian (L0/2)(L1/2)/2... = cell area / 4, all points used, none duplicated", not bad and tn == "quad" and used == list(range(pn.shape[0])) and distinct and cn.shape == (2, 4),
            "bad %s used %s" % (bad, used))
    pn, cn, tn = it.call(it.get(base + "cube_hexa"), [], dict(a=(a0, a1, a2), b=(a0 + L0, a1 + L1, a2 + L2), n=(2, 3, 2)))
    pn = npmodel.to_obj(pn)
    cn = npmodel.to_int_array(np.asarray(cn))
    bad = []
    for c in range(cn.shape[0]):
        for v in corner_dets(it, "Hexahedron", [list(pn[i]) for i in cn[c]]):
            if not is_zero(v - L0 * (L1 * Fraction(1, 2)) * L2 * Fraction(1, 8)):
                bad.append(c)
    used = sorted(set(cn.reshape(-1).tolist()))
    distinct = len({tuple(str(v) for v in row) for row in pn}) == pn.shape[0]
    col.add("C16.O5", "cube_hexa", "cells have the positive Jacobian = cell volume / 8, all points used, none duplicated", not bad and tn == "hexahedron" and used == list(range(pn.shape[0])) and distinct and cn.shape == (2, 8),
            "bad %s" % bad)
    # translate
    X = symarray("X", (3, 2))
    pn, cn, tn = it.call(it.get("felupe.mesh._tools:translate"), [X, np.array([[0, 1, 2]]), "triangle"], dict(move=L0, axis=1))
    pn = npmodel.to_obj(pn)
    okk = all(is_zero(P(pn[a, 0]) - X[a, 0]) and is_zero(P(pn[a, 1]) - X[a, 1] - L0) for a in range(3))
    col.add("C16.O6", "translate", "adds the move to one column only; the input points are not modified", okk and all("L0" not in str(v) for v in X.reshape(-1)))
    # rotate: rigid (uses rotation_matrix, C17.O6), about a centre, with a mask
    ang = sym("alpha_deg")
    Xr = symarray("Y", (2, 2))
    cen = [sym("cx"), sym("cy")]
    pn, cn, tn = it.call(it.get("felupe.mesh._tools:rotate"), [Xr, np.array([[0, 1]]), "line"], dict(angle_deg=ang, axis=0, center=cen))
    pn = npmodel.to_obj(pn)
    d0 = sum(((Xr[0, i] - Xr[1, i]) ** 2 for i in range(2)), ZERO)
    d1 = sum(((P(pn[0, i]) - P(pn[1, i])) ** 2 for i in range(2)), ZERO)
    dc0 = sum(((Xr[0, i] - cen[i]) ** 2 for i in range(2)), ZERO)
    dc1 = sum(((P(pn[0, i]) - cen[i]) ** 2 for i in range(2)), ZERO)
    col.add("C16.O6", "rotate", "rotation about a centre preserves distances between points and to the centre (symbolic angle)", is_zero(d0 - d1) and is_zero(dc0 - dc1))
    finish_info(col, it)


class MeshStub:
    """python-side mesh stand-in with the attributes the bookkeeping tools read"""

    created = []

    def __init__(self, points=None, cells=None, cell_type=None):
        self.points = points
        self.cells = cells
        self.cell_type = cell_type
        self.npoints = len(points)
        self.__mesh__ = MeshStub
        MeshStub.created.append(self)


def _quad_mesh_facts(points, cells):
    """exact facts about a quad mesh with rational coordinates: duplicate points, unused points, signed areas, boundary edges"""
    def cval(v):
        # rational coordinates exactly; algebraic constants (cos / sin of section angles, roots) by their 80-digit value
        v = P(v)
        if v.is_const():
            return v.const_value()
        return Fraction(ring.const_decimal(v))

    pts = [tuple(cval(v) for v in row) for row in npmodel.to_obj(points)]
    cells = npmodel.to_int_array(np.asarray(cells)).tolist()
    # duplicates: coordinates that agree to 60 digits (two spellings of one algebraic number differ in the last digits only)
    dup = len(pts) - len({tuple(round(x, 60) for x in p) for p in pts})
    used = {k for c in cells for k in c}
    unused = len(pts) - len(used)
    areas = []
    for c in cells:
        a = Fraction(0)
        for k in range(4):
            x0, y0 = pts[c[k]]
            x1, y1 = pts[c[(k + 1) % 4]]
            a += x0 * y1 - x1 * y0
        areas.append(a / 2)
    edges = {}
    for c in cells:
        for k in range(4):
            e = frozenset((c[k], c[(k + 1) % 4]))
            edges[e] = edges.get(e, 0) + 1
    boundary = [e for e, cnt in edges.items() if cnt == 1]
    return pts, cells, dup, unused, areas, boundary


def run_circle_triangle(col):
    """O8: the Circle and Triangle generators (sections filled between curves, mirrored, rotated, merged): no duplicate or unused points,
    positive cells, total area, one closed boundary -- for radii far from 1 as well (the merge tolerance refers to the unit circle)"""
    it = new_interp()
    C = it.get("felupe.mesh._geometry:Circle")
    T = it.get("felupe.mesh._geometry:Triangle")
    ref = None
    for radius, center, n in ((1, (0, 0), 3), (Fraction(1, 10 ** 10), (0, 0), 3), (10 ** 7, (3, -2), 3), (Fraction(5, 2), (1, 1), 2)):
        def chk(radius=radius, center=center, n=n):
            m = it.call(C, [], dict(radius=radius, centerpoint=list(center), n=n))
            pts, cells, dup, unused, areas, boundary = _quad_mesh_facts(it.getattr(m, "points"), it.getattr(m, "cells"))
            bad = []
            if dup or unused:
                bad.append("%d duplicate, %d unused points" % (dup, unused))
            if any(a <= 0 for a in areas):
                bad.append("%d cells with non-positive area" % sum(1 for a in areas if a <= 0))
            # one closed boundary polygon: every boundary point belongs to exactly two boundary edges
            deg = {}
            for e in boundary:
                for k in e:
                    deg[k] = deg.get(k, 0) + 1
            if any(v != 2 for v in deg.values()) or not boundary:
                bad.append("boundary is not one closed curve")
            # boundary points on the circle (|x - c|^2 == r^2 up to the merge tolerance), area close to pi r^2 from below
            r2 = Fraction(radius) ** 2
            off = [k for k in deg if abs(sum((pts[k][i] - Fraction(center[i])) ** 2 for i in range(2)) - r2) > r2 * Fraction(1, 10 ** 8)]
            if off:
                bad.append("%d boundary points off the circle" % len(off))
            nloc = (len(pts), len(cells))
            return not bad and nloc == {3: (57, 48), 2: (17, 12)}[n], "mesh/_geometry.py Circle(radius=%s): %s points, %s cells; %s" % (radius, nloc[0], nloc[1], "; ".join(bad))
        col.check("C16.O8", "Circle(radius=%s, centerpoint=%s, n=%d)" % (radius, center, n),
                  "no duplicate or unused points, positive cells, one closed boundary whose points lie on the circle; the same topology for every radius", chk)
    for a, b, c, n in (((0, 0), (1, 0), (0, 1), 2), ((1, 1), (4, 2), (2, 5), 3), ((0, 0), (Fraction(1, 10 ** 9), 0), (0, Fraction(1, 10 ** 9)), 2)):
        def chk_t(a=a, b=b, c=c, n=n):
            m = it.call(T, [], dict(a=a, b=b, c=c, n=n))
            pts, cells, dup, unused, areas, boundary = _quad_mesh_facts(it.getattr(m, "points"), it.getattr(m, "cells"))
            tot = sum(areas, Fraction(0))
            want = abs((Fraction(b[0]) - a[0]) * (Fraction(c[1]) - a[1]) - (Fraction(c[0]) - a[0]) * (Fraction(b[1]) - a[1])) / 2
            bad = []
            if dup or unused:
                bad.append("%d duplicate, %d unused points" % (dup, unused))
            if any(x <= 0 for x in areas):
                bad.append("non-positive cells")
            if abs(tot - want) > want * Fraction(1, 10 ** 8):
                bad.append("area %s instead of %s" % (float(tot), float(want)))
            return not bad, "mesh/_geometry.py Triangle(%s, %s, %s, n=%d): %s" % (a, b, c, n, "; ".join(bad))
        col.check("C16.O8", "Triangle(%s, %s, %s, n=%d)" % (a, b, c, n), "no duplicate or unused points, positive cells, total area of the triangle (also for a tiny triangle)", chk_t)
    finish_info(col, it)


def run_bookkeeping(col):
    it = new_interp()
    A = MeshStub(symarray("A", (4, 2)), np.array([[0, 1, 2]]), "triangle")  # its last point is not referenced by a cell
    B = MeshStub(symarray("B", (4, 2)), np.array([[0, 1, 3], [1, 2, 3]]), "triangle")
    C = MeshStub(symarray("C", (3, 2)), np.array([[2, 1, 0]]), "triangle")
    m = it.call(it.get("felupe.mesh._tools:concatenate"), [[A, B, C]], {})
    cells = npmodel.to_int_array(np.asarray(m.cells)).tolist()
    pts = npmodel.to_obj(m.points)
    okk = cells == [[0, 1, 2], [4, 5, 7], [5, 6, 7], [10, 9, 8]] and pts.shape == (11, 2) and is_zero(P(pts[4, 0]) - B.points[0, 0]) and is_zero(P(pts[8, 1]) - C.points[0, 1])
    col.add("C16.O7", "concatenate", "points are stacked and each mesh's cells are shifted by the cumulative number of *points* of the meshes before it (also when a mesh has points no cell refers to)", okk, str(cells))
    m = it.call(it.get("felupe.mesh._tools:stack"), [[B, MeshStub(B.points, np.array([[0, 2, 3]]), "triangle")]], {})
    col.add("C16.O7", "stack", "stack keeps the first mesh's points and stacks the cells unshifted", m.points is B.points and npmodel.to_int_array(np.asarray(m.cells)).tolist() == [[0, 1, 3], [1, 2, 3], [0, 2, 3]])
    # meshes taken out of a MeshContainer (they share its point array) are concatenated: every cell corner keeps its coordinates
    MeshC = it.get("felupe.mesh._mesh:Mesh")
    MC = it.get("felupe.mesh._container:MeshContainer")
    Fd = npmodel.DType("float")
    qa = it.call(MeshC, [npmodel.array([[0, 0], [1, 0], [1, 1], [0, 1]], dtype=Fd), np.array([[0, 1, 2, 3]]), "quad"], {})
    qb = it.call(MeshC, [npmodel.array([[1, 0], [2, 0], [2, 1], [1, 1]], dtype=Fd), np.array([[0, 1, 2, 3]]), "quad"], {})

    def chk_container():
        mc = it.call(MC, [[qa, qb]], {})
        parts = it.getattr(mc, "meshes")
        j = it.call(it.get("felupe.mesh._tools:concatenate"), [list(parts)], {})
        jp = cvals(npmodel.to_obj(it.getattr(j, "points")))
        jc = npmodel.to_int_array(np.asarray(it.getattr(j, "cells")))
        want = [cvals(npmodel.to_obj(it.getattr(qa, "points"))), cvals(npmodel.to_obj(it.getattr(qb, "points")))]
        bad = [(c, k) for c in range(2) for k in range(4) if jc[c, k] >= len(jp) or jp[jc[c, k]] != want[c][k]]
        return not bad, "mesh/_container.py MeshContainer.append / mesh/_tools.py concatenate: moved corners (cell, node) %s" % bad
    def chk_merge_append():
        qc = it.call(MeshC, [npmodel.array([[2, 0], [3, 0], [3, 1], [2, 1]], dtype=Fd), np.array([[0, 1, 2, 3]]), "quad"], {})
        mc = it.call(MC, [[qa, qb]], dict(merge=True))
        it.call_method(mc, "append", [qc])
        cp = cvals(npmodel.to_obj(it.getattr(mc, "points")))
        bad = []
        for k, (m, src) in enumerate(zip(it.getattr(mc, "meshes"), (qa, qb, qc))):
            want = cvals(npmodel.to_obj(it.getattr(src, "points")))
            cn = npmodel.to_int_array(np.asarray(it.getattr(m, "cells")))
            mp = cvals(npmodel.to_obj(it.getattr(m, "points")))
            bad += [(k, j) for j in range(4) if cn[0, j] >= len(mp) or mp[cn[0, j]] != want[j] or mp != cp]
        return not bad, "mesh/_container.py merge_duplicate_points / append: moved corners or diverging point arrays (mesh, node) %s" % bad[:4]
    col.check("C16.O7", "MeshContainer merge then append", "merging duplicate points and appending a further mesh keeps every cell corner of every mesh; the container and its meshes share one point array", chk_merge_append)
    col.check("C16.O7", "concatenate meshes of a MeshContainer", "meshes handed out by a MeshContainer can be concatenated: no cell corner moves (their point counts describe the shared point array)", chk_container)
    # merge_duplicate_points: concrete coordinates with two coincident points
    F = Fraction
    P_ = npmodel.array([[0, 0], [1, 0], [1, 1], [1, 0], [2, 0], [2, 1]], dtype=npmodel.DType("float"))
    cells = np.array([[0, 1, 2], [3, 4, 5]])
    pn, cn, tn = it.call(it.get("felupe.mesh._tools:merge_duplicate_points"), [P_, cells, "triangle"], {})
    pn = cvals(npmodel.to_obj(pn))
    cn = npmodel.to_int_array(np.asarray(cn))
    orig = cvals(P_)
    okk = len(pn) == 5 and len({tuple(p) for p in pn}) == 5 and all(pn[cn[c, a]] == orig[cells[c, a]] for c in range(2) for a in range(3))
    col.add("C16.O7", "merge_duplicate_points", "coincident points are merged, every cell corner keeps its coordinates, no duplicate remains", okk, "points %s cells %s" % (pn, cn.tolist()))
    # ... with a rounding tolerance: points that agree after rounding to `decimals` digits are merged (exact rational coordinates, away from
    # the rounding boundaries), for every value of decimals incl. 0 (whole units); sweep() and Mesh.merge_duplicate_points forward to it
    for d in (0, 1, 4, 12):
        eps = F(1, 10 ** (d + 3))
        Pd = npmodel.array([[0, 0], [1, 0], [1, 1], [1 + eps, -eps], [2 - eps, eps], [2, 1]], dtype=npmodel.DType("float"))

        def chk(d=d, Pd=Pd):
            pn, cn, tn = it.call(it.get("felupe.mesh._tools:merge_duplicate_points"), [Pd, cells, "triangle"], dict(decimals=d))
            pn = cvals(npmodel.to_obj(pn))
            cn = npmodel.to_int_array(np.asarray(cn))
            orig = cvals(Pd)
            tol = F(1, 2 * 10 ** d)
            near = all(abs(pn[cn[c, a]][i] - orig[cells[c, a]][i]) <= tol for c in range(2) for a in range(3) for i in range(2))
            apart = all(max(abs(p[i] - q[i]) for i in range(2)) > tol for k, p in enumerate(pn) for q in pn[k + 1:])
            # the rounding serves the *detection* of duplicates: a corner that has no partner to be merged with is not moved at all, and a
            # merged point sits at the coordinates of one of the points it replaces
            partner = {1: 3, 3: 1}
            moved = [(c, a) for c in range(2) for a in range(3) if cells[c, a] not in partner and pn[cn[c, a]] != orig[cells[c, a]]]
            merged_ok = all(pn[cn[c, a]] in (orig[cells[c, a]], orig[partner[cells[c, a]]]) for c in range(2) for a in range(3) if cells[c, a] in partner)
            return len(pn) == 5 and near and apart and not moved and merged_ok and sorted(set(cn.reshape(-1).tolist())) == list(range(5)), \
                "mesh/_tools.py merge_duplicate_points: %d points remain (5 expected), cells %s; corners without a duplicate that were moved (cell, corner): %s; merged points at an original position: %s" % (
                    len(pn), cn.tolist(), moved, merged_ok)
        col.check("C16.O7", "merge_duplicate_points decimals=%d" % d,
                  "points that agree after rounding to the given number of decimals are merged (to the position of one of them); no other corner moves; no two remaining points are closer than the tolerance; all remaining points are used", chk)
    # a copy of a mesh is an independent mesh: the alias entry points (sweep = merge_duplicate_points, ...) stored on the instance act on the
    # copy, not on the mesh it was copied from
    def chk_copy_alias():
        Mesh = it.get("felupe.mesh._mesh:Mesh")
        src = it.call(Mesh, [P_, cells, "triangle"], {})
        shifted = npmodel.array([[0, 0], [3, 0], [3, 1], [3, 0], [5, 0], [5, 1]], dtype=npmodel.DType("float"))
        other = it.call_method(src, "copy", [], dict(points=shifted))
        a = it.call_method(other, "sweep", [], {})
        b = it.call_method(other, "merge_duplicate_points", [], {})
        pa, pb = cvals(npmodel.to_obj(it.getattr(a, "points"))), cvals(npmodel.to_obj(it.getattr(b, "points")))
        untouched = cvals(npmodel.to_obj(it.getattr(src, "points"))) == cvals(P_)
        return pa == pb and untouched and [3, 0] in [list(p) for p in pa], "mesh/_discrete_geometry.py DiscreteGeometry.copy: copy.sweep() gives points %s, copy.merge_duplicate_points() %s" % (pa, pb)
    col.check("C16.O7", "Mesh.copy(points=...).sweep()", "the methods stored on a copied mesh (sweep, the alias of merge_duplicate_points) operate on the copy's own points and cells", chk_copy_alias)
    # dual / disconnect
    dual = it.get("felupe.mesh._dual:dual")
    pn, cn, tn = it.call(dual, [B.points, B.cells, "triangle"], dict(points_per_cell=1))
    col.add("C16.O7", "dual points_per_cell=1", "disconnected dual mesh: one new point per cell, numbered consecutively", npmodel.to_int_array(np.asarray(cn)).tolist() == [[0], [1]] and np.asarray(pn).shape == (2, 2))
    pn, cn, tn = it.call(dual, [B.points, B.cells, "triangle"], dict(calc_points=True))
    pn = npmodel.to_obj(pn)
    cn = npmodel.to_int_array(np.asarray(cn))
    okk = cn.tolist() == [[0, 1, 2], [3, 4, 5]] and all(is_zero(P(pn[cn[c, a], i]) - B.points[B.cells[c, a], i]) for c in range(2) for a in range(3) for i in range(2)) and tn == "triangle"
    col.add("C16.O7", "dual disconnect calc_points", "disconnecting duplicates the points per cell without moving any corner", okk)
    pn, cn, tn = it.call(dual, [B.points, B.cells, "triangle"], dict(points_per_cell=1, offset=3, npoints=7))
    col.add("C16.O7", "dual offset/npoints", "offset shifts the cell ids and pads the point array in front; npoints pads up to the requested size",
            npmodel.to_int_array(np.asarray(cn)).tolist() == [[3], [4]] and np.asarray(pn).shape[0] == 7)
    finish_info(col, it)
