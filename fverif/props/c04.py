"""C04 -- element shape functions: nodal basis, true derivatives, completeness (polynomial
identities on the source's own closed forms; DESIGN.md section 3, C04)."""

import itertools
from fractions import Fraction

import numpy as np

from .. import ring, npmodel
from ..ring import P, sym, diff, is_zero, subs, ZERO, ONE
from ..common import new_interp, classes_in, list_modules, method_where, where_of, finish_info
from ..interp import InterpRaise

SPEC = dict(
    level="proof",
    rule="every subclass of Element found under felupe/element is instantiated by evaluating its __init__ from the AST; "
    "function/gradient/hessian are evaluated on symbolic reference coordinates (r,s,t) and symbolic bubble multiplier; "
    "each entry is one obligation decided as a polynomial identity over Q (all points of the cell at once). "
    "non-trivial = the entry's normal form is not a constant",
    trusted_base=[
        "numpy array semantics on object dtype (indexing, concatenate, ravel('F'), einsum re-implemented in fverif.npmodel)",
        "fverif exact ring (self-tested against sympy in setup)",
        "completeness degree table (spec, from the class docstrings and the property text)",
    ],
    explanation="algebraic value numbering of the element methods over an exact polynomial ring; see DESIGN.md C04",
    exhaustive=True,
    not_decided=[],
    assumptions=["real arithmetic (floating point rounding of the same expressions is outside the claim)"],
)

FLOORS = {"element classes": ("element_classes", 17)}

# spec: (space, degree); space 'tensor' = per-axis degree, 'total' = total degree
COMPLETENESS = {
    "Vertex": ("total", 0),
    "Line": ("tensor", 1),
    "ConstantQuad": ("total", 0),
    "Quad": ("tensor", 1),
    "QuadraticQuad": ("total", 2),
    "BiQuadraticQuad": ("tensor", 2),
    "ConstantHexahedron": ("total", 0),
    "Hexahedron": ("tensor", 1),
    "QuadraticHexahedron": ("total", 2),
    "TriQuadraticHexahedron": ("tensor", 2),
    "Triangle": ("total", 1),
    "TriangleMINI": ("total", 1),
    "QuadraticTriangle": ("total", 2),
    "Tetra": ("total", 1),
    "TetraMINI": ("total", 1),
    "QuadraticTetra": ("total", 2),
}
SIMPLEX = {"Triangle", "TriangleMINI", "QuadraticTriangle", "Tetra", "TetraMINI", "QuadraticTetra"}


def _discover(it):
    base = it.get("felupe.element._base:Element")
    found = []
    for mn in list_modules("felupe.element"):
        if mn == "felupe.element":
            continue
        for c in classes_in(it, mn, base):
            found.append((mn, c.name))
    return found


def tasks(tier):
    it = new_interp()
    found = _discover(it)
    ts = []
    for mn, cn in found:
        if cn == "ArbitraryOrderLagrange":
            if tier == "quick":
                cfgs = [(o, d, p) for d in (1, 2, 3) for o in (1, 2, 3) for p in (True, False)]
            else:
                cfgs = [(o, d, p) for d in (1, 2) for o in range(1, 7) for p in (True, False)]
                cfgs += [(o, 3, p) for o in range(1, 6) for p in (True, False)]
            for o, d, p in cfgs:
                ts.append(("%s(order=%d,dim=%d,permute=%s)" % (cn, o, d, p), "run_class",
                           dict(modname=mn, clsname=cn, lagrange=(o, d, p))))
            # order 0 (one constant shape function): the element of the cell-wise constant dual field of a first-order Lagrange region
            for d in (1, 2, 3):
                for p in (True, False):
                    ts.append(("%s(order=0,dim=%d,permute=%s)" % (cn, d, p), "run_class", dict(modname=mn, clsname=cn, lagrange=(0, d, p))))
            # a reference interval other than (-1, 1): the derivative carries the chain-rule factor of the interval map
            for o, d, p, iv in ((2, 1, False, (0, 1)), (3, 2, True, (0, 1)), (2, 2, False, (-2, 5)), (2, 3, True, (0, 1))):
                ts.append(("%s(order=%d,dim=%d,permute=%s,interval=%s)" % (cn, o, d, p, iv), "run_class",
                           dict(modname=mn, clsname=cn, lagrange=(o, d, p, iv))))
        else:
            ts.append((cn, "run_class", dict(modname=mn, clsname=cn, lagrange=None)))
    ts.append(("instance independence", "run_independence", {}))
    ts.append(("discovery", "run_discovery", dict(expected=[c for _, c in found])))
    ts.append(("canary", "run_canary", {}))
    ts.append(("permutation-tables", "run_perm_tables", dict(maxorder=3 if tier == "quick" else 5)))
    return ts


def run_discovery(col, expected):
    it = new_interp()
    found = _discover(it)
    col.info["element_classes"] = [c for _, c in found]
    for _, c in found:
        if c != "ArbitraryOrderLagrange" and c not in COMPLETENESS:
            col.undecided("C04.O5", c, "completeness spec table", "element class %s has no entry in the completeness table" % c)
    finish_info(col, it)


def _monomials(space, degree, dim):
    if space == "tensor":
        return [e for e in itertools.product(range(degree + 1), repeat=dim)]
    return [e for e in itertools.product(range(degree + 1), repeat=dim) if sum(e) <= degree]


def run_class(col, modname, clsname, lagrange):
    it = new_interp()
    cls = it.get(modname + ":" + clsname)
    bm = sym("bubble_multiplier")
    if lagrange is not None:
        order, dim, permute = lagrange[:3]
        kw = dict(order=order, dim=dim, permute=permute)
        label = "%s(order=%d,dim=%d,permute=%s)" % (clsname, order, dim, permute)
        if len(lagrange) > 3:
            kw["interval"] = tuple(lagrange[3])
            label = label[:-1] + ",interval=%s)" % (tuple(lagrange[3]),)
        el = it.call(cls, [], kw)
        space, degree = "tensor", order
        bubble = False
    else:
        bubble = "MINI" in clsname
        el = it.call(cls, [], dict(bubble_multiplier=bm) if bubble else {})
        label = clsname
        space, degree = COMPLETENESS.get(clsname, (None, None))
    points = npmodel.to_obj(it.getattr(el, "points")).copy()
    dim = points.shape[1]
    X = [sym(n) for n in "rst"[:dim]]
    rst = np.empty(dim, dtype=object)
    for i in range(dim):
        rst[i] = X[i]
    h = npmodel.to_obj(np.asarray(it.call_method(el, "function", [rst])))
    g = npmodel.to_obj(np.asarray(it.call_method(el, "gradient", [rst])))
    n = h.shape[0]
    fw = method_where(cls, "function")
    gw = method_where(cls, "gradient")
    col.info["entries_%s" % label] = int(n)
    # shapes
    col.add("C04.O1", "%s.gradient shape" % label, "gradient has shape (n, dim) matching function (n,)",
            g.shape == (n, dim), "function %s gradient %s" % (h.shape, g.shape), nontrivial=False)
    # O1 gradient = d function
    if g.shape == (n, dim):
        for a in range(n):
            for i in range(dim):
                d = diff(h[a], X[i])
                okk = is_zero(d - g[a, i])
                col.add("C04.O1", "%s.gradient[%d][%d]" % (label, a, i),
                        "gradient[a,i] == d function[a] / d r_i (polynomial identity)", okk,
                        "" if okk else "%s: d/d%s function[%d] = %s but gradient[%d][%d] = %s" % (gw, "rst"[i], a, d, a, i, g[a, i]),
                        nontrivial=not d.is_const() or not h[a].is_const())
    # O2 hessian
    has_h = cls.find("hessian")[0] is not None
    col.info.setdefault("classes_with_hessian", [])
    if has_h:
        col.info["classes_with_hessian"].append(label)
        H = npmodel.to_obj(np.asarray(it.call_method(el, "hessian", [rst])))
        hw = method_where(cls, "hessian")
        okshape = H.shape == (n, dim, dim)
        col.add("C04.O2", "%s.hessian shape" % label, "hessian has shape (n, dim, dim)", okshape, str(H.shape), nontrivial=False)
        if okshape:
            for a in range(n):
                for i in range(dim):
                    for j in range(dim):
                        d = diff(g[a, i], X[j])
                        okk = is_zero(d - H[a, i, j])
                        col.add("C04.O2", "%s.hessian[%d][%d][%d]" % (label, a, i, j),
                                "hessian[a,i,j] == d gradient[a,i] / d r_j", okk,
                                "" if okk else "%s: d/d%s gradient[%d][%d] = %s but hessian entry = %s" % (hw, "rst"[j], a, i, d, H[a, i, j]),
                                nontrivial=not g[a, i].is_const())
                        if j > i:
                            oks = is_zero(H[a, i, j] - H[a, j, i])
                            col.add("C04.O2s", "%s.hessian[%d][%d][%d]" % (label, a, i, j), "hessian symmetric in (i,j)", oks,
                                    "" if oks else "%s: [%d][%d][%d] = %s, [%d][%d][%d] = %s" % (hw, a, i, j, H[a, i, j], a, j, i, H[a, j, i]),
                                    nontrivial=not H[a, i, j].is_const())
    # nodal part
    nn = n - 1 if bubble else n
    nodal = h.shape[0] == points.shape[0] and not clsname.startswith("Constant")
    if nodal:
        for a in range(nn):
            for b in range(nn):
                v = subs(h[a], {X[i]: points[b, i] for i in range(dim)})
                want = ONE if a == b else ZERO
                okk = is_zero(v - want)
                col.add("C04.O3", "%s.function[%d]@points[%d]" % (label, a, b), "function[a](points[b]) == delta_ab", okk,
                        "" if okk else "%s: value %s at point %s" % (fw, v, [str(p) for p in points[b]]), nontrivial=a == b or not h[a].is_const())
    # O4 partition of unity
    s = ZERO
    for a in range(nn):
        s = s + h[a]
    ok4 = is_zero(s - ONE)
    col.add("C04.O4", "%s.function sum" % label, "sum of nodal shape functions == 1 (identically)", ok4,
            "" if ok4 else "%s: sum = %s" % (fw, s))
    # O5 completeness
    if space is not None and (nodal or degree == 0):
        for e in _monomials(space, degree, dim):
            m = ONE
            for i in range(dim):
                m = m * X[i] ** e[i]
            acc = ZERO
            for a in range(nn):
                if degree == 0:
                    ma = ONE
                else:
                    ma = ONE
                    for i in range(dim):
                        ma = ma * points[a, i] ** e[i]
                acc = acc + ma * h[a]
            okk = is_zero(acc - m)
            col.add("C04.O5", "%s reproduces %s" % (label, "*".join("%s^%d" % ("rst"[i], e[i]) for i in range(dim) if e[i]) or "1"),
                    "sum_a m(points[a]) function[a] == m for every monomial of the %s-degree-%d space" % (space, degree), okk,
                    "" if okk else "%s: got %s" % (fw, acc), nontrivial=sum(e) > 0)
    # O6 bubble vanishes on the boundary
    if bubble:
        b = h[n - 1]
        facets = [{X[i]: ZERO} for i in range(dim)]
        last = ONE
        for i in range(dim - 1):
            last = last - X[i]
        facets.append({X[dim - 1]: last})
        for k, f in enumerate(facets):
            v = subs(b, f)
            okk = is_zero(v)
            col.add("C04.O6", "%s.function[%d] on facet %d" % (label, n - 1, k), "bubble function vanishes identically on each facet (symbolic multiplier)", okk,
                    "" if okk else "%s: %s" % (fw, v))
        # bubble multiplier must scale the bubble (and only it)
        dep = [a for a in range(nn) if "bubble_multiplier" in str(h[a])]
        col.add("C04.O6", "%s multiplier" % label, "bubble multiplier appears in the bubble function only", not dep and "bubble_multiplier" in str(b), str(dep))
    # O8 the methods are queries: an array returned earlier is not altered by a later evaluation (Region collects one result per quadrature
    # point before it uses any of them), and the element's nodes are not altered
    rst2 = np.empty(dim, dtype=object)
    for i in range(dim):
        rst2[i] = sym("rst"[i] + "_2")
    for meth in ("function", "gradient") + (("hessian",) if has_h else ()):
        first = it.call_method(el, meth, [rst])
        keep = npmodel.to_obj(np.asarray(first)).copy()
        it.call_method(el, meth, [rst2])
        now = npmodel.to_obj(np.asarray(first))
        okk = now.shape == keep.shape and all(is_zero(P(a) - P(b)) for a, b in zip(now.reshape(-1), keep.reshape(-1)))
        col.add("C04.O8", "%s.%s result is the caller's own" % (label, meth), "the array returned for one point is not altered by evaluating another point (no shared output buffer)", okk,
                "%s: the first result changed after the second call" % method_where(cls, meth))
    pts_now = npmodel.to_obj(it.getattr(el, "points"))
    col.add("C04.O8", "%s.points untouched" % label, "evaluating the element does not alter its node coordinates",
            pts_now.shape == points.shape and all(is_zero(P(a) - P(b)) for a, b in zip(pts_now.reshape(-1), points.reshape(-1))), nontrivial=False)
    finish_info(col, it)


def run_independence(col):
    """O9: an element is determined by its own constructor arguments: elements constructed earlier in the same process (other interval,
    other order, other dimension) do not change it (no state shared between instances through the class)"""
    it = new_interp()
    L = it.get("felupe.element._lagrange:ArbitraryOrderLagrange")
    first = [dict(order=2, dim=1, interval=(0, 1)), dict(order=1, dim=2, interval=(0, 2)), dict(order=3, dim=1, interval=(-3, 1), permute=False)]
    for kw in first:
        it.call(L, [], kw)
    later = [("ArbitraryOrderLagrange(order=2,dim=2)", L, dict(order=2, dim=2)), ("ArbitraryOrderLagrange(order=1,dim=3)", L, dict(order=1, dim=3)),
             ("ArbitraryOrderLagrange(order=3,dim=1,interval=(0,1))", L, dict(order=3, dim=1, interval=(0, 1))),
             ("BiQuadraticQuad", it.get("felupe.element._quad:BiQuadraticQuad"), {}), ("TriQuadraticHexahedron", it.get("felupe.element._hexahedron:TriQuadraticHexahedron"), {}),
             ("Hexahedron", it.get("felupe.element._hexahedron:Hexahedron"), {})]
    for label, cls, kw in later:
        def chk(cls=cls, kw=kw):
            el = it.call(cls, [], kw)
            pts = npmodel.to_obj(it.getattr(el, "points"))
            bad = []
            for b in range(pts.shape[0]):
                h = npmodel.to_obj(np.asarray(it.call_method(el, "function", [pts[b]])))
                for a in range(h.shape[0]):
                    if not is_zero(P(h[a]) - (ONE if a == b else ZERO)):
                        bad.append((a, b))
            return not bad, "%s: function[a](points[b]) != delta_ab for %s after other elements were constructed" % (where_of(cls), bad[:4])
        col.check("C04.O9", "%s constructed after other elements" % label, "nodal basis at the element's own points, whatever elements were constructed before in the same process", chk)
    finish_info(col, it)


def run_perm_tables(col, maxorder):
    """O7: lagrange_line/quad/hexahedron produce permutations; BiQuadraticQuad/TriQuadraticHexahedron
    tables are permutations and their points are the permuted Lagrange points"""
    it = new_interp()
    lag = it.module("felupe.element._lagrange")
    n_tab = 0
    for name, dim in (("lagrange_line", 1), ("lagrange_quad", 2), ("lagrange_hexahedron", 3)):
        f = it.getattr(lag, name)
        for order in range(1, maxorder + 1):
            def chk(f=f, order=order, dim=dim):
                p = np.asarray(it.call(f, [order], {}))
                p = npmodel.to_int_array(p)
                return sorted(p.tolist()) == list(range((order + 1) ** dim)), "table %s" % p.tolist()[:12]
            col.check("C04.O7", "%s(order=%d)" % (name, order), "permutation table is a permutation of range((order+1)**dim)", chk)
            n_tab += 1
    for mn, cn in (("felupe.element._quad", "BiQuadraticQuad"), ("felupe.element._hexahedron", "TriQuadraticHexahedron")):
        def chk2(mn=mn, cn=cn):
            el = it.call(it.get(mn + ":" + cn), [], {})
            perm = npmodel.to_int_array(it.getattr(el, "_permute"))
            lg = it.getattr(el, "_lagrange")
            lp = npmodel.to_obj(it.getattr(lg, "points"))
            pts = npmodel.to_obj(it.getattr(el, "points"))
            okp = sorted(perm.tolist()) == list(range(len(lp)))
            same = pts.shape == lp.shape and all(is_zero(pts[a, i] - lp[perm[a], i]) for a in range(len(perm)) for i in range(pts.shape[1]))
            return okp and same, "perm ok=%s, points == lagrange.points[perm]: %s" % (okp, same)
        col.check("C04.O7", "%s._permute" % cn, "_permute is a permutation and points == _lagrange.points[_permute]", chk2)
        n_tab += 1
    # the permuted arbitrary-order Lagrange element lists its nodes in the order of the fixed-order element of the same cell (VTK order: vertices,
    # edges, faces, volume): a mesh of quad9 / hexahedron27 (from the mesh tools or a file) is measured alike by RegionLagrange(order=2) and by the
    # bi-/tri-quadratic templates
    L = it.get("felupe.element._lagrange:ArbitraryOrderLagrange")
    for mn, cn, order, dim in (("felupe.element._quad", "Quad", 1, 2), ("felupe.element._quad", "BiQuadraticQuad", 2, 2),
                               ("felupe.element._hexahedron", "Hexahedron", 1, 3), ("felupe.element._hexahedron", "TriQuadraticHexahedron", 2, 3)):
        def chk3(mn=mn, cn=cn, order=order, dim=dim):
            ref = npmodel.to_obj(it.getattr(it.call(it.get(mn + ":" + cn), [], {}), "points"))
            lg = npmodel.to_obj(it.getattr(it.call(L, [], dict(order=order, dim=dim, permute=True)), "points"))
            bad = [a for a in range(ref.shape[0]) if lg.shape != ref.shape or any(not is_zero(P(lg[a, i]) - P(ref[a, i])) for i in range(dim))]
            return not bad, "element/_lagrange.py lagrange_%s: nodes %s of ArbitraryOrderLagrange(order=%d, dim=%d) are not where %s has them" % ("quad" if dim == 2 else "hexahedron", bad[:8], order, dim, cn)
        col.check("C04.O7", "ArbitraryOrderLagrange(order=%d,dim=%d) node order vs %s" % (order, dim, cn),
                  "the permuted Lagrange element and the fixed-order element of the same cell type list the same node at every position", chk3)
        n_tab += 1
    col.info["permutation_tables"] = n_tab
    finish_info(col, it)


def run_canary(col):
    """a synthetic element with a wrong gradient sign must be flagged by the O1 rule"""
    import os
    from ..runner import VERIF
    from ..interp import Interp

    it = Interp(src_root=os.path.join(VERIF, "fixtures"))
    cls = it.get("felupe.canary_element:BadQuad")
    el = it.call(cls, [], {})
    X = [sym("r"), sym("s")]
    rst = np.empty(2, dtype=object)
    rst[0], rst[1] = X
    h = npmodel.to_obj(it.call_method(el, "function", [rst]))
    g = npmodel.to_obj(it.call_method(el, "gradient", [rst]))
    bad = [(a, i) for a in range(4) for i in range(2) if not is_zero(diff(h[a], X[i]) - g[a, i])]
    col.info["canaries_expected"] = 1
    col.info["canaries_fired"] = 1 if bad == [(2, 1)] else 0
    col.add("canary", "fixtures/canary_element.py BadQuad", "the O1 rule flags exactly the seeded entry", bad == [(2, 1)], str(bad), nontrivial=False)
