#!/bin/sh
# process round-2 seeds of one property: tools/seed2.sh C04 [extra checks...]
pid=$1; shift
for v in A B; do
  if [ -f /tmp/wt/$pid/_seed/$v/patch.diff ]; then
    lc=$(echo $v | tr AB bc)
    echo "== $pid-$lc"
    timeout 3000 python3 /verif/tools/seedproc.py /tmp/wt/$pid $pid-$lc $pid $pid "$@" --seed=_seed/$v 2>&1 | tail -8 | cut -c1-330
  fi
done
git -C /repo worktree remove --force /tmp/wt/$pid
