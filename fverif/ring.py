"""E1 -- exact commutative ring used as the abstract value domain.

Sparse multivariate (Laurent / rational-exponent) polynomials over Q in named generators.

Generator kinds
  sym    a free symbol (optionally with a table of custom partial derivatives: opaque
         function atoms Fun[i,j](X) are syms whose derivative w.r.t. X[k,l] is another sym)
  prime  p**e for a prime p, e in [0,1) after normalisation (sqrt(2), sqrt(2/3), 3**(1/3) ...)
         -- gid is -p, so they sort first and are canonical
  pow    B**1 for a non-monomial polynomial B; appears with rational exponents, B**(-1) is the
         inverse, B**(1/2) the root.  Normalised lazily by ``is_zero``.
  fun    Log(B), Exp(B), Erf(B), ... keyed by the canonical argument; free apart from the
         derivation rule.

Zero test (``is_zero``) clears pow atoms group-wise by fractional exponent parts and
expands; a "zero" verdict is unconditional.
"""

from fractions import Fraction
from decimal import Decimal
import math

F0 = Fraction(0)
F1 = Fraction(1)


class Undecided(Exception):
    """A construct / comparison outside the accepted subset: the obligation is undecided."""


# ------------------------------------------------------------------------------------------
# generator registry
# ------------------------------------------------------------------------------------------
class _Gens:
    def __init__(self):
        self.reset()

    def reset(self):
        self.info = [None]  # gid -> dict ; gid 0 unused
        self.by_name = {}
        self.by_pow = {}
        self.by_fun = {}
        self.by_ofun = {}
        self.rewrites = {}  # gid -> (n, replacement Poly): g**n is rewritten eagerly (quotient ring, e.g. s**2 -> 1 - c**2)
        self.ofun_dname = {}  # name -> callable(name, k) -> derivative atom name (or None: default)
        self.custom_deriv = {}  # (gid, xgid) -> Poly
        self.dcache = {}
        self.deps_cache = {}
        self.powcache = {}

    def new(self, **kw):
        self.info.append(kw)
        return len(self.info) - 1


G = _Gens()


def reset():
    G.reset()
    POSITIVE_KEYS.clear()


def _fr(x):
    if isinstance(x, Fraction):
        return x
    if isinstance(x, bool):
        return Fraction(int(x))
    if isinstance(x, int):
        return Fraction(x)
    if isinstance(x, float):
        if x != x or x in (float("inf"), float("-inf")):
            raise Undecided("non-finite float constant")
        return Fraction(Decimal(repr(x)))
    if isinstance(x, Decimal):
        return Fraction(x)
    try:
        import numpy as _np

        if isinstance(x, _np.integer):
            return Fraction(int(x))
        if isinstance(x, _np.bool_):
            return Fraction(int(x))
        if isinstance(x, _np.floating):
            return Fraction(Decimal(repr(float(x))))
    except ImportError:  # pragma: no cover
        pass
    raise TypeError("not a rational constant: %r" % (x,))


def _nexp(e):
    """normalise an exponent: int when integral"""
    if isinstance(e, int):
        return e
    if isinstance(e, Fraction):
        if e.denominator == 1:
            return e.numerator
        return e
    e = _fr(e)
    return e.numerator if e.denominator == 1 else e


def _factor_int(n):
    fs = {}
    d = 2
    if n > 10 ** 24:
        raise Undecided("root of a large rational constant (factoring %d digits)" % len(str(n)))
    while d * d <= n:
        if d > 2000000:
            raise Undecided("root of a large rational constant")
        while n % d == 0:
            fs[d] = fs.get(d, 0) + 1
            n //= d
        d += 1 if d == 2 else 2
    if n > 1:
        fs[n] = fs.get(n, 0) + 1
    return fs


# ------------------------------------------------------------------------------------------
# monomials
# ------------------------------------------------------------------------------------------
def _mono_mul(a, b):
    """merge two sorted monomials; returns (mono, rational factor from prime generators)"""
    if not a:
        return b, None
    if not b:
        return a, None
    out = []
    i = j = 0
    la, lb = len(a), len(b)
    coef = None
    while i < la and j < lb:
        ga, ea = a[i]
        gb, eb = b[j]
        if ga == gb:
            e = ea + eb
            if not isinstance(e, int) and e.denominator == 1:
                e = e.numerator
            if ga < 0:
                # prime generator: keep exponent in [0,1)
                if isinstance(e, int):
                    fl = e
                    e = 0
                else:
                    fl = e.numerator // e.denominator
                    e = e - fl
                if fl:
                    c = Fraction(-ga) ** fl
                    coef = c if coef is None else coef * c
            if e != 0:
                out.append((ga, e))
            i += 1
            j += 1
        elif ga < gb:
            out.append(a[i])
            i += 1
        else:
            out.append(b[j])
            j += 1
    if i < la:
        out.extend(a[i:])
    if j < lb:
        out.extend(b[j:])
    return tuple(out), coef


# IEEE mode (opt-in per scenario): division by an identically zero value gives a NaN element that absorbs every sum and product
# (0 * NaN = NaN), as in floating-point array arithmetic; comparisons with it are False.  Off by default: division by zero is UNDECIDED.
IEEE = [False]
_NANKEY = [None]


def _nan_poly():
    if _NANKEY[0] is None:
        g = sym("NaN")
        (_NANKEY[0],) = g.t.keys()
    return Poly({_NANKEY[0]: F1})


def _has_nan_poly(p):
    k = _NANKEY[0]
    return k is not None and any(m == k or (len(m) > 0 and any(g == k[0][0] for g, _ in m)) for m in p.t)


class Poly:
    __slots__ = ("t", "_h")

    def __init__(self, t=None):
        self.t = t if t is not None else {}
        self._h = None

    # -- construction ----------------------------------------------------------------------
    @staticmethod
    def const(c):
        c = _fr(c)
        return Poly({(): c}) if c else Poly({})

    @staticmethod
    def gen(gid, e=1):
        return Poly({((gid, _nexp(e)),): F1})

    # -- predicates ------------------------------------------------------------------------
    def is_const(self):
        t = self.t
        return not t or (len(t) == 1 and () in t)

    def const_value(self):
        t = self.t
        if not t:
            return F0
        if len(t) == 1 and () in t:
            return t[()]
        # try harder: maybe it normalises to a constant
        raise Undecided("symbolic value where a constant is required: %s" % self)

    def gens(self):
        s = set()
        for m in self.t:
            for g, _ in m:
                s.add(g)
        return s

    # -- arithmetic ------------------------------------------------------------------------
    def __add__(self, o):
        if not isinstance(o, Poly):
            o = _coerce(o)
            if o is NotImplemented:
                return o
        if IEEE[0] and _NANKEY[0] is not None and (_has_nan_poly(self) or _has_nan_poly(o)):
            return _nan_poly()
        if not o.t:
            return self
        if not self.t:
            return o
        a, b = (self.t, o.t) if len(self.t) >= len(o.t) else (o.t, self.t)
        r = dict(a)
        for m, c in b.items():
            v = r.get(m)
            if v is None:
                r[m] = c
            else:
                v = v + c
                if v:
                    r[m] = v
                else:
                    del r[m]
        return Poly(r)

    __radd__ = __add__

    def __neg__(self):
        return Poly({m: -c for m, c in self.t.items()})

    def __pos__(self):
        return self

    def __sub__(self, o):
        if not isinstance(o, Poly):
            o = _coerce(o)
            if o is NotImplemented:
                return o
        return self + (-o)

    def __rsub__(self, o):
        o = _coerce(o)
        if o is NotImplemented:
            return o
        return o + (-self)

    def __mul__(self, o):
        if not isinstance(o, Poly):
            o = _coerce(o)
            if o is NotImplemented:
                return o
        if IEEE[0] and _NANKEY[0] is not None and (_has_nan_poly(self) or _has_nan_poly(o)):
            return _nan_poly()
        a, b = self.t, o.t
        if not a or not b:
            return ZERO
        if len(b) == 1:
            a, b = b, a
        if len(a) == 1:
            (ma, ca), = a.items()
            if not ma:
                if ca == 1:
                    return o if b is o.t else self
                return Poly({m: c * ca for m, c in b.items()})
        if len(a) > 2 and len(b) > 2 and G.by_pow and not G.rewrites:
            sc = _atom_shortcut(a, b)
            if sc is None:
                sc = _atom_shortcut(b, a)
            if sc is not None:
                return sc
        r = {}
        for ma, ca in a.items():
            for mb, cb in b.items():
                m, k = _mono_mul(ma, mb)
                c = ca * cb
                if k is not None:
                    c = c * k
                v = r.get(m)
                if v is None:
                    r[m] = c
                else:
                    v = v + c
                    if v:
                        r[m] = v
                    else:
                        del r[m]
        if G.rewrites:
            return _rewrite(Poly(r))
        return Poly(r)

    __rmul__ = __mul__

    def __truediv__(self, o):
        if not isinstance(o, Poly):
            o = _coerce(o)
            if o is NotImplemented:
                return o
        return self * inv(o)

    def __rtruediv__(self, o):
        o = _coerce(o)
        if o is NotImplemented:
            return o
        return o * inv(self)

    def __pow__(self, e):
        return power(self, e)

    def __rpow__(self, b):
        b = _coerce(b)
        if b is NotImplemented:
            return b
        return power(b, self)

    # floor division / modulo only on constants
    def __floordiv__(self, o):
        a = self.const_value()
        b = _coerce(o).const_value()
        return Poly.const(Fraction(math.floor(a / b)))

    def __mod__(self, o):
        a = self.const_value()
        b = _coerce(o).const_value()
        return Poly.const(a - b * math.floor(a / b))

    # -- numpy ufunc method protocol on object arrays ---------------------------------------
    def sqrt(self):
        return power(self, Fraction(1, 2))

    def log(self):
        return fun_atom("Log", self)

    def exp(self):
        return fun_atom("Exp", self)

    def conjugate(self):
        return self

    def __abs__(self):
        if self.is_const():
            return Poly.const(abs(self.const_value()))
        return fun_atom("Abs", self)

    # -- comparisons ---------------------------------------------------------------------------
    def __eq__(self, o):
        if not isinstance(o, Poly):
            try:
                o = _coerce(o)
            except TypeError:
                return False
            if o is NotImplemented:
                return False
        if self.t == o.t:
            return True
        return is_zero(self - o)

    def __ne__(self, o):
        r = self.__eq__(o)
        return not r

    def __hash__(self):
        if self._h is None:
            if self.is_const():
                self._h = hash(self.const_value())
            else:
                self._h = hash(frozenset(self.t.items()))
        return self._h

    def _cmp(self, o, op):
        o = _coerce(o)
        d = self - o
        if not d.is_const() and ORDER_ORACLE[0] is not None:
            r = ORDER_ORACLE[0](self, o, op)
            if r is not None:
                return r
        if not d.is_const():
            d = normal(d)
        if d.is_const():
            v = d.const_value()
            return {"<": v < 0, "<=": v <= 0, ">": v > 0, ">=": v >= 0}[op]
        sg = _generic_sign(d)
        if sg is not None:
            return {"<": sg < 0, "<=": sg <= 0, ">": sg > 0, ">=": sg >= 0}[op]
        # an algebraic constant (roots of constants, no symbols): separated from zero by its 80-digit value
        try:
            v = const_decimal(d)
        except Undecided:
            v = None
        except Exception:
            v = None
        if v is not None and abs(v) > _SEP:
            return {"<": v < 0, "<=": v <= 0, ">": v > 0, ">=": v >= 0}[op]
        raise Undecided("order comparison on symbolic data: (%s) %s (%s)" % (self, op, o))

    def __lt__(self, o):
        return self._cmp(o, "<")

    def __le__(self, o):
        return self._cmp(o, "<=")

    def __gt__(self, o):
        return self._cmp(o, ">")

    def __ge__(self, o):
        return self._cmp(o, ">=")

    def __bool__(self):
        if not self.t:
            return False
        if self.is_const():
            return True
        return not is_zero(self)

    def __int__(self):
        v = self.const_value()
        if v.denominator != 1:
            raise Undecided("int() of a non-integral constant %s" % v)
        return v.numerator

    __index__ = __int__

    def __float__(self):
        return float(self.const_value())

    def __round__(self, n=None):
        return round(self.const_value(), n)

    # -- printing ------------------------------------------------------------------------------
    def __repr__(self):
        return "Poly(%s)" % self

    def __str__(self):
        return fmt(self)


ORDER_ORACLE = [None]


def _generic_sign(d):
    """sign of a single-term element at a generic real point: the coefficient's sign when every generator of the monomial is positive there
    (positive symbols, roots of primes, Exp / Abs atoms, principal even roots, even powers); None otherwise"""
    if len(d.t) != 1:
        return None
    (m, c), = d.t.items()
    for g, e in m:
        e = _fr(e)
        if g < 0:
            continue
        inf = G.info[g]
        k = inf["kind"]
        if k == "sym" and inf.get("positive"):
            continue
        if e.denominator == 1 and e.numerator % 2 == 0:
            continue
        if k == "pow" and e.denominator % 2 == 0:
            continue
        if k == "fun" and inf.get("fname") in ("Exp", "Abs", "Cosh"):
            continue
        return None
    return 1 if c > 0 else -1

import decimal as _decimal
_SEP = _decimal.Decimal(10) ** -40
AUTO_CANCEL = [True]


def _atom_shortcut(a, b):
    """a * b where a == c * B for the base B of a pow atom g and every term of b carries g**(-k), k >= 1:
    the product is c * (b with the exponent of g raised by one) -- J * (adj(F) / J) stays small"""
    mb0 = next(iter(b))
    cand = [g for g, e in mb0 if g > 0 and isinstance(e, int) and e < 0 and G.info[g]["kind"] == "pow"]
    if not cand:
        return None
    for g in cand:
        B = G.info[g]["arg"].t
        if len(B) != len(a):
            continue
        # a == c * B ?
        m0 = next(iter(B))
        ca = a.get(m0)
        if ca is None:
            continue
        c = ca / B[m0]
        if any(a.get(m) != c * v for m, v in B.items()):
            continue
        out = {}
        for m, v in b.items():
            nm = []
            hit = False
            for gg, e in m:
                if gg == g:
                    if not (isinstance(e, int) and e < 0):
                        return None
                    hit = True
                    if e + 1 != 0:
                        nm.append((gg, e + 1))
                else:
                    nm.append((gg, e))
            if not hit:
                return None
            out[tuple(nm)] = v * c
        return Poly(out)
    return None


def set_rewrite(gen, n, replacement):
    """declare gen**n == replacement (a Poly not involving gen to a power >= n); products are reduced eagerly"""
    (m,) = gen.t.keys()
    G.rewrites[m[0][0]] = (n, P(replacement))


def clear_rewrites():
    G.rewrites.clear()


def _rewrite(p):
    rw = G.rewrites
    for _ in range(64):
        hit = False
        keep = {}
        extra = None
        for m, c in p.t.items():
            done = False
            for i, (g, e) in enumerate(m):
                if g in rw and isinstance(e, int) and e >= rw[g][0]:
                    n, repl = rw[g]
                    k, rem = divmod(e, n)
                    rest = m[:i] + (((g, rem),) if rem else ()) + m[i + 1:]
                    saved = G.rewrites
                    G.rewrites = {}
                    try:
                        t = Poly({rest: c})
                        for _k in range(k):
                            t = t * repl
                    finally:
                        G.rewrites = saved
                    extra = t if extra is None else extra + t
                    hit = done = True
                    break
            if not done:
                keep[m] = c
        if not hit:
            return p
        p = Poly(keep) + extra
    raise Undecided("rewrite system did not terminate")


def _coerce(o):
    if isinstance(o, Poly):
        return o
    if isinstance(o, (int, Fraction, float, Decimal)):
        return Poly.const(o)
    try:
        import numpy as _np

        if isinstance(o, _np.ndarray):
            if o.ndim == 0:
                return _coerce(o.item())
            return NotImplemented
        if isinstance(o, (_np.integer, _np.floating, _np.bool_)):
            return Poly.const(o)
    except ImportError:  # pragma: no cover
        pass
    if o is None:
        raise TypeError("None in ring arithmetic")
    return NotImplemented


ZERO = Poly({})
ONE = Poly({(): F1})


def P(x):
    """anything scalar -> Poly"""
    r = _coerce(x)
    if r is NotImplemented:
        raise TypeError("cannot coerce %r to a ring element" % (x,))
    return r


# ------------------------------------------------------------------------------------------
# generators
# ------------------------------------------------------------------------------------------
def sym(name, positive=False):
    gid = G.by_name.get(name)
    if gid is None:
        gid = G.new(kind="sym", name=name, positive=positive)
        G.by_name[name] = gid
    return Poly.gen(gid)


def symid(name):
    sym(name)
    return G.by_name[name]


def set_deriv(fun_sym, x_sym, value):
    """declare d fun_sym / d x_sym = value (for opaque function atoms)"""
    (mf,), (mx,) = fun_sym.t.keys(), x_sym.t.keys()
    G.custom_deriv[(mf[0][0], mx[0][0])] = P(value)
    G.dcache.clear()
    G.deps_cache.clear()


def _key(p):
    return frozenset(p.t.items())


def _content_split(p):
    """p = c * q with q primitive-ish (leading coefficient 1 in a canonical order)"""
    # leading term = the largest monomial: "x**2 - 3" is normalised with +x**2 leading, so that the usual
    # positive quantities (limit**2 - 3, 1 + t**2, ...) keep a positive content
    m0 = max(p.t.keys(), key=lambda m: (sum(abs(e) for _, e in m), len(m), m))
    c = p.t[m0]
    if c == 1:
        return F1, p
    return c, Poly({m: v / c for m, v in p.t.items()})


POSITIVE_KEYS = set()  # keys of (content-normalised) polynomials a scenario declares positive (e.g. det C of a symmetric positive definite C)


def declare_positive(p):
    c, q = _content_split(P(p))
    if c < 0:
        raise ValueError("declare_positive: negative content")
    POSITIVE_KEYS.add(_key(q))


def _pullable(g, e):
    """may the factor g**e be taken out of a root?  symbols as before; a root atom B**(k/n) is positive whenever it is real; an atom with
    an integer exponent only if its base polynomial has been declared positive"""
    k = G.info[g]["kind"]
    if k == "sym":
        return True
    if k == "pow":
        if isinstance(e, Fraction) and e.denominator != 1:
            return True
        return _key(G.info[g]["arg"]) in POSITIVE_KEYS
    return False


def _mono_content(p):
    """largest monomial in sym generators (and positive root atoms) dividing every term of p: returns (mono Poly, p / mono)"""
    common = None
    for m in p.t:
        d = {g: e for g, e in m if g < 0 or _pullable(g, e)}  # g < 0: roots of primes (positive constants)
        if common is None:
            common = d
        else:
            for g in list(common):
                if g in d:
                    e1, e2 = common[g], d[g]
                    if (e1 > 0) != (e2 > 0):
                        del common[g]
                    else:
                        common[g] = min(e1, e2) if e1 > 0 else max(e1, e2)
                else:
                    del common[g]
        if not common:
            return None, p
    if not common:
        return None, p
    mono = Poly({tuple(sorted(common.items())): F1})
    imono = Poly({tuple(sorted((g, -e) for g, e in common.items())): F1})
    return mono, p * imono


def pow_atom(B):
    """generator standing for the (non-monomial, content-normalised) polynomial B"""
    if _exp_gens(B):
        B = explog_normal(B)
    k = _key(B)
    gid = G.by_pow.get(k)
    if gid is None:
        gid = G.new(kind="pow", arg=B)
        G.by_pow[k] = gid
    return gid


def const_pow(c, e):
    """c**e for rational c>0 and rational e, through prime generators"""
    c = _fr(c)
    e = _fr(e)
    if e.denominator == 1:
        return Poly.const(c ** e.numerator)
    if c < 0:
        if e.denominator % 2 == 1:
            # real odd root: (-|c|)**(p/q) = (-1)**p * |c|**(p/q)  (consistent with (ab)**(1/q) = a**(1/q) b**(1/q) for odd q)
            r = const_pow(-c, e)
            return -r if e.numerator % 2 else r
        raise Undecided("fractional power of a negative constant %s**%s" % (c, e))
    if c == 0:
        if e > 0:
            return ZERO
        raise Undecided("0 ** negative")
    res = ONE
    for n, sgn in ((c.numerator, 1), (c.denominator, -1)):
        for p, k in _factor_int(n).items():
            ee = e * k * sgn
            fl = ee.numerator // ee.denominator
            fr = ee - fl
            term = Poly.const(Fraction(p) ** fl)
            if fr:
                term = term * Poly({((-p, fr),): F1})
            res = res * term
    return res


def inv(b):
    b = P(b)
    if IEEE[0]:
        if not b.t or _has_nan_poly(b):
            return _nan_poly()
    if not b.t:
        raise Undecided("division by (identically) zero")
    if len(b.t) == 1:
        (m, c), = b.t.items()
        r = Poly({tuple((g, -e) for g, e in m if g > 0): F1 / c})
        for g, e in m:
            if g < 0:
                r = r * const_pow(Fraction(-g), -e)
        return r
    mono, b2 = _mono_content(b)
    if mono is not None:
        return inv(mono) * inv(b2)
    c, q = _content_split(b)
    g = pow_atom(q)
    return Poly({((g, -1),): F1 / c})


def power(b, e):
    b = P(b)
    if isinstance(e, Poly):
        if e.is_const():
            e = e.const_value()
        else:
            return sym_power(b, e)
    if not isinstance(e, (int, Fraction)):
        e = _fr(e)
    e = _nexp(e)
    if isinstance(e, int):
        if e == 0:
            return ONE
        if e < 0:
            return power(inv(b), -e)
        if len(b.t) == 1:
            (m, c), = b.t.items()
            r = Poly({tuple((g, _nexp(x * e)) for g, x in m if g > 0): c ** e})
            for g, x in m:
                if g < 0:
                    r = r * const_pow(Fraction(-g), x * e)
            return r
        key = (_key(b), e)
        r = G.powcache.get(key)
        if r is None:
            r = ONE
            base = b
            k = e
            while k:
                if k & 1:
                    r = r * base
                k >>= 1
                if k:
                    base = base * base
            if len(G.powcache) < 20000:
                G.powcache[key] = r
        return r
    # rational exponent
    if not b.t:
        if e > 0:
            return ZERO
        raise Undecided("0 ** negative")
    if len(b.t) == 1:
        (m, c), = b.t.items()
        try:
            r = const_pow(c, e)
        except Undecided:
            if c <= 0:
                raise
            # root of a large rational: an atom standing for the constant itself (relations handled by is_zero)
            r = Poly({((pow_atom(Poly.const(c)), e),): F1})
        for g, x in m:
            if g < 0:
                r = r * const_pow(Fraction(-g), x * e)
            else:
                r = r * Poly({((g, _nexp(x * e)),): F1})
        return r
    mono, b2 = _mono_content(b)
    if mono is not None:
        return power(mono, e) * power(b2, e)
    c, q = _content_split(b)
    if c < 0:
        # keep the sign inside the base: (-|c| q)**e = |c|**e * (-q)**e
        c, q = -c, -q
    try:
        ce = const_pow(c, e)
    except Undecided:
        # the rational content has no tractable root: keep it inside the base
        ce, q = ONE, q * Poly.const(c)
    g = pow_atom(q)
    return ce * Poly({((g, e),): F1})


def sym_power(b, e):
    """b ** e with a symbolic exponent e: atom Exp(e*Log(b))-like, keyed canonically"""
    # represent as fun atom "Pw" of the pair -> treat as Exp(e * Log(b))
    return fun_atom("Exp", e * fun_atom("Log", b))


def fun_atom(fname, arg):
    arg = P(arg)
    if fname == "Abs":
        # |c| for a constant: rational, or a single algebraic term (coefficient times roots of positive constants)
        if not arg.t:
            return ZERO
        if len(arg.t) == 1:
            (m, c), = arg.t.items()
            if all(g < 0 for g, _ in m):
                return arg if c > 0 else -arg
    if fname == "Log":
        if arg.is_const():
            v = arg.const_value()
            if v == 1:
                return ZERO
        # Log of a monomial: split into sum of logs (positive generators assumed)
        if len(arg.t) == 1:
            (m, c), = arg.t.items()
            if len(m) + (c != 1) > 1 or (len(m) == 1 and m[0][1] != 1):
                r = ZERO
                if c != 1:
                    if c <= 0:
                        raise Undecided("log of non-positive constant")
                    r = r + _fun_gen("Log", Poly.const(c))
                for g, e in m:
                    r = r + Poly.const(_fr(e)) * _fun_gen("Log", Poly({((g, 1),): F1}))
                return r
        else:
            mono, rest = _mono_content(arg)
            if mono is not None:
                return fun_atom("Log", mono) + fun_atom("Log", rest)
            if _exp_gens(arg):
                a2 = explog_normal(arg)
                common = None
                okc = True
                for m, c in a2.t.items():
                    ex = [g for g, e in m if g > 0 and G.info[g]["kind"] == "fun" and G.info[g]["fname"] == "Exp"]
                    if len(ex) != 1 or dict(m)[ex[0]] != 1:
                        okc = False
                        break
                    t = G.info[ex[0]]["arg"].t
                    if common is None:
                        common = dict(t)
                    else:
                        common = {k: v for k, v in common.items() if t.get(k) == v}
                    if not common:
                        okc = False
                        break
                if okc and common:
                    cp = Poly(common)
                    return cp + fun_atom("Log", explog_normal(a2 * _fun_gen("Exp", -cp)))
        # Log(Exp(x)) = x
        if len(arg.t) == 1:
            (m, c), = arg.t.items()
            if c == 1 and len(m) == 1 and m[0][1] == 1 and m[0][0] > 0:
                inf = G.info[m[0][0]]
                if inf["kind"] == "fun" and inf["fname"] == "Exp":
                    return inf["arg"]
    if fname == "Exp":
        if not arg.t:
            return ONE
        # Exp(a+b) is kept as one atom keyed by the canonical sum; Exp(k*Log(x)) = x**k
        if len(arg.t) == 1:
            (m, c), = arg.t.items()
            if len(m) == 1 and m[0][1] == 1 and m[0][0] > 0:
                inf = G.info[m[0][0]]
                if inf["kind"] == "fun" and inf["fname"] == "Log":
                    return power(inf["arg"], c)
    if fname == "Erf" and not arg.t:
        return ZERO
    if fname in ("Sinh", "Tanh", "Sin", "Tan", "Arcsin", "Arctan") and not arg.t:
        return ZERO
    if fname in ("Cosh", "Cos") and not arg.t:
        return ONE
    return _fun_gen(fname, arg)


def _fun_gen(fname, arg):
    if fname != "Exp" and _exp_gens(arg):
        arg = explog_normal(arg)
    k = (fname, _key(arg))
    gid = G.by_fun.get(k)
    if gid is None:
        gid = G.new(kind="fun", fname=fname, arg=arg)
        G.by_fun[k] = gid
    return Poly.gen(gid)


def ofun(name, args, dvals=None):
    """opaque function atom name(args...) of several ring-valued arguments; d/dx = sum_k D_k name (args) * d args[k]/dx,
    the derivative atom's name being given by the rule registered with set_ofun_rule (default name;k)"""
    args = tuple(explog_normal(P(a)) if _exp_gens(P(a)) else P(a) for a in args)
    k = (name, tuple(_key(a) for a in args))
    if dvals is not None:
        dvals = tuple(P(d) for d in dvals)
        k = k + (tuple(_key(d) for d in dvals),)
    gid = G.by_ofun.get(k)
    if gid is None:
        gid = G.new(kind="ofun", name=name, args=args, dvals=dvals)
        G.by_ofun[k] = gid
    return Poly.gen(gid)


def set_ofun_rule(prefix, fn):
    G.ofun_dname[prefix] = fn


def _ofun_dname(name, k):
    for prefix, fn in G.ofun_dname.items():
        if name.startswith(prefix):
            r = fn(name, k)
            if r is not None:
                return r
    return "%s;%d" % (name, k)


PI = None


def pi():
    return sym("pi", positive=True)


# ------------------------------------------------------------------------------------------
# derivative
# ------------------------------------------------------------------------------------------
def _dgen(g, x):
    """d(generator g)/d(sym gid x) as a Poly (generator treated as the quantity it denotes)"""
    k = (g, x)
    r = G.dcache.get(k)
    if r is not None:
        return r
    if g < 0:
        r = ZERO
    else:
        inf = G.info[g]
        kind = inf["kind"]
        if kind == "sym":
            if g == x:
                r = ONE
            else:
                r = G.custom_deriv.get(k, ZERO)
        elif kind == "pow":
            r = diff(inf["arg"], x)
        elif kind == "ofun":
            r = ZERO
            for k, a in enumerate(inf["args"]):
                da = diff(a, x)
                if da.t:
                    if inf.get("dvals") is not None:
                        r = r + inf["dvals"][k] * da
                    else:
                        r = r + ofun(_ofun_dname(inf["name"], k), inf["args"]) * da
        else:
            a = inf["arg"]
            da = diff(a, x)
            if not da.t:
                r = ZERO
            else:
                fn = inf["fname"]
                me = Poly.gen(g)
                if fn == "Log":
                    r = da * inv(a)
                elif fn == "Exp":
                    r = da * me
                elif fn == "Erf":
                    r = da * Poly.const(2) * power(pi(), Fraction(-1, 2)) * fun_atom("Exp", -(a * a))
                elif fn == "Sinh":
                    r = da * fun_atom("Cosh", a)
                elif fn == "Cosh":
                    r = da * fun_atom("Sinh", a)
                elif fn == "Tanh":
                    r = da * (ONE - me * me)
                elif fn == "Sin":
                    r = da * fun_atom("Cos", a)
                elif fn == "Cos":
                    r = -da * fun_atom("Sin", a)
                elif fn == "Abs":
                    r = da * fun_atom("Sign", a)
                elif fn == "Sign":
                    r = ZERO
                else:
                    # opaque univariate function atom: derivative atom "D<fn>"
                    r = da * fun_atom("D" + fn, a)
    G.dcache[k] = r
    return r


def diff(p, x):
    """total derivative of p w.r.t. the sym x (a Poly that is a bare generator, or a gid)"""
    if isinstance(x, Poly):
        (mx,) = x.t.keys()
        x = mx[0][0]
    p = P(p)
    r = ZERO
    acc = {}
    for m, c in p.t.items():
        for i, (g, e) in enumerate(m):
            dg = _dgen(g, x)
            if not dg.t:
                continue
            # c * e * g**(e-1) * rest * dg
            e1 = e - 1
            if not isinstance(e1, int) and e1.denominator == 1:
                e1 = e1.numerator
            if e1 != 0:
                mm = m[:i] + ((g, e1),) + m[i + 1:]
            else:
                mm = m[:i] + m[i + 1:]
            cc = c * e
            if len(dg.t) == 1 and () in dg.t:
                cc = cc * dg.t[()]
                v = acc.get(mm)
                if v is None:
                    acc[mm] = cc
                else:
                    v = v + cc
                    if v:
                        acc[mm] = v
                    else:
                        del acc[mm]
            else:
                r = r + Poly({mm: _fr(cc)}) * dg
    if acc:
        r = r + Poly(acc)
    return r


# ------------------------------------------------------------------------------------------
# normal form / zero test
# ------------------------------------------------------------------------------------------
def _pow_gens(p):
    s = set()
    for m in p.t:
        for g, _ in m:
            if g > 0 and G.info[g]["kind"] == "pow":
                s.add(g)
    return s


def _split_exp(e):
    if isinstance(e, int):
        return e, 0
    fl = e.numerator // e.denominator
    return fl, e - fl


def _exp_gens(p):
    s = set()
    for m in p.t:
        for g, _ in m:
            if g > 0:
                inf = G.info[g]
                if inf["kind"] == "fun" and inf["fname"] == "Exp":
                    s.add(g)
    return s


def explog_normal(p):
    """merge Exp atoms: Exp(x)^a * Exp(y)^b * l^q -> Exp(a x + b y + q Log l) (for generators l whose
    Log occurs in some Exp argument of p), so that symbolic-exponent powers have one canonical form"""
    eg = _exp_gens(p)
    if not eg:
        return p
    loggens = {}
    for g in eg:
        for gg in G.info[g]["arg"].gens():
            if gg > 0:
                inf = G.info[gg]
                if inf["kind"] == "fun" and inf["fname"] == "Log":
                    a = inf["arg"]
                    if len(a.t) == 1:
                        (m, c), = a.t.items()
                        if c == 1 and len(m) == 1 and m[0][1] == 1:
                            loggens[m[0][0]] = gg
    out = ZERO
    for m, c in p.t.items():
        tot = ZERO
        rest = []
        for g, e in m:
            if g in eg:
                tot = tot + G.info[g]["arg"] * _fr(e)
            elif g in loggens:
                tot = tot + Poly.gen(loggens[g]) * _fr(e)
            else:
                rest.append((g, e))
        term = Poly({tuple(rest): c})
        if tot.t:
            lone = None
            if len(tot.t) == 1:
                (mm, q), = tot.t.items()
                if len(mm) == 1 and mm[0][1] == 1 and mm[0][0] > 0:
                    inf = G.info[mm[0][0]]
                    if inf["kind"] == "fun" and inf["fname"] == "Log" and inf["arg"].is_const():
                        lone = (inf["arg"], q)
            if lone is not None:
                # Exp(q Log c) for a positive constant c and a rational q is the constant c**q
                term = term * power(lone[0], lone[1])
            else:
                term = term * _fun_gen("Exp", tot)
        out = out + term
    return out


PROBE = [True]


def is_zero(p):
    """identically zero modulo the relations of pow atoms.  The relation test is sound for "zero" and exact for polynomials; with root atoms
    it is incomplete (it does not know every relation between radicals of products).  A "not zero" verdict on an expression with root atoms
    is therefore probed numerically (80 digits, generic points of three shapes): if the expression vanishes at every point where it can be
    evaluated, the verdict is withdrawn (Undecided: normal form incomplete) instead of being reported as a difference.  The probe never
    turns a verdict into "zero" or "not zero" here (see quick_nonzero for the one sound shortcut it offers)"""
    r = _is_zero_rel(p)
    if r or not PROBE[0]:
        return r
    p = P(p)
    if not _pow_gens(p):
        return False
    if _probe(p) == "zero":
        raise Undecided("normal form incomplete: structurally distinct radicals, numerically zero at generic points")
    return False


def quick_nonzero(p):
    """cheap and sound: True only if p is certainly not identically zero (a non-empty polynomial without root / inverse atoms, or a value
    far from zero at a generic point).  False means "not decided here" -- use is_zero"""
    p = P(p)
    if not p.t:
        return False
    if _exp_gens(p):
        return False
    if not _pow_gens(p):
        return True
    return _probe(p) == "nonzero"


def _probe(p):
    """'nonzero' (far from zero at one generic point), 'zero' (vanishes at >= 2 points where it can be evaluated) or None (cannot tell)"""
    import decimal

    syms = sorted(g for g in all_syms(p) if g not in NUMERIC)
    ctx = decimal.Context(prec=80)
    D = decimal.Decimal
    hits = 0
    for trial in range(6):
        point = {}
        for k, g in enumerate(syms):
            name = str(G.info[g].get("name", ""))
            # points of several shapes: all of order one; "diagonal-like" names (two equal trailing digits) large, the others small; ...
            h = (k * 7 + trial * 13 + 3) % 17
            if trial % 3 == 0:
                v = Fraction(20 + h, 17)
            elif trial % 3 == 1:
                diag = len(name) >= 2 and name[-1].isdigit() and name[-2:] in ("00", "11", "22")
                diag = diag or (name.endswith("]") and len(set(name[name.find("[") + 1:-1].split(",")[:2])) == 1)
                v = Fraction(30 + h, 20) if diag else Fraction(1 + h, 90)
            else:
                v = Fraction(1 + h, 23 + trial)
            point[g] = ctx.divide(D(v.numerator), D(v.denominator))
        try:
            val, scale = const_decimal(p, prec=80, point=point, with_scale=True)
        except (Undecided, decimal.DecimalException, ZeroDivisionError, OverflowError):
            continue
        if scale == 0:
            continue
        if abs(val) > scale * D(10) ** -55:
            return "nonzero"
        hits += 1
    return "zero" if hits >= 2 else None


def _is_zero_rel(p):
    """identically zero modulo the relations of pow atoms"""
    p = P(p)
    if not p.t:
        return True
    if _exp_gens(p):
        p = explog_normal(p)
        if not p.t:
            return True
    pg = _pow_gens(p)
    if not pg:
        return False
    g = max(pg)  # later-created atoms may contain earlier ones, never the converse
    B = G.info[g]["arg"]
    groups = {}
    for m, c in p.t.items():
        ip = fp = 0
        rest = m
        for i, (gg, e) in enumerate(m):
            if gg == g:
                ip, fp = _split_exp(e)
                rest = m[:i] + m[i + 1:]
                break
        groups.setdefault(fp, []).append((ip, rest, c))
    for fp, items in groups.items():
        k = min(i for i, _, _ in items)
        byp = {}
        for ip, rest, c in items:
            d = byp.setdefault(ip - k, {})
            d[rest] = d.get(rest, F0) + c
        tot = ZERO
        for n, d in byp.items():
            q = Poly({m: c for m, c in d.items() if c})
            tot = tot + (q * power(B, n) if n else q)
        if not _is_zero_rel(tot):
            return False
    return True


def normal(p):
    """best-effort normalisation used to recognise constants after cancellation: a candidate
    constant is obtained by evaluating at a rational point and then *verified* by is_zero"""
    p = P(p)
    if not _pow_gens(p):
        return p
    if is_zero(p):
        return ZERO
    try:
        pt = {}
        k = 3
        for g in sorted(all_syms(p)):
            pt[g] = Poly.const(Fraction(2 * k + 1, k + 4))
            k += 1
        c = _subs(p, pt, {})
        if c.is_const() and is_zero(p - c):
            return c
    except (Undecided, ZeroDivisionError):
        pass
    return expand_pows(p)


def all_syms(p, acc=None):
    """all sym gids occurring in p, including inside atoms"""
    if acc is None:
        acc = set()
    for g in P(p).gens():
        if g < 0 or g in acc:
            continue
        inf = G.info[g]
        if inf["kind"] == "sym":
            acc.add(g)
        elif inf["kind"] == "ofun":
            for a in inf["args"]:
                all_syms(a, acc)
        else:
            all_syms(inf["arg"], acc)
    return acc


def expand_pows(p):
    """expand positive integer parts of pow-atom exponents"""
    p = P(p)
    changed = True
    while changed:
        changed = False
        r = ZERO
        acc = {}
        for m, c in p.t.items():
            hit = None
            for i, (g, e) in enumerate(m):
                if g > 0 and G.info[g]["kind"] == "pow":
                    ip, fp = _split_exp(e)
                    if ip > 0:
                        hit = (i, g, ip, fp)
                        break
            if hit is None:
                acc[m] = acc.get(m, F0) + c
            else:
                i, g, ip, fp = hit
                mm = m[:i] + (((g, fp),) if fp else ()) + m[i + 1:]
                r = r + Poly({mm: c}) * power(G.info[g]["arg"], ip)
                changed = True
        p = r + Poly({m: c for m, c in acc.items() if c})
    return p


def divide_exact(N, B):
    """N / B if B divides N exactly (multivariate polynomial division, lexicographic order), else None"""
    N, B = P(N), P(B)
    if not B.t:
        return None
    if not N.t:
        return ZERO
    gens = sorted(N.gens() | B.gens())
    pos = {g: i for i, g in enumerate(gens)}
    ng = len(gens)

    def vec(m):
        v = [0] * ng
        for g, e in m:
            v[pos[g]] = e
        return tuple(v)

    Bv = {vec(m): c for m, c in B.t.items()}
    Nv = {vec(m): c for m, c in N.t.items()}
    lb = max(Bv)
    cb = Bv[lb]
    brest = [(v, c) for v, c in Bv.items() if v != lb]
    Q = {}
    guard = 0
    while Nv:
        guard += 1
        if guard > 200000:
            return None
        ln = max(Nv)
        qv = tuple(a - b for a, b in zip(ln, lb))
        # divisibility: exponents of the quotient must not "go below" what N offers (no sign flips for plain division)
        if any((b > 0 and a < b) or (b < 0 and a > b) for a, b in zip(ln, lb)):
            return None
        qc = Nv.pop(ln) / cb
        Q[qv] = qc
        for bv, bcf in brest:
            k = tuple(a + b for a, b in zip(qv, bv))
            nv = Nv.get(k, F0) - qc * bcf
            if nv:
                Nv[k] = nv
            else:
                Nv.pop(k, None)
    out = {}
    for v, c in Q.items():
        m = tuple((gens[i], e) for i, e in enumerate(v) if e != 0)
        out[m] = c
    return Poly(out)


def cancel(p):
    """cancel inverse pow atoms against numerators divisible by their base (J * (adj / J) -> adj)"""
    p = P(p)
    for g in sorted(_pow_gens(p), reverse=True):
        B = G.info[g]["arg"]
        groups = {}
        for m, c in p.t.items():
            e = 0
            rest = m
            for i, (gg, ee) in enumerate(m):
                if gg == g:
                    e = ee
                    rest = m[:i] + m[i + 1:]
                    break
            groups.setdefault(e, {})[rest] = c
        neg = sorted(e for e in groups if isinstance(e, int) and e < 0)
        changed = False
        for e in neg:
            Nn = Poly(groups.get(e, {}))
            if not Nn.t:
                continue
            q = divide_exact(Nn, B)
            if q is None:
                continue
            changed = True
            tgt = groups.setdefault(e + 1, {})
            for m, c in q.t.items():
                v = tgt.get(m, F0) + c
                if v:
                    tgt[m] = v
                else:
                    tgt.pop(m, None)
            groups[e] = {}
            if e + 1 < 0 and (e + 1) not in neg:
                neg.append(e + 1)
                neg.sort()
        if changed:
            out = {}
            for e, d in groups.items():
                for rest, c in d.items():
                    if e == 0:
                        m = rest
                    else:
                        m = tuple(sorted(rest + ((g, e),)))
                    v = out.get(m, F0) + c
                    if v:
                        out[m] = v
                    else:
                        out.pop(m, None)
            p = Poly(out)
    return p


def equal(a, b):
    return is_zero(P(a) - P(b))


# ------------------------------------------------------------------------------------------
# substitution / evaluation
# ------------------------------------------------------------------------------------------
def subs(p, mapping):
    """substitute syms (given as {gid or bare-gen Poly or name: value}) in p; atoms containing
    substituted syms are rebuilt"""
    mp = {}
    for k, v in mapping.items():
        if isinstance(k, Poly):
            (mk,) = k.t.keys()
            k = mk[0][0]
        elif isinstance(k, str):
            k = symid(k)
        mp[k] = P(v)
    return _subs(P(p), mp, {})


def _subs_gen(g, mp, cache):
    if g in cache:
        return cache[g]
    if g < 0:
        r = None
    else:
        inf = G.info[g]
        if inf["kind"] == "sym":
            r = mp.get(g)
        elif inf["kind"] == "ofun":
            nargs = [_subs(a, mp, cache) for a in inf["args"]]
            ndv = None if inf.get("dvals") is None else [_subs(d, mp, cache) for d in inf["dvals"]]
            if all(na.t == a.t for na, a in zip(nargs, inf["args"])) and (ndv is None or all(nd.t == d.t for nd, d in zip(ndv, inf["dvals"]))):
                r = None
            else:
                r = ofun(inf["name"], nargs, ndv)
        else:
            a = inf["arg"]
            if a.gens() & _closure(mp):
                na = _subs(a, mp, cache)
                r = ("pow", na) if inf["kind"] == "pow" else fun_atom(inf["fname"], na)
            else:
                # cheap check failed to see nested deps; do the full thing
                na = _subs(a, mp, cache)
                if na.t == a.t:
                    r = None
                else:
                    r = ("pow", na) if inf["kind"] == "pow" else fun_atom(inf["fname"], na)
    cache[g] = r
    return r


def _closure(mp):
    return set(mp.keys())


def _subs(p, mp, cache):
    out = ZERO
    keep = {}
    for m, c in p.t.items():
        term = None
        km = []
        for g, e in m:
            r = _subs_gen(g, mp, cache)
            if r is None:
                km.append((g, e))
            else:
                if isinstance(r, tuple):
                    v = power(r[1], e)
                else:
                    v = power(r, e)
                term = v if term is None else term * v
        if term is None:
            keep[m] = keep.get(m, F0) + c
        else:
            out = out + term * Poly({tuple(km): c})
    if keep:
        out = out + Poly({m: c for m, c in keep.items() if c})
    return out


# ------------------------------------------------------------------------------------------
# printing
# ------------------------------------------------------------------------------------------
def gen_name(g):
    if g < 0:
        return "%d" % (-g)
    inf = G.info[g]
    if inf["kind"] == "sym":
        return inf["name"]
    if inf["kind"] == "pow":
        return "(" + fmt(inf["arg"], 6) + ")"
    if inf["kind"] == "ofun":
        return "%s(..)" % inf["name"]
    return "%s(%s)" % (inf["fname"], fmt(inf["arg"], 6))


def fmt(p, maxterms=12):
    if not isinstance(p, Poly):
        return repr(p)
    if not p.t:
        return "0"
    parts = []
    items = sorted(p.t.items(), key=lambda kv: (len(kv[0]), kv[0]))
    for m, c in items[:maxterms]:
        s = []
        for g, e in m:
            n = gen_name(g)
            s.append(n if e == 1 else "%s^%s" % (n, e if isinstance(e, int) and e > 0 else "(%s)" % e))
        mono = "*".join(s)
        if not mono:
            parts.append(str(c))
        elif c == 1:
            parts.append(mono)
        elif c == -1:
            parts.append("-" + mono)
        else:
            parts.append("%s*%s" % (c, mono))
    r = " + ".join(parts).replace("+ -", "- ")
    if len(items) > maxterms:
        r += " + ...(%d terms)" % len(items)
    return r


def nterms(p):
    return len(P(p).t)


NUMERIC = {}  # gid of a symbol that stands for a known real constant (e.g. tan of half a constant angle) -> function(decimal context) -> Decimal


def decimal_pi(ctx):
    import decimal

    D = decimal.Decimal
    # Machin: pi = 16 atan(1/5) - 4 atan(1/239)
    def atan_inv(n):
        x = ctx.divide(D(1), D(n))
        x2 = ctx.multiply(x, x)
        term, tot, k = x, x, 1
        while True:
            term = ctx.multiply(term, x2)
            k += 2
            t = ctx.divide(term, D(k))
            tot = ctx.subtract(tot, t) if (k // 2) % 2 else ctx.add(tot, t)
            if abs(t) < D(10) ** -(ctx.prec + 5):
                return tot
    return ctx.subtract(ctx.multiply(D(16), atan_inv(5)), ctx.multiply(D(4), atan_inv(239)))


def decimal_sincos(x, ctx):
    import decimal

    D = decimal.Decimal
    s, c, term, k = D(0), D(0), D(1), 0
    while abs(term) > D(10) ** -(ctx.prec + 5) or k < 4:
        if k % 2 == 0:
            c = ctx.add(c, term) if (k // 2) % 2 == 0 else ctx.subtract(c, term)
        else:
            s = ctx.add(s, term) if (k // 2) % 2 == 0 else ctx.subtract(s, term)
        k += 1
        term = ctx.divide(ctx.multiply(term, x), D(k))
    return s, c


def const_decimal(p, prec=80, point=None, with_scale=False):
    """value of a *constant* ring element (no symbols; roots of constants, pow / Abs / Exp / Log / Sqrt atoms of constants allowed) as a
    Decimal with `prec` significant digits; Undecided for anything else.  Used only to *separate* two constants (a difference that is
    far from zero at 80 digits is not zero)."""
    import decimal

    ctx = decimal.Context(prec=prec)
    D = decimal.Decimal

    def dfr(q):
        q = _fr(q)
        return ctx.divide(D(q.numerator), D(q.denominator))

    def dpow(b, e):
        e = _fr(e)
        if e.denominator == 1:
            return ctx.power(b, D(e.numerator))
        if b < 0:
            if point is not None:
                # probing at a generic point: the ring's atom (-B)**(k/n) has no agreed real value where B > 0 -- this point decides nothing
                raise Undecided("fractional power of a negative value at the probe point")
            if e.denominator % 2 == 1:
                r = ctx.power(-b, dfr(e))
                return -r if e.numerator % 2 else r
            raise Undecided("fractional power of a negative constant")
        if b == 0:
            if e > 0:
                return D(0)
            raise Undecided("zero to a negative power")
        return ctx.power(b, dfr(e))

    cache = {}

    def gen(g):
        if g in cache:
            return cache[g]
        if g < 0:
            v = D(-g)
        else:
            inf = G.info[g]
            k = inf["kind"]
            if k == "pow":
                v = val(inf["arg"])
            elif k == "fun":
                a = val(inf["arg"])
                fn = inf["fname"]
                if fn == "Abs":
                    v = abs(a)
                elif fn == "Exp":
                    v = ctx.exp(a)
                elif fn == "Log":
                    if a <= 0:
                        raise Undecided("log of a non-positive constant")
                    v = ctx.ln(a)
                elif fn == "Sqrt":
                    v = ctx.sqrt(a)
                else:
                    raise Undecided("no decimal evaluation of %s" % fn)
            elif k == "sym" and g in NUMERIC:
                v = NUMERIC[g](ctx)
            elif k == "sym" and point is not None and g in point:
                v = point[g]
            else:
                raise Undecided("no decimal evaluation of a %s atom" % k)
        cache[g] = v
        return v

    def val(q, scale=None):
        tot = D(0)
        for m, c in P(q).t.items():
            t = dfr(c)
            for g, e in m:
                t = ctx.multiply(t, dpow(gen(g), e))
            tot = ctx.add(tot, t)
            if scale is not None:
                scale[0] = ctx.add(scale[0], abs(t))
        return tot

    if with_scale:
        # the value and the sum of the absolute values of the top-level terms (one pass, one cache)
        sc = [D(0)]
        v = val(p, sc)
        return v, sc[0]
    return val(p)
