import numpy as np, felupe as fem
from felupe import math as fm
rng = np.random.default_rng(0)
A = rng.normal(size=(3,3,1,5)) + 3*np.eye(3).reshape(3,3,1,1); b = rng.normal(size=(3,4,1))
for name, AA, bb in (("A(3,3,1,5) b(3,4,1)", A, b), ("A(3,3,4,1) b(3,1,5)", rng.normal(size=(3,3,4,1))+3*np.eye(3).reshape(3,3,1,1), rng.normal(size=(3,1,5))), ("A(3,3,4,5) b(3,4,5)", rng.normal(size=(3,3,4,5))+3*np.eye(3).reshape(3,3,1,1), rng.normal(size=(3,4,5)))):
    try:
        x = fm.solve_2d(AA, bb)
        r = np.einsum("ij...,j...->i...", AA, x) - bb
        print(name, "ok shape", x.shape, "residual", abs(r).max())
    except Exception as e:
        print(name, "raises", type(e).__name__, str(e)[:80])
# merge decimals
m = fem.Mesh(np.array([[0.0,0],[0.3333,0],[0.3333,0.5],[0,0.5],[0.3333,0],[1,0],[1,0.5],[0.3333,0.5]]), np.array([[0,1,2,3],[4,5,6,7]]), "quad")
mm = m.merge_duplicate_points(decimals=2)
print("merged points", mm.points.tolist())
# rotate int dtype
mi = fem.Mesh(np.array([[0,0],[2,0],[2,2],[0,2]]), np.array([[0,1,2,3]]), "quad")
print("rotate int mesh:", mi.rotate(30, axis=2).points.tolist())
print("Grid xy:", fem.Grid(np.linspace(0,1,3), np.linspace(0,1,2), indexing="xy").cells.tolist() if True else "")
