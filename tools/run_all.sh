#!/bin/sh
# run every registered check (quick by default) and print one line per property
tier=${1:-quick}
cd /verif
for p in C01 C02 C03 C04 C05 C06 C07 C08 C09 C10 C11 C12 C13 C14 C15 C16 C17 C18 C19 C20; do
  out=$(timeout 3000 python3-vt -m fverif check $p --tier $tier 2>&1); rc=$?
  echo "$p rc=$rc $(echo "$out" | grep '^property=' | head -1)"
  [ $rc -ne 0 ] && echo "$out" | grep -v '^property=' | cut -c1-300 | head -5
done
