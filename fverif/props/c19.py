"""C19 -- projection and post-processing return the quantities they name (DESIGN.md section 3, C19)."""

from fractions import Fraction

import numpy as np

from .. import ring, npmodel, micro, scenario
from ..ring import P, sym, is_zero, ZERO, ONE
from ..common import new_interp, symarray, finish_info, method_where
from ..interp import InterpRaise
from .c01 import setup_fields
from .c02 import regions, diff_dense, ref_linear, ref_bilinear
from .c03 import OpaqueHyper
from .c17 import leibniz

SPEC = dict(
    level="proof",
    rule="on the symbolic micro-instance: O1 the three implementations of the reported stresses (SolidBody, SolidBodyNearlyIncompressible, "
    "tools.save) compute P F^T and P F^T / det F for an arbitrary (opaque) stress P; O2 the per-cell view / job data are means over the "
    "quadrature axis of the named quantity (checked per cell as the multiset of component means, so that a layout change shared with the "
    "consumer does not matter); O3 tools.force / tools.moment are sums of nodal forces and of (X + u - c) x f over the boundary's points "
    "of the first field's block; O4 tools.topoints accumulates the cell values at their points and divides by the number of attached "
    "cells (mean=True: weighted average over the quadrature points first); O5 tools.project builds (int N_a N_b dV) x = int N_a values dV "
    "per component with the region's own dV (so a field of the region's space is a fixed point: the right-hand side of nodal data "
    "interpolated with the same basis is the matrix times that data); O6 extrapolate's core identity: the element's shape functions "
    "evaluated at the inverted Gauss points map Gauss-point values of a multilinear function to its nodal values (Quad / Hexahedron with "
    "the order-1 rule, 70-digit Gauss points); O7 tools.extrapolate evaluated from source with felupe's own Mesh, Region and Field on a distorted "
    "two-cell quad / hexahedron mesh: result[p, i, j, ...] == mean over the attached cells of sum_q h_q(1/g_a) values[i, j, ..., q, c] for tensor "
    "orders 0-3 and every average / mean flag. The view scenario moves the field after the body was built (the view reports the field it is given).",
    trusted_base=["scipy.sparse.linalg.spsolve (opaque)", "C02 assembly, C04 elements, C05 rules"],
    explanation="algebraic value numbering on the micro-instance",
    exhaustive=True,
    not_decided=["numerical solves", "project on templates whose rule is insufficient (a runtime check in the code)"],
    assumptions=["real arithmetic"],
)

FLOORS = {}


def tasks(tier):
    return [("stress formulas", "run_stress", {}), ("cell data", "run_celldata", {}), ("force+moment", "run_force", {}), ("topoints", "run_topoints", {}),
            ("project", "run_project", {}), ("extrapolate identity", "run_extrapolate", {}),
            ("extrapolate quad", "run_extrapolate_source", dict(cell_type="quad")), ("extrapolate hexahedron", "run_extrapolate_source", dict(cell_type="hexahedron")),
            ("extrapolate quad9 (cell means)", "run_extrapolate_source", dict(cell_type="quad9")),
            # extrapolate / topoints identify the q-th quadrature point with the q-th point of the cell: the permuted Gauss rules list their points
            # in the order of the matching element's nodes
            ("rule point order vs element nodes", "run_included", dict(modname="c05", fname="run_perm", kwargs=dict(tier=tier), oid="C19.O8", select_oid="C05.O5",
                                                                      why="shifting quadrature-point values to the points relies on the rule's points being ordered like the element's nodes")),
            # extrapolate() builds a helper region with the region's own element object and the inverted rule; project(average=False) copies
            # the region onto a disconnected mesh: the copy must carry the basis of the region's own rule
            ("region arrays after a helper region used the element", "run_included", dict(modname="c06", fname="run_cache", kwargs={}, oid="C19.O9", select_oid="C06.O7",
                                                                                        why="a projection after an extrapolation on the same region uses region.copy(mesh): its basis arrays must be those of the region's quadrature rule"))]


def run_stress(col):
    for cname, mod in (("SolidBody", "_solidbody"), ("SolidBodyNearlyIncompressible", "_solidbody_incompressible")):
        it = new_interp()
        fc, unknowns, (ra, rb), d, tdim = setup_fields(it, "PlaneStrain")
        kw = dict(bulk=sym("bulk", True)) if "Nearly" in cname else {}
        cls = it.get("felupe.mechanics.%s:%s" % (mod, cname))
        body = it.call(cls, [], dict(umat=OpaqueHyper("Wm", dim=3), field=fc, **kw))
        ev = it.getattr(body, "evaluate")
        tau = it.call(it.getattr(ev, "kirchhoff_stress"), [fc], {})
        sig = it.call(it.getattr(ev, "cauchy_stress"), [fc], {})
        res = it.getattr(body, "results")
        Pm = it.getattr(res, "stress")[0]
        F = it.getattr(res, "kinematics")[0]
        badk, badc = [], []
        for q in range(F.shape[2]):
            for c in range(F.shape[3]):
                det = leibniz(F[:, :, q, c])
                for i in range(3):
                    for j in range(3):
                        want = sum((P(Pm[i, k, q, c]) * P(F[j, k, q, c]) for k in range(3)), ZERO)
                        if not is_zero(P(tau[i, j, q, c]) - want):
                            badk.append((i, j, q, c))
                        if not is_zero(P(sig[i, j, q, c]) * det - want):
                            badc.append((i, j, q, c))
        col.add("C19.O1", "%s kirchhoff_stress" % cname, "Kirchhoff stress == P F^T at every quadrature point", not badk, "%s: %s" % (method_where(cls, "_kirchhoff_stress"), badk[:3]))
        col.add("C19.O1", "%s cauchy_stress" % cname, "Cauchy stress == P F^T / det F at every quadrature point", not badc, "%s: %s" % (method_where(cls, "_cauchy_stress"), badc[:3]))
        finish_info(col, it)
    # tools.save: stress handed to topoints
    it = new_interp()
    from .c20 import Store, meshio_summary
    store = Store()
    it.externals.update(meshio_summary(store))
    fc, unknowns, (ra, rb), d, tdim = setup_fields(it, "PlaneStrain")
    seen = []

    def h_topoints(interp, fn, args, kwargs):
        seen.append(args[0])
        return symarray("tp%d" % len(seen), (4, 3))

    it.call_hooks[("felupe.tools._project", "topoints")] = h_topoints
    Pm = symarray("Pm", (3, 3, 2, 2))
    ra.mesh.cell_type = "quad"
    it.call(it.get("felupe.tools._save:save"), [ra, fc], dict(gradient=[Pm], filename="x.vtu"))
    F = it.call_method(fc.attrs["fields"][0], "extract", [])
    bad = []
    s = npmodel.to_obj(seen[0]) if seen else None
    if s is not None:
        for q in range(2):
            for c in range(2):
                det = leibniz(F[:, :, q, c])
                for i in range(3):
                    for j in range(3):
                        want = sum((Pm[i, k, q, c] * P(F[j, k, q, c]) for k in range(3)), ZERO)
                        if not is_zero(P(s[i, j, q, c]) * det - want):
                            bad.append((i, j, q, c))
    col.add("C19.O1", "tools.save cauchy stress", "the stress shifted to the points by tools.save is P F^T / det F", s is not None and not bad, str(bad[:3]))
    finish_info(col, it)


def run_celldata(col):
    it = new_interp()
    fc, unknowns, (ra, rb), d, tdim = setup_fields(it, "Field3")
    body = it.call(it.get("felupe.mechanics._solidbody:SolidBody"), [], dict(umat=OpaqueHyper("Wm", dim=3), field=fc))
    captured = {}

    def h_viewfield(interp, fn, args, kwargs):
        captured.update(kwargs)
        return None

    def h_viewmesh(interp, fn, args, kwargs):
        captured["mesh_kwargs"] = kwargs
        return None

    it.call_hooks[("felupe.view._mesh", "ViewMesh.__init__")] = h_viewmesh
    VS = it.get("felupe.view._solid:ViewSolid")
    # the field moves on after the body was created / last assembled: the view reports the state of the field it is given
    f0 = fc.attrs["fields"][0]
    it.setattr(f0, "values", symarray("Unew", np.asarray(f0.attrs["values"]).shape))
    it.call(VS, [fc], dict(solid=body))
    cd = captured.get("mesh_kwargs", {}).get("cell_data", {})
    sig = it.call(it.getattr(it.getattr(body, "evaluate"), "cauchy_stress"), [fc], {})
    F = it.call_method(fc.attrs["fields"][0], "extract", [])
    nq, nc = F.shape[2], F.shape[3]

    def per_cell_multiset(arr, c):
        a = npmodel.to_obj(np.asarray(arr))
        # cells first or last: find the axis of length nc that is not a tensor axis by trying first
        if a.shape[0] == nc:
            vals = a[c].reshape(-1)
        else:
            vals = a[..., c].reshape(-1)
        return sorted(str(ring.cancel(P(v))) for v in vals)

    def means(T, c):
        T = npmodel.to_obj(T)
        out = []
        for idx in np.ndindex(*T.shape[:-2]):
            out.append(sum((P(T[idx + (q, c)]) for q in range(nq)), ZERO) * ring.inv(P(nq)))
        return out

    key = "Deformation Gradient"
    okk = key in cd and all(per_cell_multiset(cd[key], c) == sorted(str(ring.cancel(v)) for v in means(F, c)) for c in range(nc))
    col.add("C19.O2", "ViewField 'Deformation Gradient'", "per-cell data == mean over the quadrature axis of every component of F", okk, "keys %s" % sorted(cd))
    key = "Cauchy Stress"
    if key in cd:
        voigt = [(0, 0), (1, 1), (2, 2), (0, 1), (1, 2), (0, 2)]
        okk = True
        for c in range(nc):
            m = [sum((P(sig[i, j, q, c]) for q in range(nq)), ZERO) * ring.inv(P(nq)) for i, j in voigt]
            okk = okk and per_cell_multiset(cd[key], c) == sorted(str(ring.cancel(v)) for v in m)
        col.add("C19.O2", "ViewSolid 'Cauchy Stress'", "per-cell data == Voigt components (11, 22, 33, 12, 23, 13) of the quadrature-point mean of the Cauchy stress", okk)
    else:
        col.add("C19.O2", "ViewSolid 'Cauchy Stress'", "label present", False, "keys %s" % sorted(cd))
    pd = captured.get("mesh_kwargs", {}).get("point_data", {})
    U = fc.attrs["fields"][0].attrs["values"]
    okk = "Displacement" in pd and all(is_zero(P(a) - P(b)) for a, b in zip(npmodel.to_obj(pd["Displacement"]).reshape(-1), npmodel.to_obj(U).reshape(-1)))
    col.add("C19.O2", "ViewField 'Displacement'", "point data == the first field's values", okk)
    finish_info(col, it)


def run_force(col):
    it = new_interp()
    fc, n, dof0, dof1, ext0, (ra, rb) = scenario.make_problem(it, nfields=2)

    class Bnd:
        points = np.array([2, 0, 3])

    forces = symarray("R", (n,))
    force = it.get("felupe.tools._post:force")
    got = npmodel.to_obj(np.asarray(it.call(force, [fc, forces, Bnd()], {})))
    want = [sum((forces[2 * p + i] for p in Bnd.points), ZERO) for i in range(2)]
    col.add("C19.O3", "tools.force", "sum over the boundary's points of the first field's block of the force vector, per component", got.shape == (2,) and all(is_zero(P(got[i]) - want[i]) for i in range(2)))
    sp = npmodel.AbstractSparse(forces.reshape(-1, 1).copy())
    got2 = npmodel.to_obj(np.asarray(it.call(force, [fc, sp, Bnd()], {})))
    col.add("C19.O3", "tools.force (sparse input)", "a sparse force vector gives the same result", all(is_zero(P(got2[i]) - want[i]) for i in range(2)))
    # moment in 3d
    it = new_interp()
    fc3, unknowns, (ra, rb), d, tdim = setup_fields(it, "Field3", mixed=1)
    n3 = len(unknowns)
    forces = symarray("R", (n3,))
    cpt = symarray("cp", (3,))
    moment = it.get("felupe.tools._post:moment")
    got = npmodel.to_obj(np.asarray(it.call(moment, [fc3, forces, Bnd()], dict(centerpoint=cpt))))
    U = fc3.attrs["fields"][0].attrs["values"]
    X = ra.mesh.points
    want = [ZERO, ZERO, ZERO]
    for p in Bnd.points:
        r = [X[p, i] + U[p, i] - cpt[i] for i in range(3)]
        f = [forces[3 * p + i] for i in range(3)]
        cr = [r[1] * f[2] - r[2] * f[1], r[2] * f[0] - r[0] * f[2], r[0] * f[1] - r[1] * f[0]]
        want = [a + b for a, b in zip(want, cr)]
    col.add("C19.O3", "tools.moment", "sum over the boundary's points of (X + u - centre) x f with f the first field's block", got.shape == (3,) and all(is_zero(P(got[i]) - want[i]) for i in range(3)))
    finish_info(col, it)


def run_topoints(col):
    it = new_interp()
    ra, rb = regions(2)
    ra.mesh.cells_per_point = np.array([1, 1, 2, -1])
    ra.quadrature.weights = symarray("w", (2,), positive=True)
    top = it.get("felupe.tools._project:topoints")
    # values per cell point: shape (tensor..., points_per_cell, cells)
    vals = symarray("v", (3, 2, 2))
    got = npmodel.to_obj(np.asarray(it.call(top, [vals, ra], {})))
    cells = ra.mesh.cells
    bad = []
    for p in range(4):
        att = [(c, a) for c in range(2) for a in range(2) if cells[c, a] == p]
        for i in range(3):
            if not att:
                want = ZERO
                if P(got[p, i]).t:
                    bad.append((p, i))
                continue
            want = sum((vals[i, a, c] for c, a in att), ZERO) * ring.inv(P(len(att)))
            if not is_zero(P(got[p, i]) - want):
                bad.append((p, i))
    col.add("C19.O4", "tools.topoints average", "each point receives the mean over the attached cells of the value at its local position", not bad and got.shape == (4, 3), str(bad))
    gm = npmodel.to_obj(np.asarray(it.call(top, [vals, ra], dict(mean=True))))
    w = ra.quadrature.weights
    bad = []
    for p in range(3):
        att = [c for c in range(2) for a in range(2) if cells[c, a] == p]
        for i in range(3):
            cm = [sum((vals[i, q, c] * w[q] for q in range(2)), ZERO) * ring.inv(w[0] + w[1]) for c in att]
            want = sum(cm, ZERO) * ring.inv(P(len(att)))
            if not is_zero(P(gm[p, i]) - want):
                bad.append((p, i))
    col.add("C19.O4", "tools.topoints mean=True", "mean=True first takes the weighted average over the quadrature points of each cell", not bad, str(bad))
    gn = npmodel.to_obj(np.asarray(it.call(top, [vals, ra], dict(average=False))))
    okk = gn.shape == (4, 3) and all(is_zero(P(gn[c * 2 + a, i]) - vals[i, a, c]) for c in range(2) for a in range(2) for i in range(3))
    col.add("C19.O4", "tools.topoints average=False", "without averaging the values are listed cell by cell, point by point", okk)
    finish_info(col, it)


def run_project(col):
    it = new_interp()
    ra, rb = regions(2)
    ra.element = None
    solved = {}

    def spsolve(A, b):
        solved["A"], solved["b"] = micro.dense(A).copy(), npmodel.to_obj(np.asarray(b)).copy()
        return symarray("x", np.asarray(b).shape)

    it.externals["scipy.sparse.linalg"].ns["spsolve"] = spsolve
    it.externals["scipy.sparse"].ns["linalg"] = it.externals["scipy.sparse.linalg"]
    proj = it.get("felupe.tools._project:project")
    ra.quadrature.npoints = 2
    vals = symarray("v", (2, 2, 2))  # two components at (q, c)
    res = npmodel.to_obj(np.asarray(it.call(proj, [vals, ra], {})))
    A = ref_bilinear(ra, ra, 1, 1, lambda i, J, k, L, q, c: ONE, False, False)
    # points without cells have an empty row: the code places 1 on that diagonal entry
    for p in ra.mesh.points_without_cells:
        A[p, p] = ONE
    badA = diff_dense(solved.get("A"), A) if "A" in solved else ["solver not called"]
    b = np.concatenate([ref_linear(ra, 1, (lambda k: lambda i, J, q, c: vals[k, q, c])(k), False) for k in range(2)], axis=1)
    badb = diff_dense(solved.get("b"), b) if "b" in solved else ["solver not called"]
    col.add("C19.O5", "tools.project system matrix", "A == int N_a N_b dV with the region's own dV (unit diagonal for points without cells)", not badA, "; ".join(badA))
    col.add("C19.O5", "tools.project right-hand side", "b[:, k] == int N_a values_k dV for every component k", not badb, "; ".join(badb))
    col.add("C19.O5", "tools.project result", "the solver's solution is returned reshaped (points, components)", res.shape == (4, 2) and is_zero(P(res[1, 1]) - sym("x[1,1]")))
    # the optional argument dV (deformed volumes, volumes of a sub-domain, ...) replaces the region's differential volumes on *both* sides
    DV = symarray("DV", ra.dV.shape)
    it.call(proj, [vals, ra], dict(dV=DV))
    keep = ra.dV
    ra.dV = DV
    try:
        A2 = ref_bilinear(ra, ra, 1, 1, lambda i, J, k, L, q, c: ONE, False, False)
        b2 = np.concatenate([ref_linear(ra, 1, (lambda k: lambda i, J, q, c: vals[k, q, c])(k), False) for k in range(2)], axis=1)
    finally:
        ra.dV = keep
    for p in ra.mesh.points_without_cells:
        A2[p, p] = ONE
    badA2, badb2 = diff_dense(solved.get("A"), A2), diff_dense(solved.get("b"), b2)
    col.add("C19.O5", "tools.project with given dV", "A == int N_a N_b dV and b == int N_a values dV with the *given* differential volumes on both sides (fixed point and integral preservation w.r.t. that measure)",
            not badA2 and not badb2, "tools/_project.py project: matrix %s; right-hand side %s" % ("; ".join(badA2[:2]), "; ".join(badb2[:2])))
    # fixed point: for values interpolated from nodal data d with the same basis, b == A d (at points with cells)
    dn = symarray("d", (4,))
    vq = np.empty((1, 2, 2), dtype=object)
    for q in range(2):
        for c in range(2):
            vq[0, q, c] = sum((dn[ra.mesh.cells[c, a]] * ra.h[a, q, 0] for a in range(2)), ZERO)
    it.call(proj, [vq, ra], {})
    bb = solved["b"]
    bad = [p for p in range(3) if not is_zero(P(bb[p, 0]) - sum((A[p, m] * dn[m] for m in range(4)), ZERO))]
    col.add("C19.O5", "tools.project fixed point", "for quadrature values stemming from nodal data of the region's own space the system is A x = A d: the nodal data are returned (and the volume integral is preserved, summing the equations)", not bad, str(bad))
    finish_info(col, it)


def run_extrapolate(col):
    it = new_interp()
    GL = it.get("felupe.quadrature._gauss_legendre:GaussLegendre")
    tol = Fraction(1, 10 ** 50)
    # the bi-/tri-quadratic templates use the 3-point rule, whose middle points have zero coordinates (left where they are by the inversion,
    # coordinate by coordinate)
    for elname, dim, order in (("felupe.element._quad:Quad", 2, 1), ("felupe.element._hexahedron:Hexahedron", 3, 1),
                               ("felupe.element._quad:BiQuadraticQuad", 2, 2), ("felupe.element._hexahedron:TriQuadraticHexahedron", 3, 2)):
        el = it.call(it.get(elname), [], {})
        rule = it.call(GL, [], dict(order=order, dim=dim))
        inv = it.call_method(rule, "inv", [])
        gp = npmodel.to_obj(it.getattr(rule, "points"))
        ip = npmodel.to_obj(it.getattr(inv, "points"))
        pts = npmodel.to_obj(it.getattr(el, "points"))
        n = pts.shape[0]
        # multilinear test function with symbolic coefficients
        coef = {}

        def f(x):
            acc = ZERO
            for mask in range(2 ** dim):
                t = coef.setdefault(mask, sym("k%d" % mask))
                for ax in range(dim):
                    if mask >> ax & 1:
                        t = t * x[ax]
                acc = acc + t
            return acc

        bad = []
        for p in range(n):
            h = npmodel.to_obj(np.asarray(it.call_method(el, "function", [ip[p]])))
            val = sum((h[q] * f(gp[q]) for q in range(n)), ZERO)
            diff = val - f(pts[p])
            if any(abs(c) > tol for c in diff.t.values()):
                bad.append(p)
        col.add("C19.O6", "extrapolation identity %s" % elname.split(":")[1], "sum_q h_q(1/g_p) f(g_q) == f(node_p) for every multilinear f: Gauss-point values are mapped to nodal values (rule and element share their point order)",
                not bad, "points %s" % bad)
    finish_info(col, it)


def run_extrapolate_source(col, cell_type):
    """O7: tools.extrapolate evaluated from source on a distorted two-cell mesh with symbolic quadrature-point values of tensor order 0..4"""
    it = new_interp()
    F_ = Fraction
    Mesh = it.get("felupe.mesh._mesh:Mesh")
    GL = it.get("felupe.quadrature._gauss_legendre:GaussLegendre")
    Region = it.get("felupe.region._region:Region")
    ex = it.get("felupe.tools._project:extrapolate")
    order = 1
    if cell_type == "quad":
        pts = [[0, 0], [1, 0], [2, F_(1, 3)], [0, 1], [F_(5, 4), 1], [2, F_(3, 2)]]
        cells = np.array([[0, 1, 4, 3], [1, 2, 5, 4]])
        elname, dim = "felupe.element._quad:Quad", 2
    elif cell_type == "quad9":
        # bi-quadratic cells with the 3x3 rule: the quadrature weights differ from point to point; the middle points of the rule have zero
        # coordinates (C19.O6 decides that the inverted rule maps them to the mid-edge / centre nodes)
        pts = [[0, 0], [1, 0], [2, 0], [0, 1], [1, 1], [2, 1], [F_(1, 2), 0], [F_(3, 2), 0], [F_(1, 2), 1], [F_(3, 2), 1], [0, F_(1, 2)], [1, F_(1, 2)], [2, F_(1, 2)],
               [F_(1, 2), F_(1, 2)], [F_(3, 2), F_(1, 2)]]
        cells = np.array([[0, 1, 4, 3, 6, 11, 8, 10, 13], [1, 2, 5, 4, 7, 12, 9, 11, 14]])
        elname, dim, order = "felupe.element._quad:BiQuadraticQuad", 2, 2
    else:
        pts = [[0, 0, 0], [1, 0, 0], [2, F_(1, 3), 0], [0, 1, 0], [F_(5, 4), 1, 0], [2, F_(3, 2), 0],
               [0, 0, 1], [1, 0, F_(6, 5)], [2, F_(1, 3), 1], [0, 1, 1], [F_(5, 4), 1, F_(4, 5)], [2, F_(3, 2), 1]]
        cells = np.array([[0, 1, 4, 3, 6, 7, 10, 9], [1, 2, 5, 4, 7, 8, 11, 10]])
        elname, dim = "felupe.element._hexahedron:Hexahedron", 3
    mesh = it.call(Mesh, [npmodel.array(pts, dtype=npmodel.DType("float")), cells, cell_type], {})
    el = it.call(it.get(elname), [], {})
    rule = it.call(GL, [], dict(order=order, dim=dim))
    reg = it.call(Region, [mesh, el, rule], dict(grad=False))
    inv = it.call_method(rule, "inv", [])
    ip = npmodel.to_obj(it.getattr(inv, "points"))
    wq = [P(x) for x in npmodel.to_obj(it.getattr(rule, "weights")).reshape(-1)]
    npc = cells.shape[1]
    H = [[P(x) for x in npmodel.to_obj(np.asarray(it.call_method(el, "function", [ip[p_]]))).reshape(-1)] for p_ in range(npc)]  # H[p][q]
    attached = {}
    for c in range(cells.shape[0]):
        for a in range(npc):
            attached.setdefault(int(cells[c, a]), []).append((c, a))
    w = "tools/_project.py extrapolate"
    # tensor orders 0 .. 4 (the elasticity tensor is a fourth-order result; extents differ so that no two axes can be confused)
    for shape in (((), (3,), (2, 3), (2, 2, 3), (2, 3, 2, 2) if cell_type == "quad" else (2, 3, 1, 2)) if order == 1 else ((), (2, 3))):
        vals = symarray("V", shape + (npc, cells.shape[0]))

        def nodal(idx, c, a, mean):
            if mean:
                return sum((wq[q] * vals[idx + (q, c)] for q in range(npc)), ZERO) * ring.inv(sum(wq, ZERO))
            return sum((H[a][q] * vals[idx + (q, c)] for q in range(npc)), ZERO)

        for average in (True, False):
            for mean in (False, True):
                def chk(shape=shape, vals=vals, average=average, mean=mean):
                    out = npmodel.to_obj(np.asarray(it.call(ex, [vals.copy(), reg], dict(average=average, mean=mean))))
                    nrow = len(pts) if average else cells.shape[0] * npc
                    if out.shape != (nrow,) + shape:
                        return False, "%s: shape %s, expected %s" % (w, out.shape, (nrow,) + shape)
                    bad = []
                    for row in range(nrow):
                        for idx in np.ndindex(*shape):
                            if average:
                                lst = attached[row]
                                want = sum((nodal(idx, c, a, mean) for c, a in lst), ZERO) * Fraction(1, len(lst))
                            else:
                                want = nodal(idx, row // npc, row % npc, mean)
                            if not is_zero(P(out[(row,) + idx]) - want):
                                bad.append((row,) + idx)
                    return not bad, "%s: entries (point, component...) %s" % (w, bad[:5])
                col.check("C19.O7", "extrapolate %s values%s average=%s mean=%s" % (cell_type, list(shape), average, mean),
                          "result[p, i, j, ...] == mean over the cells attached to p of sum_q h_q(1/g_a) values[i, j, ..., q, c] (a: local number of p in c; mean=True: the "
                          "weighted cell mean instead); average=False: one row per cell corner, unaveraged", chk)
    finish_info(col, it)

def run_included(col, modname, fname, kwargs, oid, why, select_oid=None):
    from ..common import include

    include(col, modname, fname, kwargs, oid, why, select_oid=select_oid)
