from tensortrax.math import trace
from tensortrax.math.linalg import det


def mixed_invariants(C, mu, beta):
    "second invariant built from the full trace but the isochoric trace(C @ C): not stress free at C = 1"
    J3 = det(C) ** (-1 / 3)
    I1 = J3 * trace(C)
    I2 = (trace(C) ** 2 - J3**2 * trace(C @ C)) / 2
    return mu * ((1 - beta) * (I1 - 3) + beta * (I2 - 3))
