"""Runner: obligations, parallel execution, verdict discipline, evidence, known findings.

Exit codes: 0 ok (incl. KNOWN-FINDING lines) / 1 VIOLATION / 2 ANALYSIS-ERROR (fail closed).
"""

import hashlib
import importlib
import json
import multiprocessing as mp
import os
import sys
import time
import traceback

VERIF = os.path.dirname(os.path.dirname(os.path.abspath(__file__)))
REPO = os.environ.get("FVERIF_REPO", "/repo")
SRC = os.path.join(REPO, "src")

OK, VIOLATION, UNDECIDED, ERROR = "ok", "violation", "undecided", "error"


class Ob(dict):
    """one obligation result"""


def ob(oid, construct, rule, status, detail="", nontrivial=True, **extra):
    d = Ob(oid=oid, construct=construct, rule=rule, status=status, detail=str(detail)[:1500], nontrivial=bool(nontrivial))
    d.update(extra)
    return d


class Collector:
    """helper used inside tasks to record obligations"""

    def __init__(self):
        self.obs = []
        self.info = {}

    def check(self, oid, construct, rule, fn, nontrivial=True):
        """fn() -> True | (True, detail) | False | (False, detail); Undecided -> undecided"""
        from .ring import Undecided
        from .interp import InterpRaise

        try:
            r = fn()
            detail = ""
            if isinstance(r, tuple):
                if len(r) == 3:
                    r, detail, nontrivial = r
                else:
                    r, detail = r
            self.obs.append(ob(oid, construct, rule, OK if r else VIOLATION, detail, nontrivial))
            return bool(r)
        except Undecided as e:
            self.obs.append(ob(oid, construct, rule, UNDECIDED, "Undecided: %s" % e, nontrivial))
        except InterpRaise as e:
            # the analysed code raises on this path: for an obligation that expects a value this
            # is a violation of the property (the construct cannot deliver), reported with the
            # exception text.  An exception that surfaced inside a third-party *summary* may be
            # a deficiency of the summary: undecided, never a violation.
            if e.origin == "native":
                self.obs.append(ob(oid, construct, rule, UNDECIDED, "summary raised %s [%s]" % (e, e.where), nontrivial))
                return False
            self.obs.append(ob(oid, construct, rule, VIOLATION, "analysed code raises %s [%s]" % (e, e.where), nontrivial))
        return False

    def add(self, oid, construct, rule, ok_, detail="", nontrivial=True):
        self.obs.append(ob(oid, construct, rule, OK if ok_ else VIOLATION, detail, nontrivial))
        return ok_

    def undecided(self, oid, construct, rule, detail):
        self.obs.append(ob(oid, construct, rule, UNDECIDED, detail))


class TaskTimeout(BaseException):
    pass


def _alarm(signum, frame):
    raise TaskTimeout()


TASK_TIMEOUT = int(os.environ.get("FVERIF_TASK_TIMEOUT", "0"))


def _run_task(args):
    modname, fname, kwargs, task_id = args
    t0 = time.time()
    import signal

    limit = TASK_TIMEOUT or (1500 if kwargs.get("tier") == "thorough" or os.environ.get("FVERIF_TIER") == "thorough" else 240)
    col = None
    try:
        from . import ring

        ring.reset()
        mod = importlib.import_module(modname)
        col = Collector()
        signal.signal(signal.SIGALRM, _alarm)
        signal.alarm(limit)
        try:
            getattr(mod, fname)(col, **kwargs)
        finally:
            signal.alarm(0)
        return dict(task=task_id, obs=col.obs, info=col.info, wall=time.time() - t0)
    except TaskTimeout:
        obs = list(col.obs) if col is not None else []
        obs.append(ob("task", task_id, "task execution", UNDECIDED,
                      "analysis budget of %d s exceeded (expression swell): undecided, not a verdict" % limit))
        return dict(task=task_id, obs=obs, info=col.info if col is not None else {}, wall=time.time() - t0)
    except BaseException as e:  # noqa
        from .interp import InterpRaise

        if isinstance(e, InterpRaise) and e.origin != "native":
            # the analysed code itself raises on a configuration the property declares valid
            obs = list(col.obs) if col is not None else []
            obs.append(ob("task", task_id, "every scripted (valid) configuration of this task is processed without the analysed code raising", VIOLATION,
                          "analysed code raises %s [%s]" % (e, e.where)))
            return dict(task=task_id, obs=obs, info=col.info if col is not None else {}, wall=time.time() - t0)
        # keep what was decided before the failure (a violation found earlier in the task must not be lost)
        obs = list(col.obs) if col is not None else []
        obs.append(ob("task", task_id, "task execution", ERROR, "%s: %s\n%s" % (type(e).__name__, e, traceback.format_exc()[-1800:])))
        return dict(task=task_id, obs=obs, info=col.info if col is not None else {}, wall=time.time() - t0)


def load_known():
    """known_findings.txt: 'finding: property=Cxx key=<oid>|<construct> :: text' and 'fixed: ...' lines"""
    path = os.path.join(VERIF, "known_findings.txt")
    known = {}
    fixed = []
    if os.path.exists(path):
        for line in open(path):
            line = line.strip()
            if not line or line.startswith("#"):
                continue
            if line.startswith("finding:"):
                body = line[len("finding:"):].strip()
                parts = dict(p.split("=", 1) for p in body.split(" :: ")[0].split() if "=" in p)
                known.setdefault(parts.get("property"), {})[parts.get("key")] = body.split(" :: ", 1)[-1]
            elif line.startswith("fixed:"):
                fixed.append(line)
    return known, fixed


def source_digest():
    h = hashlib.sha256()
    n = 0
    for root, dirs, files in os.walk(os.path.join(SRC, "felupe")):
        dirs.sort()
        for f in sorted(files):
            if f.endswith(".py"):
                p = os.path.join(root, f)
                h.update(p.encode())
                h.update(open(p, "rb").read())
                n += 1
    return h.hexdigest()[:20], n


def run_property(pid, tier, seed, jobs=None):
    """returns exit code"""
    t0 = time.time()
    modname = "fverif.props.%s" % pid.lower()
    evidence_path = os.path.join(os.environ.get("FVERIF_EVIDENCE_DIR") or os.path.join(VERIF, "evidence"), "%s.json" % pid)
    try:
        os.remove(evidence_path)
    except OSError:
        pass
    os.environ["FVERIF_TIER"] = tier
    try:
        mod = importlib.import_module(modname)
        spec = mod.SPEC
        tasks = mod.tasks(tier)
    except BaseException as e:  # noqa
        print("ANALYSIS-ERROR property=%s reason=cannot build task list: %s: %s" % (pid, type(e).__name__, e))
        traceback.print_exc()
        return 2
    args = [(modname, fname, kwargs, tid) for tid, fname, kwargs in tasks]
    jobs = jobs or int(os.environ.get("FVERIF_JOBS", "0")) or min(16, os.cpu_count() or 4)
    results = []
    if jobs > 1 and len(args) > 1:
        ctx = mp.get_context("fork")
        with ctx.Pool(min(jobs, len(args)), maxtasksperchild=8) as pool:
            for r in pool.imap_unordered(_run_task, args, chunksize=1):
                results.append(r)
    else:
        for a in args:
            results.append(_run_task(a))
    results.sort(key=lambda r: str(r["task"]))
    obs = [o for r in results for o in r["obs"]]
    info = {}
    for r in results:
        for k, v in r["info"].items():
            if isinstance(v, (int, float)) and not isinstance(v, bool):
                info[k] = info.get(k, 0) + v
            elif isinstance(v, list):
                info.setdefault(k, [])
                for x in v:
                    if x not in info[k]:
                        info[k].append(x)
            elif isinstance(v, dict):
                info.setdefault(k, {}).update(v)
            else:
                info[k] = v
    known, fixed = load_known()
    known_p = known.get(pid, {})
    viol, und, err, knownhits = [], [], [], []
    for o in obs:
        if o["status"] == VIOLATION:
            key = "%s|%s" % (o["oid"], o["construct"])
            if key in known_p:
                knownhits.append((key, known_p[key]))
                o["status"] = "known-finding"
            else:
                viol.append(o)
        elif o["status"] == UNDECIDED:
            und.append(o)
        elif o["status"] == ERROR:
            err.append(o)
    n_ok = sum(1 for o in obs if o["status"] == OK)
    n_known = sum(1 for o in obs if o["status"] == "known-finding")
    # floors: instance counts that must be met, else the rule may pass vacuously
    floor_fail = []
    for name, (found_key, minimum) in getattr(mod, "FLOORS", {}).items():
        found = info.get(found_key, 0)
        if isinstance(found, (list, dict)):
            found = len(found)
        if found < minimum:
            floor_fail.append("%s: found %s < floor %s" % (name, found, minimum))
    canaries = info.get("canaries_expected", 0), info.get("canaries_fired", 0)
    if canaries[0] != canaries[1]:
        floor_fail.append("canaries fired %d of %d" % (canaries[1], canaries[0]))
    wall = time.time() - t0
    digest, nfiles = source_digest()
    distinct = len({(o["oid"], o["construct"]) for o in obs if o["nontrivial"] and o["status"] in (OK, "known-finding")})
    samples = [dict(oid=o["oid"], construct=o["construct"], rule=o["rule"], verdict=o["status"], detail=o["detail"][:300])
               for o in obs if o["nontrivial"]][:: max(1, len(obs) // 8)][:10]
    if not samples:
        samples = [dict(oid=o["oid"], construct=o["construct"], rule=o["rule"], verdict=o["status"]) for o in obs[:3]]
    level = spec.get("level", "other")
    all_discharged = not (viol or und or err or floor_fail)  # a listed known finding is a decided obligation (reported, not hidden)
    if level == "proof" and not all_discharged:
        level = "other"
    cov = dict(
        # obligations refuted by a defect that is listed in known_findings.txt are decided the other way: they are
        # reported (KNOWN-FINDING line, refuted_listed) and are not part of the proof count
        obligations=len(obs) - n_known,
        discharged=n_ok,
        refuted_listed=n_known,
        undecided=len(und),
        violations=len(viol),
        known_findings=len(knownhits),
        analysis_errors=len(err),
        evaluations=len(obs),
        distinct_nontrivial=distinct,
        rule=spec.get("rule", ""),
        samples=samples,
        checker_cmd="python3-vt -m fverif check %s --tier %s" % (pid, tier),
        trusted_base=spec.get("trusted_base", []),
        explanation=spec.get("explanation", "") + (
            " | %d obligation(s) of this run are REFUTED by a recorded defect (known_findings.txt; printed as KNOWN-FINDING):"
            " they are excluded from obligations/discharged and counted in refuted_listed; the property does not hold for"
            " those constructs." % n_known if n_known else ""),
        exhaustive=bool(spec.get("exhaustive", False)),
        tasks=len(tasks),
        source_digest=digest,
        source_files_in_tree=nfiles,
        repo=REPO,
        not_decided=spec.get("not_decided", []),
        per_obligation_counts=_count_by(obs),
    )
    for k, v in info.items():
        if k not in cov:
            cov[k] = v if not isinstance(v, list) or len(v) <= 400 else v[:400] + ["... (%d)" % len(v)]
    ev = dict(
        property_id=pid,
        tier=tier,
        seed=int(seed),
        level=level,
        coverage=cov,
        assumptions=spec.get("assumptions", []),
        wall_s=round(wall, 2),
        violations=len(viol),
    )
    os.makedirs(os.path.dirname(evidence_path), exist_ok=True)
    with open(evidence_path, "w") as f:
        json.dump(ev, f, indent=1, default=str)
    # ---- report
    print("property=%s tier=%s tasks=%d obligations=%d discharged=%d undecided=%d violations=%d known=%d wall=%.1fs"
          % (pid, tier, len(tasks), len(obs), n_ok, len(und), len(viol), len(knownhits), wall))
    for key, text in sorted(set(knownhits)):
        print("KNOWN-FINDING: property=%s %s :: %s" % (pid, key, text))
    code = 0
    if err or und or floor_fail:
        for o in err[:10]:
            print("ANALYSIS-ERROR property=%s task=%s reason=%s" % (pid, o["construct"], o["detail"][:1200]))
        for o in und[:20]:
            print("ANALYSIS-ERROR property=%s obligation=%s construct=%s reason=%s" % (pid, o["oid"], o["construct"], o["detail"][:400]))
        for m in floor_fail:
            print("ANALYSIS-ERROR property=%s reason=floor %s" % (pid, m))
        code = 2
    if viol:
        rp = os.environ.get("FVERIF_REPLAY_DIR") or os.path.join(VERIF, "replay")
        os.makedirs(rp, exist_ok=True)
        path = os.path.join(rp, "%s.json" % pid)
        with open(path, "w") as f:
            json.dump(dict(property=pid, tier=tier, violations=viol), f, indent=1, default=str)
        for o in viol[:25]:
            print("  violated %s %s -- %s :: %s" % (o["oid"], o["construct"], o["rule"], o["detail"][:400]))
        print("VIOLATION property=%s replay=%s" % (pid, path))
        code = 1
    return code


def _count_by(obs):
    d = {}
    for o in obs:
        k = o["oid"].split(".")[0] if "." in o["oid"] else o["oid"]
        e = d.setdefault(k, dict(total=0, ok=0))
        e["total"] += 1
        e["ok"] += o["status"] == OK
    return d
