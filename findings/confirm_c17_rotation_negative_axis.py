"""C17.O6 / C16: rotation_matrix(dim=3, axis=-1 / -2) is singular (the rotation block is overwritten), Mesh.rotate(axis=-1) collapses a
mesh to zero volume.  Run with felupe on sys.path (before / after the fix)."""
import numpy as np
import felupe as fem

ok = True
for axis in (-1, -2, -3):
    try:
        R = fem.math.rotation_matrix(30, dim=3, axis=axis)
    except IndexError as e:
        print("axis", axis, "raises", e)
        ok = False
        continue
    same = np.allclose(R, fem.math.rotation_matrix(30, dim=3, axis=axis + 3))
    print("axis", axis, "det", round(np.linalg.det(R), 6), "equals axis %d:" % (axis + 3), same)
    ok = ok and same
mesh = fem.Cube(n=3).rotate(30, axis=-1)
vol = fem.RegionHexahedron(mesh).dV.sum()
print("volume of the rotated unit cube", vol)
ok = ok and abs(vol - 1) < 1e-12
print("OK" if ok else "DEFECT")
raise SystemExit(0 if ok else 1)
