"""Scripted abstract runs of the solver stack (C07, C15, C18, C20): felupe's Newton loop, Step.generate and
Job.evaluate are evaluated from source on symbolic data; item assembly, the linear solver and the outcome
of every convergence test are supplied by the scenario (an order oracle scripted by the checker).  Every
action is appended to an event log that the rules inspect."""

import numpy as np

from . import ring, npmodel, micro
from .ring import P, sym, ZERO, ONE
from .common import new_interp, symarray


class Namespace:
    pass


class FakeItem:
    """an item with symbolic vector / matrix; records every call"""

    def __init__(self, log, name, field, n, multiplier=None, has_state=True):
        self.log = log
        self.name = name
        self.field = field
        self.n = n
        self.calls = 0
        self.assemble = Namespace()
        self.assemble.vector = self.vector
        self.assemble.matrix = self.matrix
        self.assemble.multiplier = multiplier
        self.results = Namespace()
        self.results.statevars = ("committed", name, 0)
        self.results._statevars = None
        self.results.force = None
        self.results.update_statevars = self.update_statevars
        self.value = None
        self.updates = []

    def vector(self, field=None, parallel=False, **kw):
        self.calls += 1
        tag = "%s.r%d" % (self.name, self.calls)
        fld = field if field is not None else self.field
        vals = fld.attrs["fields"][0].attrs["values"]
        self.log.append(("vector", self.name, self.calls, id(vals), vals))
        self.results._statevars = ("trial", self.name, self.calls)
        r = npmodel.AbstractSparse(symarray(tag, (self.n, 1)))
        self.results.force = r
        return r

    def matrix(self, field=None, parallel=False, **kw):
        tag = "%s.K%d" % (self.name, self.calls)
        self.log.append(("matrix", self.name, self.calls))
        return npmodel.AbstractSparse(symarray(tag, (self.n, self.n)))

    def update_statevars(self):
        self.log.append(("commit", self.name, self.results._statevars))
        if self.results._statevars is not None:
            self.results.statevars = self.results._statevars

    def update(self, value):
        self.value = value
        self.updates.append(value)
        self.log.append(("ramp", self.name, value))


class ScriptedSolver:
    def __init__(self, log):
        self.log = log
        self.n = 0

    def __call__(self, K, rhs, **kw):
        self.n += 1
        Kd = micro.dense(K)
        rd = npmodel.to_obj(np.asarray(rhs)).reshape(-1)
        self.log.append(("solve", self.n, Kd.copy(), rd.copy()))
        return symarray("dx%d" % self.n, (rd.shape[0],))


class ConvergenceScript:
    """order oracle answering the tolerance comparisons of tools._newton.check from a scripted list"""

    def __init__(self, outcomes):
        self.outcomes = list(outcomes)
        self.asked = 0

    def __call__(self, a, b, op):
        # the only symbolic order comparison in check() is  fnorm < ftol
        if op == "<":
            if self.asked >= len(self.outcomes):
                raise ring.Undecided("convergence script exhausted")
            r = self.outcomes[self.asked]
            self.asked += 1
            return bool(r)
        return None


def make_problem(it, nfields=1, d=2):
    """container on the micro-instance with symbolic values; prescribed / free unknowns; symbolic prescribed values"""
    from .props.c02 import regions
    ra, rb = regions(d)
    kinds = [("Field", d, 0)] + [("Field", 1, 1)] * (nfields - 1)
    fields = micro.make_fields(it, kinds, ra, rb)
    it.setattr(fields[0], "values", symarray("U", (ra.mesh.npoints, d)))
    for k in range(1, nfields):
        it.setattr(fields[k], "values", symarray("V%d" % k, (rb.mesh.npoints, 1)))
    fc = micro.container(it, fields)
    n = ra.mesh.npoints * d + (nfields - 1) * rb.mesh.npoints
    dof0 = np.array([2, 3, 6])
    dof1 = np.array([i for i in range(n) if i not in (2, 3, 6)])
    ext0 = symarray("ext", (3,))
    return fc, n, dof0, dof1, ext0, (ra, rb)


def flat_values(it, fc):
    out = []
    for f in fc.attrs["fields"]:
        out.extend(npmodel.to_obj(f.attrs["values"]).reshape(-1).tolist())
    return out
