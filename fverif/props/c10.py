"""C10 -- reduced, condensed and fast-path formulations equal their full counterparts (DESIGN.md section 3, C10)."""

from fractions import Fraction

import numpy as np

from .. import ring, npmodel, micro
from ..ring import P, sym, diff, is_zero, ZERO, ONE
from ..common import new_interp, symarray, finish_info, method_where
from .c01 import setup_fields
from .c02 import regions, diff_dense
from .c03 import OpaqueHyper
from .c17 import leibniz, cofactor

SPEC = dict(
    level="proof",
    rule="on the symbolic micro-instance (arbitrary hyperelastic energy W as an opaque function atom): O1 the plane-strain body's nodal "
    "forces are d/dU of sum W(F3(U)) dV with F3 = pad(F2) + e3 (x) e3, i.e. the unit-thickness 3D slab with the out-of-plane displacement "
    "suppressed; O2 the axisymmetric body's nodal forces are d/dU of sum W(F(U)) 2 pi R dA with F33 = 1 + u_r / R; O3 the condensed "
    "nearly-incompressible body: its residual equals the displacement residual of the explicit three-field (u, p, J) formulation with "
    "cell-wise constant p, J after substituting the solution of the p- and J-equations, those two residuals vanish identically under "
    "that substitution, and the state update in _extract is J <- (h : du + v)/V, p <- bulk (J - 1) (the exact Newton update of the two "
    "cell-wise equations); O4 a uniform region assembles the same vector and matrix as the general region on a grid of identical cells.",
    trusted_base=["C01 / C02 / C03 (matrix = derivative of the vector; assembly; materials)", "numpy object-array semantics; scipy.sparse summaries"],
    explanation="algebraic value numbering; energy functional differentiated by the ring's total derivative",
    exhaustive=True,
    not_decided=["convergence of the reduced and the full model to equal numbers (iteration / solver accuracy)", "revolved-3D limits of axisymmetric models"],
    assumptions=["real arithmetic", "generic point"],
)

FLOORS = {}


def tasks(tier):
    return [
        ("plane strain energy", "run_energy", dict(kind="PlaneStrain")),
        ("axisymmetric energy", "run_energy", dict(kind="Axisymmetric")),
        ("3d energy", "run_energy", dict(kind="Field3")),
        ("condensed vs three-field", "run_condensed", dict(kind="PlaneStrain")),
        ("condensed vs three-field (axisymmetric)", "run_condensed", dict(kind="Axisymmetric")),
        ("condensed update", "run_update", {}),
        ("uniform region", "run_uniform", {}),
        ("dual regions of mixed fields", "run_dual_table", {}),
    ]


def deformation_gradient(ra, U, kind, q, c):
    """F at (q, c) from its definition (3x3 for the padded kinds)"""
    d = ra.mesh.dim
    cells = ra.mesh.cells
    na = cells.shape[1]
    n = 3 if kind in ("PlaneStrain", "Axisymmetric", "Field3") else d
    F = np.empty((n, n), dtype=object)
    F[...] = ZERO
    for i in range(n):
        F[i, i] = ONE
    for i in range(d):
        for J in range(d):
            F[i, J] = F[i, J] + sum((U[cells[c, a], i] * ra.dhdX[a, J, q, c] for a in range(na)), ZERO)
    if kind == "Axisymmetric":
        R = sum((ra.mesh.points[cells[c, a], 1] * ra.h[a, q, 0] for a in range(na)), ZERO)
        ur = sum((U[cells[c, a], 1] * ra.h[a, q, 0] for a in range(na)), ZERO)
        F[2, 2] = ONE + ur * ring.inv(R)
    return F


def weight(ra, kind, q, c):
    w = ra.dV[q, c]
    if kind == "Axisymmetric":
        cells = ra.mesh.cells
        R = sum((ra.mesh.points[cells[c, a], 1] * ra.h[a, q, 0] for a in range(cells.shape[1])), ZERO)
        w = w * 2 * ring.pi() * R
    return w


def run_energy(col, kind):
    it = new_interp()
    fc, unknowns, (ra, rb), d, tdim = setup_fields(it, kind)
    umat = OpaqueHyper("Wm", dim=tdim)
    cls = it.get("felupe.mechanics._solidbody:SolidBody")
    body = it.call(cls, [], dict(umat=umat, field=fc))
    r = micro.dense(it.call(it.getattr(it.getattr(body, "assemble"), "vector"), [fc], {}))
    U = it.getattr(fc.attrs["fields"][0], "values")
    Pi = ZERO
    for q in range(ra.dV.shape[0]):
        for c in range(ra.mesh.ncells):
            F = deformation_gradient(ra, U, kind, q, c)
            W = ring.ofun("Wm|", [F[i, j] for i in range(tdim) for j in range(tdim)])
            Pi = Pi + W * weight(ra, kind, q, c)
    bad = []
    for I, x in enumerate(unknowns):
        if not is_zero(ring.cancel(P(r[I, 0])) - diff(Pi, x)):
            bad.append(I)
    rule = {
        "PlaneStrain": "plane-strain nodal forces == d/dU of sum W(pad(F2) + e3 (x) e3) dV (unit-thickness 3D slab, out-of-plane displacement suppressed)",
        "Axisymmetric": "axisymmetric nodal forces == d/dU of sum W(F) 2 pi R dA with F33 = 1 + u_r/R (energy of the revolved body)",
        "Field3": "3D nodal forces == d/dU of sum W(F) dV",
    }[kind]
    col.add("C10.O%d" % {"PlaneStrain": 1, "Axisymmetric": 2, "Field3": 1}[kind], "SolidBody[%s] forces from the energy" % kind, rule, not bad,
            "%s: rows %s" % (method_where(cls, "_vector"), bad))
    finish_info(col, it)


def run_condensed(col, kind):
    it = new_interp()
    bulk = sym("bulk", True)
    # --- condensed body
    fc, unknowns, (ra, rb), d, tdim = setup_fields(it, kind)
    umat = OpaqueHyper("Wm", dim=3)
    cls = it.get("felupe.mechanics._solidbody_incompressible:SolidBodyNearlyIncompressible")
    body = it.call(cls, [], dict(umat=umat, field=fc, bulk=bulk))
    rc = micro.dense(it.call(it.getattr(it.getattr(body, "assemble"), "vector"), [fc], {}))
    st = it.getattr(it.getattr(body, "results"), "state")
    p_c, J_c = it.getattr(st, "p"), it.getattr(st, "J")
    U = it.getattr(fc.attrs["fields"][0], "values")
    # --- explicit three-field body with cell-wise constant p, J (dual basis == 1)
    it2 = new_interp()
    fc3, unk3, (ra3, rb3), _, _ = setup_fields(it2, kind, mixed=2)
    rb3.h[...] = ONE
    umat3 = it2.call(it2.get("felupe.constitution._mixed:NearlyIncompressible"), [], dict(material=OpaqueHyper("Wm", dim=3), bulk=bulk))
    body3 = it2.call(it2.get("felupe.mechanics._solidbody:SolidBody"), [], dict(umat=umat3, field=fc3))
    r3 = micro.dense(it2.call(it2.getattr(it2.getattr(body3, "assemble"), "vector"), [fc3], {}))
    nu = ra.mesh.npoints * d
    ncell = ra.mesh.ncells
    psym = [unk3[nu + c] for c in range(ncell)]
    Jsym = [unk3[nu + ncell + c] for c in range(ncell)]
    # solution of the cell-wise equations: J = v / V, p = bulk (J - 1)
    v = []
    V = []
    for c in range(ncell):
        vc, Vc = ZERO, ZERO
        for q in range(ra.dV.shape[0]):
            F = deformation_gradient(ra, U, kind, q, c)
            vc = vc + leibniz(F) * weight(ra, kind, q, c)
            Vc = Vc + weight(ra, kind, q, c)
        v.append(vc)
        V.append(Vc)
    sol = {}
    for c in range(ncell):
        Jv = v[c] * ring.inv(V[c])
        sol[Jsym[c]] = Jv
        sol[psym[c]] = bulk * (Jv - ONE)
    w = method_where(cls, "_vector")
    bad = [c for c in range(ncell) if not is_zero(P(J_c[c]) - sol[Jsym[c]]) or not is_zero(P(p_c[c]) - sol[psym[c]])]
    col.add("C10.O3", "condensed state [%s]" % kind, "settled state: J == v/V and p == bulk (J - 1) per cell (2 pi R weighted volumes when axisymmetric)", not bad, "%s: cells %s" % (w, bad))
    bad_u, bad_p, bad_J = [], [], []
    for I in range(nu):
        if not is_zero(ring.subs(ring.cancel(P(r3[I, 0])), sol) - ring.cancel(P(rc[I, 0]))):
            bad_u.append(I)
    for c in range(ncell):
        if not is_zero(ring.subs(P(r3[nu + c, 0]), sol)):
            bad_p.append(c)
        if not is_zero(ring.subs(P(r3[nu + ncell + c, 0]), sol)):
            bad_J.append(c)
    col.add("C10.O3", "condensed vs three-field residual [%s]" % kind,
            "condensed nodal forces == displacement residual of the (u, p, J) formulation with cell-wise constant p, J at the solution of the p- and J-equations", not bad_u,
            "%s: rows %s" % (w, bad_u))
    col.add("C10.O3", "three-field p/J equations [%s]" % kind, "the p- and J-residuals of the three-field formulation vanish identically for J = v/V, p = bulk (J - 1)",
            not bad_p and not bad_J, "p rows %s J rows %s" % (bad_p, bad_J))
    finish_info(col, it)


def run_update(col):
    """_extract with a changed displacement field: linearised update of the condensed variables"""
    it = new_interp()
    kind = "PlaneStrain"
    bulk = sym("bulk", True)
    fc, unknowns, (ra, rb), d, tdim = setup_fields(it, kind)
    umat = OpaqueHyper("Wm", dim=3)
    cls = it.get("felupe.mechanics._solidbody_incompressible:SolidBodyNearlyIncompressible")
    f0 = fc.attrs["fields"][0]
    U0 = it.getattr(f0, "values")
    body = it.call(cls, [], dict(umat=umat, field=fc, bulk=bulk))
    # a new iterate: the field now carries other values (fresh array, as FieldContainer.__iadd__ / link do)
    U1 = symarray("V", U0.shape)
    st = it.getattr(it.getattr(body, "results"), "state")
    # the state remembers the configuration of the last extract (its own copy of u must not alias the new values)
    it.setattr(st, "u", U0.copy())
    it.setattr(f0, "values", U1)
    it.call_method(body, "_extract", [fc])
    Jn, pn = it.getattr(st, "J"), it.getattr(st, "p")
    bad = []
    for c in range(ra.mesh.ncells):
        vc, Vc, hdu = ZERO, ZERO, ZERO
        for q in range(ra.dV.shape[0]):
            F = deformation_gradient(ra, U0, kind, q, c)
            wq = weight(ra, kind, q, c)
            vc = vc + leibniz(F) * wq
            Vc = Vc + wq
            for a, n in enumerate(ra.mesh.cells[c]):
                for i in range(d):
                    for J in range(d):
                        hdu = hdu + cofactor(F, i, J) * ra.dhdX[a, J, q, c] * wq * (U1[n, i] - U0[n, i])
        Jw = (hdu + vc) * ring.inv(Vc)
        if not is_zero(P(Jn[c]) - Jw) or not is_zero(P(pn[c]) - bulk * (Jw - ONE)):
            bad.append(c)
    col.add("C10.O3", "SolidBodyNearlyIncompressible._extract update", "J <- (h : (u - u_old) + v)/V with h, v of the previous configuration; p <- bulk (J - 1)", not bad,
            "%s: cells %s" % (method_where(cls, "_extract"), bad))
    ok_u = all(is_zero(P(a) - P(b)) for a, b in zip(it.getattr(st, "u").reshape(-1), U1.reshape(-1)))
    col.add("C10.O3", "SolidBodyNearlyIncompressible._extract remembers u", "the state stores the new displacements and deformation gradient for the next update", ok_u)
    finish_info(col, it)


def run_uniform(col):
    """a uniform region on identical cells gives the same vector and matrix as the general region"""
    res = {}
    for uniform in (False, True):
        it = new_interp()
        d = 2
        ra, rb = regions(d, uniform=uniform)
        if not uniform:
            # identical cells: the general region carries the same basis gradients / volumes in every cell
            for c in range(1, ra.dhdX.shape[-1]):
                ra.dhdX[..., c] = ra.dhdX[..., 0]
                ra.dV[..., c] = ra.dV[..., 0]
        f = micro.make_fields(it, [("Field", d, 0)], ra, rb)
        fc = micro.container(it, f)
        # a homogeneous state (what a uniform grid evaluation sees): the same local values in every cell is not required;
        # the vector/matrix are compared for an integrand evaluated per cell by the same material
        umat = OpaqueHyper("Wm", dim=2)
        body = it.call(it.get("felupe.mechanics._solidbody:SolidBody"), [], dict(umat=umat, field=fc))
        asm = it.getattr(body, "assemble")
        res[uniform] = (micro.dense(it.call(it.getattr(asm, "vector"), [fc], {})), micro.dense(it.call(it.getattr(asm, "matrix"), [fc], {})))
        finish_info(col, it)
    bad = diff_dense(res[True][0], res[False][0]) + diff_dense(res[True][1], res[False][1])
    col.add("C10.O4", "uniform vs general region", "on a grid of identical cells at the undeformed state the uniform path (first cell evaluated, values broadcast) assembles the same vector and matrix", not bad, "; ".join(bad))


# The pairing (region -> region of the dual fields) that FieldsMixed / FieldDual use to build the explicit (u, p, J) formulation.  It is a design
# table without a second source in the library; following the guidance for inferred rule instances it is confirmed by reading and frozen here,
# one line of reason per entry.  The equality with the condensed nearly-incompressible body (one constant p, J per cell) is a statement about
# the families whose dual region is cell-wise constant.
DUAL_TABLE = {
    "RegionHexahedron": ("RegionConstantHexahedron", 1, "Q1/P0: one constant p, J per cell (the formulation the condensed body is compared with)"),
    "RegionQuad": ("RegionConstantQuad", 1, "Q1/P0, plane and axisymmetric"),
    "RegionQuadraticQuad": ("RegionConstantQuad", 1, "serendipity Q2/P0: constant per cell"),
    "RegionBiQuadraticQuad": ("RegionQuad", 4, "Q2/P1 (discontinuous bilinear): four dual points per cell"),
    "RegionQuadraticHexahedron": ("RegionConstantHexahedron", 1, "serendipity Q2/P0: constant per cell"),
    "RegionTriQuadraticHexahedron": ("RegionHexahedron", 8, "Q2/P1 (discontinuous trilinear): eight dual points per cell"),
    "RegionQuadraticTetra": ("RegionTetra", 4, "Taylor-Hood P2/P1, continuous (disconnect=False)"),
    "RegionQuadraticTriangle": ("RegionTriangle", 3, "Taylor-Hood P2/P1, continuous (disconnect=False)"),
    "RegionTetraMINI": ("RegionTetra", 4, "MINI: linear continuous pressure"),
    "RegionTriangleMINI": ("RegionTriangle", 3, "MINI: linear continuous pressure"),
    "RegionLagrange": ("RegionLagrange", None, "one order lower (order - 1), points per cell order**dim"),
}
CONTINUOUS = {"RegionQuadraticTetra", "RegionQuadraticTriangle", "RegionTetraMINI", "RegionTriangleMINI"}


def run_dual_table(col):
    import ast
    import os
    from ..common import SRC

    path = os.path.join(SRC, "felupe", "field", "_dual.py")
    tree = ast.parse(open(path).read())
    tabs = {}
    for node in ast.walk(tree):
        if isinstance(node, ast.Assign) and len(node.targets) == 1 and isinstance(node.targets[0], ast.Name) and isinstance(node.value, ast.Dict):
            tabs[node.targets[0].id] = node.value
        if isinstance(node, ast.Assign) and isinstance(node.value, ast.Subscript) and isinstance(node.value.value, ast.Dict) and isinstance(node.targets[0], ast.Name):
            tabs[node.targets[0].id] = node.value.value
    need = [k for k in ("region_dual_dict", "points_per_cell", "mesh_kwargs") if k not in tabs]
    if need:
        col.undecided("C10.O4", "field/_dual.py FieldDual.__init__", "anchor", "tables %s not found" % need)
        return

    def name(n):
        return n.id if isinstance(n, ast.Name) else ast.unparse(n)

    dual = {name(k): name(v) for k, v in zip(tabs["region_dual_dict"].keys, tabs["region_dual_dict"].values)}
    ppc = {name(k): (v.value if isinstance(v, ast.Constant) else None) for k, v in zip(tabs["points_per_cell"].keys, tabs["points_per_cell"].values)}
    mk = {name(k): ast.unparse(v) for k, v in zip(tabs["mesh_kwargs"].keys, tabs["mesh_kwargs"].values)}
    col.info["dual_regions"] = dual
    col.add("C10.O4", "FieldDual region table keys", "the table lists exactly the region families confirmed by reading", sorted(dual) == sorted(DUAL_TABLE), "field/_dual.py: %s" % sorted(set(dual) ^ set(DUAL_TABLE)))
    for reg, (want, npts, why) in DUAL_TABLE.items():
        got = dual.get(reg)
        gpp = ppc.get(got)
        cont = "False" in mk.get(reg, "")
        okk = got == want and (npts is None or gpp == npts) and cont == (reg in CONTINUOUS)
        col.add("C10.O4", "FieldDual dual region of %s" % reg, "the dual (p, J) fields of a mixed container live on %s with %s point(s) per cell [%s]; connected dual mesh only for the Taylor-Hood / MINI families" % (want, npts, why),
                okk, "field/_dual.py FieldDual.__init__: %s -> %s with %s points per cell, mesh options %s" % (reg, got, gpp, mk.get(reg)))
    col.info.setdefault("files_consulted", {})[path] = True
