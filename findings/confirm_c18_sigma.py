import numpy as np, felupe as fem
mesh = fem.Cube(n=3); region = fem.RegionHexahedron(mesh); field = fem.FieldContainer([fem.Field(region, dim=3)])
solid = fem.SolidBody(fem.NeoHooke(mu=1, bulk=2), field, density=1.0)
b = fem.dof.symmetry(field[0])
job = fem.FreeVibration([solid], b).evaluate(sigma=0.1, k=4)
print("eigenvalues", job.eigenvalues)
