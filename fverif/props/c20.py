"""C20 -- result and mesh files contain exactly what was computed (structural clauses; DESIGN.md section 3, C20)."""

import itertools

import numpy as np

from .. import ring, npmodel, micro, scenario
from ..ring import P, sym, is_zero, ZERO, ONE
from ..common import new_interp, symarray, finish_info, method_where
from ..interp import InterpRaise
from ..npmodel import ExtModule

SPEC = dict(
    level="other",
    rule="meshio is summarised by a recorder (Mesh(points, cells, point_data, cell_data).write(name) stores what it is given; read(name) "
    "returns it with cells as a list of blocks; xdmf.TimeSeriesWriter records write_points_cells / write_data). O1/O2: Job.evaluate and "
    "Step.generate are evaluated from source (lazy generators, Newton solver replaced by a scripted stub) for every success pattern of "
    "2 steps x 2 substeps: per yielded substep exactly one frame is written, after the callback, with time = number of frames written "
    "before, whose point / cell data callbacks received field=substep.x and substep=substep; nothing is written for a substep that is not "
    "yielded; the default point data is the first field's displacement padded to 3 columns; the default per-cell deformation gradient is "
    "the mean over the quadrature axis. O3: tools.save hands the displacement values and the first offset block of the forces, reshaped, to "
    "the file unchanged. O4: Mesh.write pads points to 3 columns and passes cells and cell type through; read cuts to `dim` columns and passes "
    "cell data and type through (all 12 cell types of the cell-type table). O5: after MeshContainer construction / append / "
    "merge_duplicate_points every contained mesh's points is the container's single array object.",
    trusted_base=["meshio writes and re-reads what it is given (bytes on disk are meshio's behaviour at run time)"],
    explanation="the structural clauses (what is handed to / taken from meshio, once per yielded substep, in order) are decided by evaluating the "
    "job / mesh code from source against a recording summary of meshio; byte-level round-trip fidelity is not decidable statically",
    exhaustive=True,
    not_decided=["bytes on disk / format fidelity of vtk, vtu, xdmf (meshio at run time)"],
    assumptions=["meshio round-trips arrays unchanged"],
)

FLOORS = {}


class Store:
    def __init__(self):
        self.files = {}
        self.events = []


def meshio_summary(store):
    class MMesh:
        def __init__(self, points=None, cells=None, point_data=None, cell_data=None, **kw):
            self.points = points
            self.cells_arg = cells
            self.point_data = point_data
            self.cell_data = cell_data
            self.kw = kw
            if isinstance(cells, dict):
                self.cells = [CellBlock(k, v) for k, v in cells.items()]
            else:
                self.cells = [c if isinstance(c, CellBlock) else CellBlock(c[0], c[1]) for c in cells]

        def write(self, filename, **kw):
            store.files[filename] = self
            store.events.append(("write_mesh", filename))

    class CellBlock:
        def __init__(self, type, data):
            self.type = type
            self.data = data

    def read(filename=None, file_format=None):
        return store.files[filename]

    class TimeSeriesWriter:
        def __init__(self, filename):
            self.filename = filename

        def __enter__(self):
            store.events.append(("open", self.filename))
            return self

        def __exit__(self, *a):
            store.events.append(("close", self.filename))

        def write_points_cells(self, points, cells):
            store.events.append(("points_cells", points, cells))

        def write_data(self, time, point_data=None, cell_data=None):
            store.events.append(("frame", time, point_data, cell_data))

    xdmf = ExtModule("meshio.xdmf", dict(TimeSeriesWriter=TimeSeriesWriter))
    m = ExtModule("meshio", dict(Mesh=MMesh, CellBlock=CellBlock, read=read, xdmf=xdmf))
    ctx = ExtModule("contextlib", dict(nullcontext=lambda *a, **k: npmodel.NullContext()))
    return {"meshio": m, "meshio.xdmf": xdmf, "contextlib": ctx}


def tasks(tier):
    ts = []
    for pat in itertools.product((True, False), repeat=4):
        ts.append(("job %s" % "".join("T" if p else "F" for p in pat), "run_job", dict(pattern=list(pat))))
    ts.append(("job without file", "run_job", dict(pattern=[True, True, True, True], filename=None)))
    ts.append(("job mesh source", "run_job_mesh", {}))
    ts.append(("job default data flags", "run_job_defaults", {}))
    ts.append(("default data", "run_default_data", {}))
    ts.append(("tools.save", "run_save", {}))
    ts.append(("mesh write/read", "run_mesh_io", {}))
    ts.append(("mesh container", "run_container", {}))
    # the default cell data "Logarithmic Strain" is written in strain-Voigt storage (math.tovoigt(strain=True)), for 3x3 tensors and for the
    # 2x2 tensors of a plain two-dimensional field alike
    ts.append(("Voigt storage of the written strains", "run_included", dict(modname="c17", fname="run_group", kwargs=dict(group="unary", tier=tier), oid="C20.O6", select_oid="C17.O2",
                                                                          why="the cell data of every frame equal the documented per-cell quantities: the logarithmic strain in Voigt storage with doubled shear components, in 2d as in 3d")))
    return ts


def run_job(col, pattern, filename="result.xdmf"):
    it = new_interp()
    it.lazy_generators = True
    store = Store()
    it.externals.update(meshio_summary(store))
    log = store.events
    fc, n, dof0, dof1, ext0, regs = scenario.make_problem(it)

    class Res:
        pass

    calls = []

    def newton(interp, fn, args, kwargs):
        k = len(calls)
        calls.append(kwargs)
        r = Res()
        r.success = pattern[k]
        # a new converged field per substep (as x + dx creates)
        r.x = interp.call_method(fc, "copy", [])
        interp.setattr(r.x.attrs["fields"][0], "values", symarray("U%d" % k, (4, 2)))
        r.fnorms = [k]
        r.k = k
        log.append(("newton", k))
        return r

    it.call_hooks[("felupe.tools._newton", "newtonrhapson")] = newton
    it.call_hooks[("felupe.dof._tools", "partition")] = lambda interp, fn, args, kwargs: (dof0, dof1)
    it.call_hooks[("felupe.dof._tools", "apply")] = lambda interp, fn, args, kwargs: ext0
    Step = it.get("felupe.mechanics._step:Step")
    Job = it.get("felupe.mechanics._job:Job")
    itlog = []
    itemA = scenario.FakeItem(itlog, "A", fc, n)
    steps = [it.call(Step, [], dict(items=[itemA], ramp={itemA: [sym("s%d%d" % (j, i)) for i in range(2)]}, boundaries={})) for j in range(2)]

    def callback(stepnumber, substepnumber, substep, **kw):
        log.append(("callback", stepnumber, substepnumber, substep.k))

    seen = []

    def pdata(field=None, substep=None, **kw):
        seen.append(("p", field, substep))
        return ("PD", substep.k)

    def cdata(field=None, substep=None, **kw):
        seen.append(("c", field, substep))
        return [("CD", substep.k)]

    class MeshStub:
        points = "POINTS"
        cells = "CELLS"

    job = it.call(Job, [steps], dict(callback=callback))
    kw = dict(verbose=False)
    if filename is not None:
        kw.update(filename=filename, mesh=MeshStub(), point_data={"my": pdata}, cell_data={"mc": cdata}, point_data_default=False, cell_data_default=False)
    it.call_method(job, "evaluate", [], kw)
    name = "".join("T" if p else "F" for p in pattern) + ("" if filename else " (no file)")
    # expected: step j processes substeps until the first failure; the next step starts afterwards
    expected = []
    k = 0
    for j in range(2):
        for i in range(2):
            if k >= len(pattern):
                break
            ok_ = pattern[k]
            if ok_:
                expected.append((j, i, k))
            k += 1
            if not ok_:
                break
    frames = [e for e in log if e[0] == "frame"]
    cbs = [e for e in log if e[0] == "callback"]
    col.add("C20.O1", "job %s callbacks" % name, "the callback sees exactly the converged substeps, in order, with step / substep numbers", [(e[1], e[2], e[3]) for e in cbs] == expected,
            "%s vs %s" % ([(e[1], e[2], e[3]) for e in cbs], expected))
    if filename is None:
        col.add("C20.O1", "job %s writes nothing" % name, "without a file name nothing is handed to a writer", not frames and not [e for e in log if e[0] in ("open", "points_cells")])
        tt = it.getattr(job, "timetrack")
        col.add("C20.O1", "job %s time track" % name, "the frame counter advances once per converged substep", list(tt) == list(range(len(expected))), str(tt))
        finish_info(col, it)
        return
    col.add("C20.O1", "job %s frames" % name, "one time frame per converged substep with time 0, 1, 2, ... and none for a substep that did not converge",
            [e[1] for e in frames] == list(range(len(expected))), "times %s for %d converged substeps" % ([e[1] for e in frames], len(expected)))
    # frame content: callbacks' return values for that substep; callbacks received field = substep.x, substep = substep
    okc = all(e[2] == {"my": ("PD", ex[2])} and e[3] == {"mc": [("CD", ex[2])]} for e, ex in zip(frames, expected))
    okargs = all(s[1] is s[2].x for s in seen)
    col.add("C20.O2", "job %s frame data" % name, "each frame holds the data of its own substep; data callbacks receive field=substep.x and substep=substep", okc and okargs and len(seen) == 2 * len(expected))
    # ordering: callback of substep k precedes its frame, which precedes the next Newton solve
    order = [e[0] + (":%s" % (e[3] if e[0] == "callback" else e[1])) for e in log if e[0] in ("callback", "frame", "newton")]
    pos = {s: i for i, s in enumerate(order)}
    BIG = 10 ** 9
    oko = all(pos.get("newton:%d" % ex[2], BIG) < pos.get("callback:%d" % ex[2], BIG) < pos.get("frame:%d" % t, -1) for t, ex in enumerate(expected))
    nxt = all(pos.get("frame:%d" % t, BIG) < pos.get("newton:%d" % (ex[2] + 1), BIG + 1) for t, ex in enumerate(expected))
    col.add("C20.O1", "job %s order" % name, "solve -> callback -> frame, and the frame is written before the next substep is solved", oko and nxt, str(order))
    hdr = [e for e in log if e[0] == "points_cells"]
    col.add("C20.O1", "job %s header" % name, "points and cells of the mesh are written once, before the first frame", len(hdr) == 1 and hdr[0][1] == "POINTS" and hdr[0][2] == "CELLS"
            and log.index(hdr[0]) < (log.index(frames[0]) if frames else 10 ** 9))
    finish_info(col, it)


def run_job_mesh(col):
    """which mesh is written to the result file: the given one, else the global field's (x0), else the first item's"""
    for variant in ("x0", "first item", "given mesh", "given mesh and x0"):
        it = new_interp()
        it.lazy_generators = True
        store = Store()
        it.externals.update(meshio_summary(store))
        log = store.events
        fc, n, dof0, dof1, ext0, regs = scenario.make_problem(it)

        class Res:
            pass

        def newton(interp, fn, args, kwargs):
            r = Res()
            r.success = True
            r.x = interp.call_method(fc, "copy", [])
            r.fnorms = [0]
            return r

        it.call_hooks[("felupe.tools._newton", "newtonrhapson")] = newton
        it.call_hooks[("felupe.dof._tools", "partition")] = lambda interp, fn, args, kwargs: (dof0, dof1)
        it.call_hooks[("felupe.dof._tools", "apply")] = lambda interp, fn, args, kwargs: ext0
        Step = it.get("felupe.mechanics._step:Step")
        Job = it.get("felupe.mechanics._job:Job")
        itemA = scenario.FakeItem([], "A", fc, n)

        class MeshIO:
            def __init__(self, tag):
                self.points, self.cells = "POINTS-" + tag, "CELLS-" + tag

        class FMesh:
            def __init__(self, tag):
                self.tag = tag

            def as_meshio(self, **kw):
                return MeshIO(self.tag)

        class FReg:
            def __init__(self, tag):
                self.mesh = FMesh(tag)

        class Glob:
            region = FReg("global")

        class ItemField:
            region = FReg("item")

        itemA.field = ItemField()
        steps = [it.call(Step, [], dict(items=[itemA], ramp={itemA: [sym("s0")]}, boundaries={}))]
        job = it.call(Job, [steps], {})
        kw = dict(verbose=False, filename="r.xdmf", point_data={}, cell_data={}, point_data_default=False, cell_data_default=False)
        if variant in ("x0", "given mesh and x0"):
            kw["x0"] = Glob()
        if variant.startswith("given mesh"):
            # the multi-body workflow: the global field lives on a vertex mesh, the cells to be written are handed over as mesh=
            kw["mesh"] = MeshIO("given")
        try:
            it.call_method(job, "evaluate", [], kw)
        except Exception as e:  # noqa -- the stand-in fields are not usable by the (scripted) solver path beyond the header
            pass
        hdr = [e for e in log if e[0] == "points_cells"]
        want = "given" if variant.startswith("given mesh") else ("global" if variant == "x0" else "item")
        col.add("C20.O1", "job mesh source (%s)" % variant, "the mesh written to the file is the one given as mesh=, else the global field's (x0) when one is given, else the first item's field's",
                len(hdr) == 1 and hdr[0][1] == "POINTS-" + want, "mechanics/_job.py Job.evaluate: header %s" % (hdr[:1],))
        finish_info(col, it)


def run_job_defaults(col):
    """point_data_default / cell_data_default: each switches exactly its own set of documented default quantities"""
    DEF_CELL = {"Principal Values of Logarithmic Strain", "Logarithmic Strain", "Deformation Gradient"}
    for pflag, cflag in itertools.product((True, False), repeat=2):
        it = new_interp()
        it.lazy_generators = True
        store = Store()
        it.externals.update(meshio_summary(store))
        log = store.events
        fc, n, dof0, dof1, ext0, regs = scenario.make_problem(it)

        class Res:
            pass

        def newton(interp, fn, args, kwargs):
            r = Res()
            r.success = True
            r.x = interp.call_method(fc, "copy", [])
            r.fnorms = [0]
            return r

        it.call_hooks[("felupe.tools._newton", "newtonrhapson")] = newton
        it.call_hooks[("felupe.dof._tools", "partition")] = lambda interp, fn, args, kwargs: (dof0, dof1)
        it.call_hooks[("felupe.dof._tools", "apply")] = lambda interp, fn, args, kwargs: ext0
        for fname in ("displacement", "log_strain_principal", "log_strain", "deformation_gradient"):
            it.call_hooks[("felupe.mechanics._job", fname)] = (lambda fname: lambda interp, fn, args, kwargs: "DEFAULT:" + fname)(fname)
        Step = it.get("felupe.mechanics._step:Step")
        Job = it.get("felupe.mechanics._job:Job")
        itemA = scenario.FakeItem([], "A", fc, n)

        class MeshStub:
            points = "POINTS"
            cells = "CELLS"

        steps = [it.call(Step, [], dict(items=[itemA], ramp={itemA: [sym("s0")]}, boundaries={}))]
        job = it.call(Job, [steps], {})
        it.call_method(job, "evaluate", [], dict(verbose=False, filename="r.xdmf", mesh=MeshStub(), point_data_default=pflag, cell_data_default=cflag))
        frames = [e for e in log if e[0] == "frame"]
        okk = len(frames) == 1 and set(frames[0][2]) == ({"Displacement"} if pflag else set()) and set(frames[0][3]) == (DEF_CELL if cflag else set())
        col.add("C20.O2", "job default data point=%s cell=%s" % (pflag, cflag),
                "point_data_default switches the default point data ('Displacement'), cell_data_default the documented default cell quantities -- each its own",
                okk, "mechanics/_job.py Job.evaluate: point keys %s, cell keys %s" % (sorted(frames[0][2]) if frames else None, sorted(frames[0][3]) if frames else None))
        finish_info(col, it)


def run_default_data(col):
    """default point data = displacement of the first field padded to 3 columns; default per-cell deformation gradient = mean over the quadrature axis"""
    it = new_interp()
    fc, n, dof0, dof1, ext0, (ra, rb) = scenario.make_problem(it, nfields=2)
    disp = it.get("felupe.mechanics._job:displacement")
    r = npmodel.to_obj(it.call(disp, [fc], {}))
    U = fc.attrs["fields"][0].attrs["values"]
    okk = r.shape == (4, 3) and all(is_zero(P(r[a, i]) - U[a, i]) for a in range(4) for i in range(2)) and all(not P(r[a, 2]).t for a in range(4))
    col.add("C20.O2", "default point data", "'Displacement' == values of the first field padded with zero columns to 3", okk)
    dg = it.get("felupe.mechanics._job:deformation_gradient")
    res = it.call(dg, [fc], {})
    F = it.call_method(fc.attrs["fields"][0], "extract", [], dict(grad=True, sym=False, add_identity=True))
    got = npmodel.to_obj(res[0])
    nq = F.shape[2]
    bad = [(c, i, j) for c in range(F.shape[3]) for i in range(F.shape[0]) for j in range(F.shape[1])
           if not is_zero(P(got[c, i, j]) - sum((F[i, j, q, c] for q in range(nq)), ZERO) * ring.inv(P(nq)))]
    col.add("C20.O2", "default cell data (deformation gradient)", "per-cell deformation gradient == mean over the quadrature axis, cells first", not bad and got.shape == (F.shape[3], F.shape[0], F.shape[1]), str(bad[:4]))
    finish_info(col, it)


def run_save(col):
    it = new_interp()
    store = Store()
    it.externals.update(meshio_summary(store))
    fc, n, dof0, dof1, ext0, (ra, rb) = scenario.make_problem(it, nfields=2)
    save = it.get("felupe.tools._save:save")
    forces = symarray("R", (n,))
    ra.mesh.cell_type = "quad"
    it.call(save, [ra, fc], dict(forces=forces, filename="out.vtu", cell_data={"cd": ["X"]}))
    m = store.files.get("out.vtu")
    U = fc.attrs["fields"][0].attrs["values"]
    okk = m is not None and m.point_data["Displacements"] is U
    col.add("C20.O3", "tools.save displacements", "the point data 'Displacements' is the first field's value array itself (no arithmetic)", okk)
    rf = npmodel.to_obj(m.point_data["Reaction Force"]) if m is not None else None
    okk = rf is not None and rf.shape == U.shape and all(is_zero(P(rf[a, i]) - forces[2 * a + i]) for a in range(4) for i in range(2))
    col.add("C20.O3", "tools.save reaction forces", "'Reaction Force' is the first offset block of the force vector reshaped like the displacements, unchanged", okk)
    # a later call without forces writes no reaction forces (nothing is kept from an earlier call)
    it.call(save, [ra, fc], dict(filename="second.vtu"))
    m2 = store.files.get("second.vtu")
    col.add("C20.O3", "tools.save second call", "the point data of a call hold the displacements and what that call was given, nothing from an earlier call",
            m2 is not None and sorted(m2.point_data) == ["Displacements"], "tools/_save.py save: point data keys %s" % (sorted(m2.point_data) if m2 is not None else None))
    # the user's own point data: one dictionary handed to two calls (a script that saves every load step with the same extra data)
    mine = {"Mine": "VALUES"}
    it.call(save, [ra, fc], dict(forces=forces, filename="third.vtu", point_data=mine))
    it.call(save, [ra, fc], dict(filename="fourth.vtu", point_data=mine))
    m3, m4 = store.files.get("third.vtu"), store.files.get("fourth.vtu")
    col.add("C20.O3", "tools.save with the caller's point data, twice", "each file holds the displacements, the caller's entries and what that call was given; the second call (no forces) writes no reaction force of the first",
            m3 is not None and m4 is not None and sorted(m3.point_data) == ["Displacements", "Mine", "Reaction Force"] and sorted(m4.point_data) == ["Displacements", "Mine"],
            "tools/_save.py save: point data keys of the second file %s (the caller's dictionary is filled in place and handed in again)" % (sorted(m4.point_data) if m4 is not None else None))
    col.add("C20.O3", "tools.save mesh", "points, cells and cell type of the region's mesh and the given cell data are passed through", m is not None and m.points is ra.mesh.points and m.cells[0].type == "quad"
            and m.cells[0].data is ra.mesh.cells and m.cell_data == {"cd": ["X"]})
    finish_info(col, it)


CELL_TYPES = [("line", 2, 1), ("triangle", 3, 2), ("triangle6", 6, 2), ("tetra", 4, 3), ("tetra10", 10, 3), ("quad", 4, 2), ("quad8", 8, 2), ("quad9", 9, 2),
              ("hexahedron", 8, 3), ("hexahedron20", 20, 3), ("hexahedron27", 27, 3), ("vertex", 1, 2)]


def run_mesh_io(col):
    it = new_interp()
    store = Store()
    it.externals.update(meshio_summary(store))
    Mesh = it.get("felupe.mesh._mesh:Mesh")
    read = it.get("felupe.mesh._read:read")
    for ct, nn, dim in CELL_TYPES:
        pts = symarray("X", (nn + 1, dim))
        cells = np.arange(nn).reshape(1, nn)
        m = it.call(Mesh, [pts, cells, ct], {})
        fn = "mesh_%s.vtk" % ct
        it.call_method(m, "write", [fn])
        w = store.files.get(fn)
        wp = npmodel.to_obj(w.points)
        okw = wp.shape == (nn + 1, 3) and all(is_zero(P(wp[a, i]) - (pts[a, i] if i < dim else ZERO)) for a in range(nn + 1) for i in range(3)) \
            and len(w.cells) == 1 and w.cells[0].type == ct and np.array_equal(npmodel.to_int_array(np.asarray(w.cells[0].data)), cells)
        col.add("C20.O4", "Mesh.write %s" % ct, "points are padded with zero columns to 3, cells and cell type are passed through unchanged", okw)
        mc = it.call(read, [fn], dict(dim=dim))
        m2 = it.getattr(mc, "meshes")[0]
        p2 = npmodel.to_obj(it.getattr(m2, "points"))
        okr = p2.shape == (nn + 1, dim) and all(is_zero(P(p2[a, i]) - pts[a, i]) for a in range(nn + 1) for i in range(dim)) \
            and it.getattr(m2, "cell_type") == ct and np.array_equal(npmodel.to_int_array(np.asarray(it.getattr(m2, "cells"))), cells)
        col.add("C20.O4", "read %s (dim=%d)" % (ct, dim), "reading back with the mesh dimension yields the same points, cells and cell type", okr)
        mc3 = it.call(read, [fn], {})
        p3 = npmodel.to_obj(it.getattr(it.getattr(mc3, "meshes")[0], "points"))
        okz = p3.shape == (nn + 1, 3) and all(is_zero(P(p3[a, i]) - (pts[a, i] if i < dim else ZERO)) for a in range(nn + 1) for i in range(3))
        col.add("C20.O4", "read %s (dim=None)" % ct, "without a dimension the stored (zero-padded) coordinates are returned", okz, nontrivial=False)
    # a file with several cell blocks: cellblock selects exactly that block (0 is a block number, not "all")
    MC = it.get("felupe.mesh._container:MeshContainer")
    ptsq = npmodel.array([[0, 0], [1, 0], [2, 0], [0, 1], [1, 1], [2, 1]], dtype=npmodel.DType("float"))
    qa = it.call(Mesh, [ptsq, np.array([[0, 1, 4, 3]]), "quad"], {})
    tb = it.call(Mesh, [ptsq, np.array([[1, 2, 5], [1, 5, 4]]), "triangle"], {})
    mio = it.call_method(it.call(MC, [[qa, tb]], dict(merge=True)), "as_meshio", [], dict(combined=False))
    it.call_method(mio, "write", ["two_blocks.vtk"])
    for cb, want in ((None, ["quad", "triangle"]), (0, ["quad"]), (1, ["triangle"])):
        def chk(cb=cb, want=want):
            mcr = it.call(read, ["two_blocks.vtk"], dict(cellblock=cb, dim=2))
            ms = it.getattr(mcr, "meshes")
            types = [it.getattr(m, "cell_type") for m in ms]
            return types == want, "mesh/_read.py read: cell types %s, expected %s" % (types, want)
        col.check("C20.O4", "read cellblock=%s" % (cb,), "cellblock=None reads every cell block of the file, an integer exactly that block (block 0 included)", chk)
    finish_info(col, it)


def run_container(col):
    it = new_interp()
    Mesh = it.get("felupe.mesh._mesh:Mesh")
    MC = it.get("felupe.mesh._container:MeshContainer")
    F = npmodel.DType("float")
    pa = npmodel.array([[0, 0], [1, 0], [1, 1], [0, 1]], dtype=F)
    pb = npmodel.array([[1, 0], [2, 0], [2, 1], [1, 1]], dtype=F)
    a = it.call(Mesh, [pa, np.array([[0, 1, 2, 3]]), "quad"], {})
    b = it.call(Mesh, [pb, np.array([[0, 1, 2], [0, 2, 3]]), "triangle"], {})
    for merge in (False, True):
        mc = it.call(MC, [[a, b]], dict(merge=merge))
        meshes = it.getattr(mc, "meshes")
        cp = it.getattr(mc, "points")
        shared = all(it.getattr(m, "points") is cp for m in meshes)
        col.add("C20.O5", "MeshContainer(merge=%s) shared points" % merge, "every contained mesh refers to the container's single point array object", shared and len(meshes) == 2)
        # geometry of every cell corner preserved
        allp = np.vstack([pa, pb])
        cells0 = [np.array([[0, 1, 2, 3]]), np.array([[0, 1, 2], [0, 2, 3]]) + 4]
        bad = []
        cpo = npmodel.to_obj(cp)
        for m, c0 in zip(meshes, cells0):
            cn = npmodel.to_int_array(np.asarray(it.getattr(m, "cells")))
            for c in range(c0.shape[0]):
                for k in range(c0.shape[1]):
                    if cn[c, k] >= cpo.shape[0] or any(not is_zero(P(cpo[cn[c, k], i]) - P(allp[c0[c, k], i])) for i in range(2)):
                        bad.append((c, k))
        # the contained meshes are handed out as Mesh objects: their derived attributes describe the point array they refer to
        stale = [(k, it.getattr(m, "npoints"), int(np.asarray(it.getattr(m, "points")).shape[0])) for k, m in enumerate(meshes) if it.getattr(m, "npoints") != np.asarray(it.getattr(m, "points")).shape[0]]
        col.add("C20.O5", "MeshContainer(merge=%s) consistent meshes" % merge, "every contained mesh's npoints equals the number of rows of the shared point array it refers to", not stale,
                "mesh/_container.py MeshContainer.append: (mesh, npoints, rows) %s" % stale)
        npts = cpo.shape[0]
        col.add("C20.O5", "MeshContainer(merge=%s) cells" % merge, "cell ids are shifted by the number of points appended before (and remapped when merging): every corner keeps its coordinates",
                not bad and npts == (6 if merge else 8), "points %d bad %s" % (npts, bad))
    # merge, then append: the container's point array is the merged one the meshes refer to, and a later append keeps every corner
    pc = npmodel.array([[2, 0], [3, 0], [3, 1], [2, 1]], dtype=F)
    c3 = it.call(Mesh, [pc, np.array([[0, 1, 2, 3]]), "quad"], {})
    mcm = it.call(MC, [[a, b]], dict(merge=True))
    it.call_method(mcm, "append", [c3])
    cpm = it.getattr(mcm, "points")
    okm = all(it.getattr(m, "points") is cpm for m in it.getattr(mcm, "meshes"))
    bad = []
    cpo = npmodel.to_obj(cpm)
    srcs = [(pa, np.array([[0, 1, 2, 3]])), (pb, np.array([[0, 1, 2], [0, 2, 3]])), (pc, np.array([[0, 1, 2, 3]]))]
    for k, (m, (p0, c0)) in enumerate(zip(it.getattr(mcm, "meshes"), srcs)):
        cn = npmodel.to_int_array(np.asarray(it.getattr(m, "cells")))
        for c in range(c0.shape[0]):
            for j in range(c0.shape[1]):
                if cn[c, j] >= cpo.shape[0] or any(not is_zero(P(cpo[cn[c, j], i]) - P(p0[c0[c, j], i])) for i in range(2)):
                    bad.append((k, c, j))
    col.add("C20.O5", "MeshContainer merge then append", "after merging, the container's own point array is the merged array of its meshes; a following append keeps every cell corner of every mesh",
            okm and not bad, "mesh/_container.py merge_duplicate_points / append: shared %s, moved corners (mesh, cell, node) %s" % (okm, bad[:4]))
    # export of a container whose meshes of one cell type are not adjacent (quad, triangle, quad): every cell held in memory is handed to meshio
    store = Store()
    it.externals.update(meshio_summary(store))
    for hist in ("constructor", "append"):
        for combined in (True, False):
            def chk(hist=hist, combined=combined):
                if hist == "constructor":
                    mci = it.call(MC, [[a, b, c3]], {})
                else:
                    mci = it.call(MC, [[a, b]], {})
                    it.call_method(mci, "append", [c3])
                mio = it.call_method(mci, "as_meshio", [], dict(combined=combined))
                held = {}
                for m in it.getattr(mci, "meshes"):
                    cn = npmodel.to_int_array(np.asarray(it.getattr(m, "cells")))
                    held.setdefault(it.getattr(m, "cell_type"), []).extend(tuple(int(x) for x in r) for r in cn)
                got = {}
                for blk in mio.cells:
                    got.setdefault(blk.type, []).extend(tuple(int(x) for x in r) for r in npmodel.to_int_array(np.asarray(blk.data)))
                okp = mio.points is it.getattr(mci, "points") or np.asarray(mio.points).shape == np.asarray(it.getattr(mci, "points")).shape
                return okp and {k: sorted(v) for k, v in held.items()} == {k: sorted(v) for k, v in got.items()}, \
                    "mesh/_container.py MeshContainer.as_meshio(combined=%s): cells held %s, cells exported %s" % (
                        combined, {k: len(v) for k, v in held.items()}, {k: len(v) for k, v in got.items()})
            col.check("C20.O5", "MeshContainer[quad, triangle, quad via %s].as_meshio(combined=%s)" % (hist, combined),
                      "the exported meshio object holds exactly the cells of all contained meshes (per cell type, any order of the meshes)", chk)
    mc = it.call(MC, [[a]], {})
    it.call_method(mc, "append", [b])
    cp = it.getattr(mc, "points")
    col.add("C20.O5", "MeshContainer.append", "after append every mesh (old and new) refers to the container's new point array", all(it.getattr(m, "points") is cp for m in it.getattr(mc, "meshes")) and npmodel.to_obj(cp).shape[0] == 8)
    finish_info(col, it)


def run_included(col, modname, fname, kwargs, oid, why, select_oid=None):
    from ..common import include

    include(col, modname, fname, kwargs, oid, why, select_oid=select_oid)
