import numpy as np, felupe as fem
mesh = fem.Cube(n=3); region = fem.RegionHexahedron(mesh); field = fem.FieldContainer([fem.Field(region, dim=3)])
bounds, loadcase = fem.dof.uniaxial(field, clamped=True, move=0.2)
solid = fem.SolidBody(fem.LinearElastic(E=1, nu=0.3), field)
res = fem.newtonrhapson(items=[solid], **loadcase)          # converged state with moved boundary
print("first solve iterations", res.iterations)
kw = dict(loadcase); kw.pop("ext0")
res2 = fem.newtonrhapson(items=[solid], **kw)                # no prescribed values given: boundaries go back to zero
print("linear problem, ext0=None: iterations", res2.iterations)
assert res2.iterations == 1
