import numpy as np, felupe as fem
import felupe.constitution.tensortrax as mat
umat = mat.Material(mat.models.lagrange.morph, p=[0.039, 0.371, 0.174, 2.41, 0.0094, 6.84, 5.65, 0.244], nstatevars=13)
def ev(F, sv):
    F = F.reshape(3,3,1,1); 
    P, svn = umat.gradient([F, sv])
    return P[:,:,0,0], svn
sv0 = np.zeros((13,1,1))
F1 = np.diag([1.8, 1/np.sqrt(1.8), 1/np.sqrt(1.8)])
P1, sv1 = ev(F1, sv0)
print("step1 skew", np.abs(P1@F1.T-(P1@F1.T).T).max()/np.abs(P1@F1.T).max())
F2 = np.array([[1.6,0.5,0.1],[0.0,0.9,0.3],[0.2,0.0,0.8]]); F2/=np.linalg.det(F2)**(1/3)
P2, sv2 = ev(F2, sv1)
tau=P2@F2.T
print("step2 skew", np.abs(tau-tau.T).max()/np.abs(tau).max())
# objectivity
th=0.7; Q=np.array([[np.cos(th),-np.sin(th),0],[np.sin(th),np.cos(th),0],[0,0,1]])
P2q,_=ev(Q@F2, sv1)
print("objectivity defect", np.abs(P2q-Q@P2).max()/np.abs(P2).max())
