"""High-precision helpers for the quadrature check (C05): Gauss-Legendre rules to 70 digits as
exact rationals, numeric enclosures of ring elements containing roots."""

from decimal import Decimal, getcontext
from fractions import Fraction
import math

import numpy as np

from . import ring
from .ring import Poly, P

PREC = 90
APPROX_ABS_ERR = Fraction(1, 10 ** 70)  # every value returned by leggauss() is within this of the true one
USED = {"leggauss": 0}


def _legendre(n, x):
    p0, p1 = Decimal(1), x
    if n == 0:
        return p0, Decimal(0)
    for k in range(2, n + 1):
        p0, p1 = p1, ((2 * k - 1) * x * p1 - (k - 1) * p0) / k
    dp = n * (x * p1 - p0) / (x * x - 1)
    return p1, dp


def leggauss_decimal(n):
    getcontext().prec = PREC
    xs, ws = [], []
    for i in range(1, n + 1):
        x = Decimal(math.cos(math.pi * (i - 0.25) / (n + 0.5)))
        for _ in range(100):
            p, dp = _legendre(n, x)
            dx = p / dp
            x = x - dx
            if abs(dx) < Decimal(10) ** (-(PREC - 8)):
                break
        p, dp = _legendre(n, x)
        w = 2 / ((1 - x * x) * dp * dp)
        xs.append(x)
        ws.append(w)
    pairs = sorted(zip(xs, ws))
    return [p[0] for p in pairs], [p[1] for p in pairs]


_CACHE = {}


def leggauss(n):
    """summary of numpy.polynomial.legendre.leggauss: the n-point Gauss-Legendre rule (trusted
    statement), as exact rationals within 1e-70 of the true nodes / weights"""
    USED["leggauss"] += 1
    if n not in _CACHE:
        xs, ws = leggauss_decimal(n)
        q = Decimal(10) ** (-75)
        fx = [Fraction(x.quantize(q)) for x in xs]
        fw = [Fraction(w.quantize(q)) for w in ws]
        # exact symmetry (numpy's result is symmetric to the last bit or so; we make the summary symmetric)
        m = len(fx)
        for i in range(m // 2):
            fx[m - 1 - i] = -fx[i]
            fw[m - 1 - i] = fw[i]
        if m % 2:
            fx[m // 2] = Fraction(0)
        _CACHE[n] = (fx, fw)
    fx, fw = _CACHE[n]
    x = np.empty(n, dtype=object)
    w = np.empty(n, dtype=object)
    for i in range(n):
        x[i] = Poly.const(fx[i])
        w[i] = Poly.const(fw[i])
    return x, w


def _dec(fr):
    return Decimal(fr.numerator) / Decimal(fr.denominator)


def approx(p, eps_prefix="eps@"):
    """numeric enclosure (center, radius) of a ring element built from rationals, prime roots,
    pow atoms and 'eps@...' symbols (each in [-1,1]); Fractions"""
    getcontext().prec = PREC
    p = P(p)
    center = Decimal(0)
    radius = Decimal(0)
    for m, c in p.t.items():
        val = _dec(c)
        has_eps = False
        for g, e in m:
            if g < 0:
                val *= Decimal(-g) ** _dec(Fraction(e))
            else:
                inf = ring.G.info[g]
                if inf["kind"] == "sym":
                    if inf["name"].startswith(eps_prefix):
                        has_eps = True
                    else:
                        raise ring.Undecided("numeric value of symbol %s" % inf["name"])
                elif inf["kind"] == "pow":
                    bc, br = approx(inf["arg"], eps_prefix)
                    if br > Fraction(1, 10 ** 70):
                        raise ring.Undecided("root of an uncertain literal")
                    b = _dec(bc)
                    if b <= 0:
                        raise ring.Undecided("power of non-positive base")
                    val *= b ** _dec(Fraction(e))
                else:
                    raise ring.Undecided("numeric value of %s" % inf["fname"])
        if has_eps:
            radius += abs(val)
        else:
            center += val
    q = Decimal(10) ** (-80)
    return Fraction(center.quantize(q)), Fraction(radius.quantize(q)) + Fraction(1, 10 ** 78)
