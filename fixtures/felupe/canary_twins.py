from tensortrax.math import trace
from tensortrax.math.linalg import det


def yeoh_a(C, C10, C20, C30):
    I1 = det(C) ** (-1 / 3) * trace(C)
    return C10 * (I1 - 3) + C20 * (I1 - 3) ** 2 + C30 * (I1 - 3) ** 3


def yeoh_b(C, C10, C20, C30):
    I1 = det(C) ** (-1 / 3) * trace(C)
    return C10 * (I1 - 3) + C20 * (I1 - 3) ** 2 + 2 * C30 * (I1 - 3) ** 3
