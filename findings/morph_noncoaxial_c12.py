import numpy as np, felupe as fem
import felupe.constitution.tensortrax as mt
import felupe.constitution.jax as mj
import jax; jax.config.update("jax_enable_x64", True)
p=[0.039, 0.371, 0.174, 2.41, 0.0094, 6.84, 5.65, 0.244]
ut = mt.Material(mt.models.lagrange.morph, p=p, nstatevars=13)
uj = mj.Material(mj.models.lagrange.morph, p=p, nstatevars=13)
def ev(u, F, sv):
    P, svn = u.gradient([F.reshape(3,3,1,1), sv]); return np.asarray(P)[:,:,0,0], np.asarray(svn)
sv0 = np.zeros((13,1,1))
F1 = np.diag([1.8, 1/np.sqrt(1.8), 1/np.sqrt(1.8)])
F2 = np.array([[1.6,0.5,0.1],[0.0,0.9,0.3],[0.2,0.0,0.8]]); F2/=np.linalg.det(F2)**(1/3)
Pt1, svt = ev(ut, F1, sv0); Pj1, svj = ev(uj, F1, sv0)
print("step 1 (coaxial) rel. diff", np.abs(Pt1-Pj1).max()/np.abs(Pt1).max())
Pt2,_ = ev(ut, F2, svt); Pj2,_ = ev(uj, F2, svt)
print("step 2 (non-coaxial) rel. diff", np.abs(Pt2-Pj2).max()/np.abs(Pt2).max())
tau=Pj2@F2.T; print("jax skew", np.abs(tau-tau.T).max()/np.abs(tau).max())
