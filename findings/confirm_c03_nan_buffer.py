import numpy as np, felupe as fem
mesh = fem.Cube(n=3); region = fem.RegionHexahedron(mesh); field = fem.FieldContainer([fem.Field(region, dim=3)])
solid = fem.SolidBody(fem.NeoHooke(mu=1, bulk=2), field)
K0 = solid.assemble.matrix().toarray()
field[0].values[0, 0] = np.nan          # a diverged iterate
with np.errstate(all="ignore"):
    solid.assemble.matrix()
field[0].values[0, 0] = 0.0             # the field is restored
K1 = solid.assemble.matrix().toarray()
print("finite after restoring the field:", np.isfinite(K1).all(), " max|K1-K0| =", np.nanmax(abs(K1-K0)))
assert np.isfinite(K1).all()
