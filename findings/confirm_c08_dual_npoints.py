"""C08.O7 (C16 via Mesh.dual): mesh.dual(calc_points=True, npoints > needed) pads the spare points in front of the calculated ones while the
cells keep their ids: every cell refers to wrong coordinates.  Run with felupe on sys.path (before / after the fix)."""
import numpy as np
import felupe as fem

mesh = fem.Rectangle(n=3)
dual = mesh.dual(disconnect=True, calc_points=True, npoints=40)
ref = mesh.disconnect()
vol = fem.RegionQuad(dual).dV.sum()
same = np.allclose(dual.points[dual.cells], ref.points[ref.cells])
print("points", dual.points.shape, "area", vol, "(disconnect():", fem.RegionQuad(ref).dV.sum(), ") corner coordinates equal:", same)
ok = same and abs(vol - 1) < 1e-12
print("OK" if ok else "DEFECT")
raise SystemExit(0 if ok else 1)
