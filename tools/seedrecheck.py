#!/usr/bin/env python3
"""Re-run the registered checks against every kept seeded change (/verif/seeded/<name>/patch.diff).

For each change: git -C /repo apply <patch>; run the checks listed in meta.json ("checks" keys); git -C /repo checkout -- .
The outcome is written back to meta.json ("checks", "caught_by") and summarised in /verif/seeded/SUMMARY.json.

  python3 tools/seedrecheck.py [name ...]
"""
import json
import os
import shutil
import subprocess
import sys
import time

VERIF = os.path.dirname(os.path.dirname(os.path.abspath(__file__)))


def sh(cmd, cwd=None, env=None, timeout=3600):
    r = subprocess.run(cmd, shell=True, cwd=cwd, env=env, capture_output=True, text=True, timeout=timeout)
    return r.returncode, r.stdout + r.stderr


def main():
    root = os.path.join(VERIF, "seeded")
    names = sys.argv[1:] or sorted(d for d in os.listdir(root) if os.path.isdir(os.path.join(root, d)))
    summary = {}
    for name in names:
        d = os.path.join(root, name)
        meta = json.load(open(os.path.join(d, "meta.json")))
        checks = list(meta.get("checks", {})) or [meta["property"]]
        rc, out = sh("git -C /repo status --porcelain -- src")
        assert out.strip() == "", "/repo dirty: " + out
        rc, out = sh("git -C /repo apply %s" % os.path.join(d, "patch.diff"))
        if rc != 0:
            # the lines the change touches were altered by a later fix: commit in /repo: the seed has to be re-expressed (not silently skipped)
            summary[name] = dict(property=meta["property"], confirmed=meta.get("confirmed"), caught_by=[], exits={}, apply_failed=out.strip()[:200])
            print(name, "PATCH DOES NOT APPLY", out.strip()[:160])
            continue
        try:
            for c in checks:
                t0 = time.time()
                e = dict(os.environ, FVERIF_EVIDENCE_DIR="/tmp/seed_ev", FVERIF_REPLAY_DIR="/tmp/seed_rp")
                rc, out = sh("timeout 1500 python3-vt -m fverif check %s --tier quick" % c, cwd=VERIF, env=e, timeout=1600)
                viol = [l.strip()[:300] for l in out.splitlines() if l.strip().startswith("violated")][:4]
                meta["checks"][c] = dict(exit=rc, wall=round(time.time() - t0), violated=viol)
        finally:
            sh("git -C /repo checkout -- .")
            shutil.rmtree("/tmp/seed_ev", ignore_errors=True)
            shutil.rmtree("/tmp/seed_rp", ignore_errors=True)
        meta["caught_by"] = [c for c, v in meta["checks"].items() if v["exit"] == 1]
        json.dump(meta, open(os.path.join(d, "meta.json"), "w"), indent=1)
        summary[name] = dict(property=meta["property"], confirmed=meta.get("confirmed"), caught_by=meta["caught_by"],
                             exits={c: v["exit"] for c, v in meta["checks"].items()})
        if meta.get("neutralised_by_fix"):
            summary[name]["neutralised_by_fix"] = meta["neutralised_by_fix"]
        print(name, summary[name])
    if not sys.argv[1:]:
        json.dump(summary, open(os.path.join(root, "SUMMARY.json"), "w"), indent=1)


main()
