"""Form expression API on a mixed (u, p) container: assemble(sym=True) must equal assemble(sym=False)."""
import numpy as np
import felupe as fem
from felupe.math import ddot, dot, trace, grad

mesh = fem.Rectangle(n=3)
region = fem.RegionQuad(mesh)
field = fem.FieldsMixed(region, n=2, planestrain=False)
field[0].values[:] = 0.01 * np.random.default_rng(0).normal(size=field[0].values.shape)

@fem.Form(v=field, u=field)
def a():
    return [
        lambda v, u, **kw: ddot(grad(v), grad(u)),
        lambda v, p, **kw: trace(grad(v)) * p[0],
        lambda q, p, **kw: -0.1 * q[0] * p[0],
    ]

K0 = a.assemble(v=field, u=field, sym=False).toarray()
for parallel in (False, True):
    K1 = a.assemble(v=field, u=field, sym=True, parallel=parallel).toarray()
    print("parallel", parallel, "max |K(sym=True) - K(sym=False)| =", abs(K1 - K0).max())
    assert np.allclose(K1, K0), "sym=True differs"
print("ok")
