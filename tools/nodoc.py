#!/usr/bin/env python3
"""print python source with docstrings and license header stripped (reading aid)"""
import ast, sys
for p in sys.argv[1:]:
    src=open(p).read(); t=ast.parse(src)
    for n in ast.walk(t):
        if isinstance(n,(ast.FunctionDef,ast.ClassDef,ast.Module)) and n.body and isinstance(n.body[0],ast.Expr) and isinstance(getattr(n.body[0],'value',None),ast.Constant) and isinstance(n.body[0].value.value,str):
            n.body=n.body[1:] or [ast.Pass()]
    print('#'*20,p); print(ast.unparse(t))
