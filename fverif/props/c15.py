"""C15 -- load histories: ramps apply in order, history variables follow converged steps (DESIGN.md section 3, C15)."""

import ast
import itertools
import os
from fractions import Fraction

import numpy as np

from .. import ring, npmodel, micro, flow, scenario
from ..ring import P, sym, is_zero, ZERO, ONE
from ..common import new_interp, symarray, finish_info, method_where
from ..interp import InterpRaise
from ..runner import SRC

SPEC = dict(
    level="proof",
    rule="O1/O2: Step.generate (an interpreted generator, run lazily) drives the *real* newtonrhapson on symbolic data for every "
    "convergence history up to 3 substeps x 2 Newton iterations (and, with newtonrhapson replaced by a scripted stub, every pattern of "
    "reported success / failure): substep i applies ramp value i to every ramped item before partition / apply / Newton of that substep; "
    "a result is yielded iff that substep converged; after the first failure nothing further is started; substep i+1 starts from the "
    "values substep i converged on. Flow rule on generate's AST: every yield is reached only with res.success true. O3: SolidBody writes "
    "trial state to results._statevars on every evaluation and never touches results.statevars (who-may-write rule of C07.O4 + evaluation "
    "on the micro-instance). O4: committed state arrays handed to materials are unchanged. O5: pseudo-elastic softening stores max(W, old) "
    "and eta == 1 on the primary path. O6: radial return: yield condition holds after the update and the equivalent plastic strain grows by "
    "sqrt(2/3) dgamma with dgamma = f / (2 mu + 2K/3) > 0.",
    trusted_base=["C07 (Newton loop), C03 (materials)", "the linear solver and item assembly are scripted stand-ins"],
    explanation="bounded exhaustive enumeration of convergence histories on the real control code (abstract data) + flow rule + AVN of the state updates",
    exhaustive=True,
    not_decided=["path independence of converged results for elastic materials (a convergence statement)"],
    assumptions=["real arithmetic"],
)

FLOORS = {}


def tasks(tier):
    ts = [("flow generate", "run_flow", {})]
    nsub = 3
    # real newton: per substep the number of iterations to converge (1 or 2) or failure (0)
    for hist in itertools.product((1, 2, 0), repeat=nsub):
        # after a failure the remaining entries are irrelevant: keep canonical ones
        if 0 in hist and any(h != 0 for h in hist[hist.index(0) + 1:]):
            continue
        ts.append(("history %s" % "".join(map(str, hist)), "run_history", dict(hist=list(hist), x0=False)))
    ts.append(("history 121 x0", "run_history", dict(hist=[1, 2, 1], x0=True)))
    for pat in itertools.product((True, False), repeat=3):
        ts.append(("stub %s" % "".join("T" if p else "F" for p in pat), "run_stub", dict(pattern=list(pat))))
    ts.append(("trial vs committed", "run_trial", {}))
    ts.append(("softening", "run_softening", {}))
    ts.append(("plasticity", "run_plasticity", {}))
    ts.append(("job with a global field", "run_job_x0", {}))
    ts.append(("array-valued ramp table", "run_ramp_table", {}))
    # the usual way to give a history-dependent material a volumetric part is `material & Volumetric(...)`: what the body stores as trial
    # state (and commits after convergence) is what the composite hands out
    ts.append(("composite state", "run_included", dict(modname="c03", fname="run_composite", kwargs={}, oid="C15.O8", select_oid="C03.O8",
                                                      why="state variables change ... exactly to the values of the converged iterate: a composite must pass on the new state its history-dependent (first) material computed")))
    # the mixed (u, p, J) wrappers around a history-dependent material: the last item of gradient() is what the body stores as trial state
    ts.append(("mixed-wrapper state", "run_included", dict(modname="c03", fname="run_threefield", kwargs=dict(blocks="Fp+FJ+pp+pJ+JJ"), oid="C15.O9", select_oid="C03.O4",
                                                          why="state variables change ... exactly to the values of the converged iterate: NearlyIncompressible / ThreeFieldVariation must hand out the new state their inner material computed, not the stored one")))
    # the ramp a user hands to a Step is usually built with math.linsteps: the i-th value, and the number of substeps, are its output
    ts.append(("ramp table from linsteps", "run_included", dict(modname="c17", fname="run_group", kwargs=dict(group="spatial", tier=tier), oid="C15.O10", select_oid="C17.O6", select_construct="linsteps",
                                                               why="the i-th generated substep applies the i-th value of every ramp: the table math.linsteps builds (counts per segment, a short count list continued with its last entry, end point) is the load history the step walks")))
    return ts


def run_job_x0(col):
    """O2 (job level): Job.evaluate(x0=global field) -- the Newton solver of substep i+1 is started with a global field that carries the
    values substep i converged on (Job re-links x0 between the substeps it receives from Step.generate)"""
    from .c20 import meshio_summary, Store

    it = new_interp()
    it.lazy_generators = True
    it.externals.update(meshio_summary(Store()))
    fc, n, dof0, dof1, ext0, regs = scenario.make_problem(it)
    seen, sols = [], []

    class Res:
        pass

    def newton(interp, fn, args, kwargs):
        x0 = kwargs.get("x0")
        seen.append(None if x0 is None else [P(v) for v in scenario.flat_values(interp, x0)])
        r = Res()
        r.success = True
        r.x = interp.call_method(fc, "copy", [])
        k = len(sols)
        for f in interp.getattr(r.x, "fields"):
            vals = interp.getattr(f, "values")
            new = np.empty(np.asarray(vals).shape, dtype=object)
            for idx in np.ndindex(*new.shape):
                new[idx] = sym("sol%d_%s" % (k, "_".join(map(str, idx))))
            interp.setattr(f, "values", new)
        sols.append([P(v) for v in scenario.flat_values(interp, r.x)])
        r.fnorms = [0]
        return r

    it.call_hooks[("felupe.tools._newton", "newtonrhapson")] = newton
    it.call_hooks[("felupe.dof._tools", "partition")] = lambda interp, fn, args, kwargs: (dof0, dof1)
    it.call_hooks[("felupe.dof._tools", "apply")] = lambda interp, fn, args, kwargs: ext0
    Step = it.get("felupe.mechanics._step:Step")
    Job = it.get("felupe.mechanics._job:Job")
    itemA = scenario.FakeItem([], "A", fc, n)
    nsub = 3
    steps = [it.call(Step, [], dict(items=[itemA], ramp={itemA: [sym("s%d" % k) for k in range(nsub)]}, boundaries={})),
             it.call(Step, [], dict(items=[itemA], ramp={itemA: [sym("t%d" % k) for k in range(2)]}, boundaries={}))]
    job = it.call(Job, [steps], {})
    x0 = it.call_method(fc, "copy", [])
    it.call_method(job, "evaluate", [], dict(verbose=False, x0=x0))
    bad = [k for k in range(1, len(seen)) if seen[k] is None or any(not is_zero(a - b) for a, b in zip(seen[k], sols[k - 1]))]
    col.add("C15.O2", "Job.evaluate(x0=global field) continuation", "every substep (of every step) starts Newton with a global field carrying the values of the previous converged substep",
            len(seen) == nsub + 2 and not bad, "mechanics/_job.py Job.evaluate: %d Newton calls; substeps started from stale values: %s" % (len(seen), bad))
    final = [P(v) for v in scenario.flat_values(it, x0)]
    col.add("C15.O2", "Job.evaluate(x0=global field) final state", "after the job the global field carries the last converged values", bool(sols) and all(is_zero(a - b) for a, b in zip(final, sols[-1])))
    finish_info(col, it)


def run_ramp_table(col):
    """O1 (real Boundary): an array-valued ramp -- one row of prescribed components per substep -- is applied row by row, in every pass over the
    table (the same step listed twice, a second evaluation), and the user's table is left as it was"""
    it = new_interp()
    it.lazy_generators = True
    fc, n, dof0, dof1, ext0, regs = scenario.make_problem(it)
    B = it.get("felupe.dof._boundary:Boundary")
    f0 = it.getattr(fc, "fields")[0]
    npts = np.asarray(it.getattr(f0, "values")).shape[0]
    mask = np.zeros(npts, dtype=bool)
    mask[0] = True
    bnd = it.call(B, [f0], dict(mask=mask))
    nsub = 3
    table = symarray("T", (nsub, 2))
    table0 = table.copy()
    applied = []

    class Res:
        pass

    def newton(interp, fn, args, kwargs):
        r = Res()
        r.success = True
        r.x = fc
        r.fnorms = [0]
        return r

    def h_apply(interp, fn, args, kwargs):
        v = interp.getattr(bnd, "value")
        applied.append([P(x) for x in npmodel.to_obj(np.asarray(v)).reshape(-1)])
        return ext0

    it.call_hooks[("felupe.tools._newton", "newtonrhapson")] = newton
    it.call_hooks[("felupe.dof._tools", "partition")] = lambda interp, fn, args, kwargs: (dof0, dof1)
    it.call_hooks[("felupe.dof._tools", "apply")] = h_apply
    Step = it.get("felupe.mechanics._step:Step")
    item = scenario.FakeItem([], "A", fc, n)
    step = it.call(Step, [], dict(items=[item], ramp={bnd: table}, boundaries={"b": bnd}))
    for _ in range(2):
        for res in it.call_method(step, "generate", [], dict(verbose=False)):
            pass
    want = [[P(x) for x in table0[k]] for k in range(nsub)] * 2
    bad = [k for k in range(len(want)) if k >= len(applied) or len(applied[k]) != 2 or any(not is_zero(a - b) for a, b in zip(applied[k], want[k]))]
    changed = [(i, j) for i in range(nsub) for j in range(2) if not is_zero(P(table[i, j]) - P(table0[i, j]))]
    col.add("C15.O1", "array-valued ramp on a Boundary, two passes", "substep i of every pass applies row i of the ramp table; the table itself is not modified by the passes",
            len(applied) == 2 * nsub and not bad and not changed, "dof/_boundary.py Boundary.update: substeps (both passes numbered on) with a wrong row %s; table entries changed %s" % (bad, changed))
    finish_info(col, it)


def run_included(col, modname, fname, kwargs, oid, why, select_oid=None, select_construct=None):
    from ..common import include

    sel = None
    if select_construct is not None:
        sel = lambda o: select_construct in o.get("construct", "") or o.get("oid") == "task"
    n = include(col, modname, fname, kwargs, oid, why, select=sel, select_oid=select_oid)
    if select_construct is not None and n < 5:
        col.undecided(oid, "%s.%s" % (modname, fname), "anchor", "fewer than five included obligations mention %r" % select_construct)


def run_flow(col):
    path = os.path.join(SRC, "felupe", "mechanics", "_step.py")
    tree = ast.parse(open(path).read())
    fn = flow.function_node(tree, "Step.generate")
    if fn is None:
        col.undecided("C15.O1", "mechanics/_step.py Step.generate", "anchor", "function not found")
        return

    def attr_value(fa, n, st):
        # res.success as a tracked boolean "res.success"
        if isinstance(n.value, ast.Name):
            return st.env.get("%s.%s" % (n.value.id, n.attr), None)
        return None

    def on_refine(fa, test, st, val):
        if isinstance(test, ast.Attribute) and isinstance(test.value, ast.Name):
            st.env["%s.%s" % (test.value.id, test.attr)] = flow.T if val else flow.F

    def on_assign(fa, name, rhs, st):
        # a new result object: its success flag is unknown again
        for k in [k for k in st.env if k.startswith(name + ".")]:
            del st.env[k]

    fa = flow.FlowAnalysis(fn, hooks=dict(attr_value=attr_value, on_refine=on_refine, on_assign=on_assign)).run()
    where = "mechanics/_step.py:%d Step.generate" % fn.lineno
    ys = fa.at_yield
    bad = [n.lineno for s, n in ys if s.env.get("res.success") == flow.F]
    unknown = [n.lineno for s, n in ys if s.env.get("res.success") not in (flow.T, flow.F)]
    if unknown and not bad:
        # no guard the engine understands establishes res.success on this path: not a verdict (the scripted runs decide the behaviour)
        col.undecided("C15.O1", "Step.generate yields", "a substep result is yielded only in states where res.success is true",
                      "%s: res.success is not determined at the yield(s) in lines %s (unrecognised guard idiom)" % (where, sorted(set(unknown))))
    else:
        col.add("C15.O1", "Step.generate yields", "a substep result is yielded only in states where res.success is true", bool(ys) and not bad, "%s: yields %d, offending lines %s" % (where, len(ys), bad))
    # after a failure (res.success false) no further newtonrhapson call is reachable
    calls = fa.at_call.get("newtonrhapson", [])
    bad = [n.lineno for s, n in calls if s.env.get("stop") == flow.T]
    col.add("C15.O1", "Step.generate stops", "no Newton solve is started once the stop flag is set (first failure ends the step)", bool(calls) and not bad, "%s: %s" % (where, bad))


class Recorder:
    def __init__(self):
        self.log = []


def _make_step(it, log, nsub, hook_newton=None, x0=False):
    fc, n, dof0, dof1, ext0, regs = scenario.make_problem(it)
    itemA = scenario.FakeItem(log, "A", fc, n)
    itemB = scenario.FakeItem(log, "B", fc, n)
    bnd = scenario.FakeItem(log, "BC", fc, n)  # a ramped boundary: only update() is used
    rampA = [sym("a%d" % i) for i in range(nsub)]
    rampB = [sym("b%d" % i) for i in range(nsub)]
    # dof.partition / dof.apply are stubbed (their semantics is C08); they record when they are called
    def h_partition(interp, fn, args, kwargs):
        log.append(("partition", scenario.flat_values(it, args[0])))
        return dof0, dof1

    def h_apply(interp, fn, args, kwargs):
        log.append(("apply", bnd.value))
        return ext0 * (bnd.value if bnd.value is not None else ONE)

    it.call_hooks[("felupe.dof._tools", "partition")] = h_partition
    it.call_hooks[("felupe.dof._tools", "apply")] = h_apply
    if hook_newton is not None:
        it.call_hooks[("felupe.tools._newton", "newtonrhapson")] = hook_newton
    Step = it.get("felupe.mechanics._step:Step")
    step = it.call(Step, [], dict(items=[itemA, itemB], ramp={bnd: rampA, itemB: rampB}, boundaries={"b": bnd}))
    return step, fc, (itemA, itemB, bnd), (rampA, rampB), (dof0, dof1, ext0), n


def run_history(col, hist, x0):
    """real newtonrhapson; hist[i] = iterations substep i needs (0: never converges within maxiter=2)"""
    it = new_interp()
    it.lazy_generators = True
    log = []
    nsub = len(hist)
    step, fc, (A, B, bnd), (rampA, rampB), (dof0, dof1, ext0), n = _make_step(it, log, nsub)
    outcomes = []
    for h in hist:
        outcomes += {1: [True], 2: [False, True], 0: [False, False]}[h]
    script = scenario.ConvergenceScript(outcomes)
    solver = scenario.ScriptedSolver(log)
    results = []
    raised = None
    ring.ORDER_ORACLE[0] = script
    kw = dict(solver=solver, maxiter=2, verbose=False)
    x0obj = None
    if x0:
        x0obj = it.call_method(fc, "copy", [])
        kw["x0"] = x0obj
    try:
        gen = it.call_method(step, "generate", [], kw)
        try:
            for res in gen:
                log.append(("yield", len(results)))
                results.append(res)
                if x0:
                    it.call_method(x0obj, "link", [it.getattr(res, "x")])  # what Job.evaluate does between yields
        except InterpRaise as e:
            raised = e
    finally:
        ring.ORDER_ORACLE[0] = None
    name = "".join(map(str, hist)) + (" x0" if x0 else "")
    n_ok = hist.index(0) if 0 in hist else nsub
    col.add("C15.O1", "history %s yields" % name, "one result per converged substep, in order; a failing substep ends the step (by the Newton solver's exception)",
            len(results) == n_ok and (raised is not None) == (0 in hist), "%d results, raised: %s" % (len(results), str(raised)[:60] if raised else None))
    # order of events per substep: ramp updates (value[i]) -> partition -> apply -> first assembly; nothing after the failure
    idx = 0
    ok_order = True
    started = 0
    pos = 0
    evs = [e for e in log if e[0] in ("ramp", "partition", "apply", "vector", "yield", "solve")]
    sub = -1
    exp_sub_values = []
    for e in evs:
        if e[0] == "ramp" and (sub < 0 or seen_partition):
            sub += 1
            seen_partition = False
            started += 1
            ramps_seen = {}
        if e[0] == "ramp":
            ramps_seen[e[1]] = e[2]
        if e[0] == "partition":
            seen_partition = True
            want = {"BC": rampA[sub], "B": rampB[sub]}
            if {k: str(v) for k, v in ramps_seen.items()} != {k: str(v) for k, v in want.items()}:
                ok_order = False
    expected_started = n_ok + (1 if 0 in hist else 0)
    col.add("C15.O1", "history %s ramp order" % name, "substep i applies ramp value i to every ramped item before partition/apply/Newton of that substep; no substep is started after a failure",
            ok_order and started == expected_started, "substeps started %d (expected %d)" % (started, expected_started))
    # O2: each substep starts from the previous converged values
    bad = []
    vec = [e for e in log if e[0] == "vector" and e[1] == "A"]
    yields = [i for i, e in enumerate(log) if e[0] == "yield"]
    for k in range(1, len(results)):
        prev = scenario.flat_values(it, it.getattr(results[k - 1], "x"))
        # first assembly after yield k-1
        after = [e for e in log[yields[k - 1]:] if e[0] == "vector" and e[1] == "A"]
        if not after:
            continue
        start_vals = npmodel.to_obj(after[0][4]).reshape(-1)
        if any(not is_zero(P(a) - P(b)) for a, b in zip(start_vals, prev[:len(start_vals)])):
            bad.append(k)
    col.add("C15.O2", "history %s continuation" % name, "substep i+1 starts its first residual evaluation from the field values substep i converged on", not bad, "substeps %s" % bad)
    # O3: committed state after each yielded substep == trial state of that substep's converged evaluation; unchanged by the failing one
    commits = [e for e in log if e[0] == "commit" and e[1] == "A"]
    conv_calls = []
    c = 1
    for h in hist[:n_ok]:
        c += h
        conv_calls.append(c)
        c += 1  # next substep's initial residual
    got = sorted({e[2][2] for e in commits if e[2] is not None})
    col.add("C15.O3", "history %s commits" % name, "state variables are committed exactly at the converged evaluation of each converged substep and at no other time", got == conv_calls,
            "committed at assembly calls %s, expected %s" % (got, conv_calls))
    finish_info(col, it)


def run_stub(col, pattern):
    """newtonrhapson replaced by a stub reporting success / failure: exercises the `not res.success` branch"""
    it = new_interp()
    it.lazy_generators = True
    log = []
    calls = []

    class Res:
        pass

    def newton(interp, fn, args, kwargs):
        k = len(calls)
        calls.append(dict(kwargs))
        log.append(("newton", k))
        r = Res()
        r.success = pattern[k]
        r.x = kwargs["items"][0].field
        r.k = k
        return r

    step, fc, (A, B, bnd), (rampA, rampB), (dof0, dof1, ext0), n = _make_step(it, log, len(pattern), hook_newton=newton)
    got = []
    for res in it.call_method(step, "generate", [], {}):
        got.append(res.k)
    n_ok = pattern.index(False) if False in pattern else len(pattern)
    name = "".join("T" if p else "F" for p in pattern)
    col.add("C15.O1", "stub %s yields" % name, "results are yielded for the converged substeps before the first failure only, in order", got == list(range(n_ok)), "yielded %s" % got)
    col.add("C15.O1", "stub %s stops" % name, "no Newton solve is started after the first failure", len(calls) == min(len(pattern), n_ok + 1), "%d solves" % len(calls))
    ramps = [e for e in log if e[0] == "ramp" and e[1] == "BC"]
    col.add("C15.O1", "stub %s ramps" % name, "ramp values are applied in order, one per started substep", [str(e[2]) for e in ramps] == [str(v) for v in rampA[:len(calls)]], str([str(e[2]) for e in ramps]))
    okargs = all(c.get("dof0") is dof0 and c.get("dof1") is dof1 and c.get("items") is not None for c in calls)
    col.add("C15.O1", "stub %s solver arguments" % name, "each substep hands the partition of that substep and the items to the Newton solver", okargs)
    finish_info(col, it)


def run_trial(col):
    """O3: SolidBody._gradient writes the trial state, never the committed one"""
    it = new_interp()
    from .c01 import setup_fields

    class StateMat:
        def __init__(self):
            self.x = [npmodel.eye(2), npmodel.zeros(1)]
            self.seen = []

        def gradient(self, x):
            self.seen.append(x[-1])
            new = np.empty(x[-1].shape, dtype=object)
            new[...] = sym("NEWSTATE")
            return [symarray("Pst", x[0].shape), new]

        def hessian(self, x):
            self.seen.append(x[-1])
            return [symarray("Ast", (2, 2) + x[0].shape)]

    fc, unknowns, (ra, rb), d, tdim = setup_fields(it, "Field2")
    um = StateMat()
    body = it.call(it.get("felupe.mechanics._solidbody:SolidBody"), [], dict(umat=um, field=fc))
    res = it.getattr(body, "results")
    committed0 = it.getattr(res, "statevars")
    c0 = committed0.copy()
    asm = it.getattr(body, "assemble")
    it.call(it.getattr(asm, "vector"), [fc], {})
    it.call(it.getattr(asm, "matrix"), [fc], {})
    same = it.getattr(res, "statevars") is committed0 and all(is_zero(P(a) - P(b)) for a, b in zip(committed0.reshape(-1), c0.reshape(-1)))
    trial = it.getattr(res, "_statevars")
    col.add("C15.O3", "SolidBody trial state", "evaluations write the new state to results._statevars; results.statevars (committed) is neither rebound nor modified",
            same and trial is not None and "NEWSTATE" in str(trial.reshape(-1)[0]), method_where(it.get("felupe.mechanics._solidbody:SolidBody"), "_gradient"))
    col.add("C15.O3", "SolidBody state input", "gradient and hessian receive the committed state", all(s is committed0 for s in um.seen) and len(um.seen) >= 2)
    it.call_method(res, "update_statevars", [])
    col.add("C15.O3", "Results.update_statevars", "commit copies the last trial state into the committed slot", it.getattr(res, "statevars") is trial)
    finish_info(col, it)


def run_softening(col):
    from . import c03
    sub = type(col)()
    for case in ("unloading", "primary"):
        c03.run_ogden(sub, case)
    for o in sub.obs:
        if "state" in o["construct"] or "inputs" in o["construct"] or (o["construct"].endswith(".gradient") and "primary" in o["construct"]):
            o = dict(o)
            o["oid"] = "C15.O5" if "inputs" not in o["construct"] else "C15.O4"
            col.obs.append(o)
    col.info.update(sub.info)


def run_plasticity(col):
    """O6: the radial return keeps the stress on the yield surface and never decreases the equivalent plastic strain"""
    it = new_interp()
    f = it.get("felupe.constitution.small_strain.models._linear_elastic_plastic_isotropic:linear_elastic_plastic_isotropic_hardening")
    lam, mu, sy, K = sym("lam", True), sym("mu", True), sym("sy", True), sym("K", True)

    def symm(name):
        a = symarray(name, (3, 3, 1, 1))
        for i in range(3):
            for j in range(i):
                a[i, j] = a[j, i]
        return a

    def symm(name, nq=2):  # noqa
        a = symarray(name, (3, 3, nq, 1))
        for i in range(3):
            for j in range(i):
                a[i, j] = a[j, i]
        return a

    # two quadrature points evaluated in one call; each combination of (yields, does not yield): the update of one point must not
    # depend on whether the *other* point yields (the masked update)
    # a third kind of point, "zero": no strain increment and no stored stress -- its deviatoric trial stress vanishes identically, so the
    # flow direction s / |s| is 0/0 there (NaN in floating point, evaluated in the ring's IEEE mode); it must stay untouched by the update
    for cases in (("plastic", "plastic"), ("elastic", "elastic"), ("plastic", "elastic"), ("elastic", "plastic"), ("plastic", "zero"), ("zero", "plastic", "elastic")):
        nqc = len(cases)
        de, en, sn = symm("de", nqc), symm("en", nqc), symm("sn", nqc)
        for q_, c_ in enumerate(cases):
            if c_ == "zero":
                de[:, :, q_, 0] = ZERO
                sn[:, :, q_, 0] = ZERO
        alpha = symarray("alpha", (1, nqc, 1), positive=True)[0]  # the model receives it with a leading axis of length one
        ep = symm("ep", nqc)
        zeta = [alpha.copy()[None], ep.copy()]

        def oracle(a, b, op, cases=cases):
            if op == ">" and b.is_const() and b.const_value() == 0:
                txt = str(a)
                hits = [q_ for q_ in range(len(cases)) if "alpha[0,%d,0]" % q_ in txt]
                if len(hits) == 1:
                    return cases[hits[0]] == "plastic"
            return None

        ring.ORDER_ORACLE[0] = oracle
        ring.IEEE[0] = "zero" in cases
        try:
            dsde, sig, znew = it.call(f, [de, en, sn, zeta], {"λ": lam, "μ": mu, "σy": sy, "K": K, "tangent": True})
        finally:
            ring.ORDER_ORACLE[0] = None
            ring.IEEE[0] = False
        sig = npmodel.to_obj(sig)
        dsde = npmodel.to_obj(dsde)
        tag = "/".join(cases)
        for q, case in enumerate(cases):
            tr = sum((sig[i, i, q, 0] for i in range(3)), ZERO)
            sdev = [[sig[i, j, q, 0] - (tr * Fraction(1, 3) if i == j else ZERO) for j in range(3)] for i in range(3)]
            ss = sum((sdev[i][j] * sdev[i][j] for i in range(3) for j in range(3)), ZERO)
            a_new = P(npmodel.to_obj(znew[0])[0, q, 0])
            trde = sum((de[k, k, q, 0] for k in range(3)), ZERO)
            trial = [[sn[i, j, q, 0] + 2 * mu * de[i, j, q, 0] + (lam * trde if i == j else ZERO) for j in range(3)] for i in range(3)]
            if case == "plastic":
                okk = is_zero(ring.cancel(ss) - Fraction(2, 3) * (sy + K * a_new) ** 2)
                col.add("C15.O6", "radial return yield condition (points %s, point %d)" % (tag, q), "after a plastic update the stress lies on the yield surface: |dev sigma| == sqrt(2/3) (sigma_y + K alpha_new)", okk,
                        "s:s - 2/3 (sy + K alpha)^2 != 0")
                ttr = sum((trial[i][i] for i in range(3)), ZERO)
                strial = [[trial[i][j] - (ttr * Fraction(1, 3) if i == j else ZERO) for j in range(3)] for i in range(3)]
                nrm = ring.power(sum((strial[i][j] ** 2 for i in range(3) for j in range(3)), ZERO), Fraction(1, 2))
                fy = nrm - ring.power(P(Fraction(2, 3)), Fraction(1, 2)) * (sy + K * alpha[q, 0])
                dgamma = fy * ring.inv(2 * mu + Fraction(2, 3) * K)
                okk = is_zero(a_new - alpha[q, 0] - ring.power(P(Fraction(2, 3)), Fraction(1, 2)) * dgamma)
                col.add("C15.O6", "radial return hardening variable (points %s, point %d)" % (tag, q), "alpha_new - alpha == sqrt(2/3) dgamma with dgamma = f / (2 mu + 2K/3): positive for f > 0, mu > 0, K >= 0 (never decreases)", okk)
            else:
                okk = is_zero(a_new - alpha[q, 0]) and all(is_zero(P(a) - P(b)) for a, b in zip(npmodel.to_obj(znew[1])[:, :, q, 0].reshape(-1), ep[:, :, q, 0].reshape(-1)))
                col.add("C15.O6", "elastic point keeps the plastic state (points %s, point %d)" % (tag, q), "a point that does not yield keeps its equivalent plastic strain and its plastic strain, whatever the other points do", okk,
                        "constitution/small_strain/models/_linear_elastic_plastic_isotropic.py linear_elastic_plastic_isotropic_hardening: state of a non-yielding point changed")
                oks = all(is_zero(P(sig[i, j, q, 0]) - trial[i][j]) for i in range(3) for j in range(3))
                eye = lambda i, j: 1 if i == j else 0  # noqa
                okt = all(is_zero(P(dsde[i, j, k, l, q, 0]) - (lam * eye(i, j) * eye(k, l) + 2 * mu * eye(i, k) * eye(j, l))) for i in range(3) for j in range(3) for k in range(3) for l in range(3))
                col.add("C15.O6", "elastic point stress and tangent (points %s, point %d)" % (tag, q), "a point that does not yield returns the trial stress and the elastic tangent", oks and okt)
    # the committed state handed in through MaterialStrain is not modified (copies are taken in extract)
    from . import c03
    sub = type(col)()
    c03.run_plastic(sub, "plastic")
    for o in sub.obs:
        if "inputs" in o["construct"]:
            o = dict(o)
            o["oid"] = "C15.O4"
            col.obs.append(o)
    finish_info(col, it)
