"""C06 -- regions measure geometry and differentiate fields (DESIGN.md section 3, C06)."""

import ast
import itertools
from fractions import Fraction

import numpy as np

from .. import ring, npmodel, micro
from ..ring import P, sym, diff, is_zero, ZERO, ONE
from ..common import new_interp, symarray, finish_info, method_where, classes_in
from ..interp import InterpRaise, Instance
from .c17 import leibniz

SPEC = dict(
    level="proof",
    rule="Region.reload is evaluated from source on symbolic cells: nodal coordinates X[c,a,I] and reference gradients D[a,K,q] are "
    "generators (D sums to zero over a, the property C04.O4 proves for every element class), the quadrature weight is symbolic; "
    "obligations: dXdr == X (x) D, drdX == inverse, dV == det * w, sum_a X[a,I] dhdX[a,J] == delta_IJ and sum_a dhdX[a,J] == 0 "
    "(constants and linear functions are reproduced on an arbitrarily distorted cell), push-forward of the reference hessian with "
    "drdX twice, uniform evaluation of the first cell only; the negative-volume warning is reached iff some dV < 0 (both generic "
    "sign cases through an order oracle); Field / FieldPlaneStrain / FieldAxisymmetric interpolate/grad/hess/extract against their "
    "defining sums on the micro-instance; every Region* template (discovered) pairs an element with a default rule whose documented "
    "exactness covers the per-axis / total degree of products of the element's gradients (degrees computed from C04's polynomials).",
    trusted_base=[
        "C04 (sum of shape functions == 1, gradients exact) and C05 (documented exactness of each rule)",
        "numpy object-array semantics; einsum re-implemented",
    ],
    explanation="algebraic value numbering of Region.reload and the field evaluation kernels",
    exhaustive=True,
    not_decided=["volume sums on concrete meshes, equality across element families, rigid-motion invariance for a given mesh (sums over "
                 "runtime data; they follow from the identities + C04 + C05)", "float32 copies"],
    assumptions=["real arithmetic", "generic point (det dXdr != 0)"],
)

FLOORS = {"region templates": ("templates", 22)}


def tasks(tier):
    ts = []
    for d in (1, 2, 3):
        ts.append(("reload d=%d" % d, "run_reload", dict(d=d)))
    ts.append(("reload uniform", "run_uniform", {}))
    ts.append(("negative volume warning", "run_warning", {}))
    ts.append(("negative volume warning, mixed orientation", "run_warning_mixed", {}))
    ts.append(("cached arrays", "run_cache", {}))
    # the region templates take their quadrature from a default argument: one scheme object is shared by every region of that template in a
    # process, so a scheme that is altered by a query (inv(), plot()) corrupts every region built afterwards
    ts.append(("shared default schemes", "run_included", dict(modname="c05", fname="run_purity", kwargs={}, oid="C06.O8",
                                                            why="regions built from a template share its default scheme object; the scheme must not be altered by inv() / plot()")))
    # field.hess() / grad() reproduce polynomials only if the template's element supplies the exact derivatives of its own shape functions
    from . import c04
    from ..scenario import new_interp as _ni

    for mn, cn in c04._discover(_ni()):
        if cn == "ArbitraryOrderLagrange":
            continue
        ts.append(("element derivatives of %s" % cn, "run_included", dict(
            modname="c04", fname="run_class", kwargs=dict(modname=mn, clsname=cn, lagrange=None), oid="C06.O9", select_oid=["C04.O1", "C04.O2"],
            why="the cached dhdX / d2hdXdX push forward the element's gradient / hessian: they have to be the exact derivatives of the element's shape functions for the polynomial-reproduction clause")))
    # boundary-region templates evaluate the volume element on a *rotated copy* of each boundary cell (so that the face is the facet
    # xi_last = -1): gradients and hessians of fields on them are those of the field only if the rotated cell is a proper rotation of the
    # reference cell, node by node (a swapped pair of mid-nodes leaves dV, dA and linear fields intact and corrupts quadratic ones)
    from . import c13
    for ct, fn, el_, n_ in c13.TABLES:
        ts.append(("boundary cells %s" % ct, "run_included", dict(modname="c13", fname="run_table", kwargs=dict(cell_type=ct, fname=fn, elname=el_, nnodes=n_), oid="C06.O10", select_oid="C13.O1",
                                                                why="Field.grad() / hess() on a boundary-region template reproduce polynomials up to the element order only if every node of the rotated boundary cell sits where the element expects it")))
    # the dual (p, J) fields of a first-order Lagrange region live on a RegionLagrange of order 0: one constant shape function per cell
    for d_ in (1, 2, 3):
        ts.append(("constant Lagrange element dim=%d" % d_, "run_included", dict(modname="c04", fname="run_class", kwargs=dict(modname="felupe.element._lagrange", clsname="ArbitraryOrderLagrange", lagrange=(0, d_, True)),
                                                                              oid="C06.O11", select_oid=["C04.O5", "C04.O3", "C04.O4"],
                                                                              why="a constant nodal value of a dual field on a first-order Lagrange region is interpolated as that constant only if the order-0 element has one shape function equal to one")))
    # "equal across element families discretising the same straight-sided geometry": RegionLagrange(order=2) and the bi-/tri-quadratic templates
    # read the same quad9 / hexahedron27 mesh only if both elements number their nodes alike
    ts.append(("node order of the Lagrange families", "run_included", dict(modname="c04", fname="run_perm_tables", kwargs=dict(maxorder=2), oid="C06.O13", select_oid="C04.O7",
                                                                          why="two element families measure one mesh alike only if position a of the cell's point list means the same node to both")))
    ts.append(("fields", "run_fields", {}))
    ts.append(("templates", "run_templates", dict(tier=tier)))
    return ts


class OpaqueElement:
    """an element given by symbolic reference values H[a,q], gradients D[a,K,q] (summing to zero over a) and hessians"""

    def __init__(self, na, dim, nq, numeric_D=False):
        self.H = symarray("H", (na, nq))
        self.D = symarray("D", (na, dim, nq))
        if numeric_D:
            # fixed rational first derivatives (generic, no symmetry): keeps the inverse Jacobian a rational function of the point coordinates only
            for a in range(na):
                for K in range(dim):
                    for q in range(nq):
                        self.D[a, K, q] = P(Fraction(1 + ((7 * a + 3 * K + 5 * q + a * K) % 11), 2 + ((a + 2 * K + 3 * q) % 5)) * (1 if (a + K + q) % 3 else -1))
        for K in range(dim):
            for q in range(nq):
                self.D[na - 1, K, q] = -sum((self.D[a, K, q] for a in range(na - 1)), ZERO)
        self.H2 = symarray("H2", (na, dim, dim, nq))
        for K in range(dim):
            for L in range(K):
                self.H2[:, K, L, :] = self.H2[:, L, K, :]
        # second derivatives of a partition of unity sum to zero as well
        for K in range(dim):
            for L in range(dim):
                for q in range(nq):
                    self.H2[na - 1, K, L, q] = -sum((self.H2[a, K, L, q] for a in range(na - 1)), ZERO)
        self.dim = dim
        self.cell_type = "opaque"

    def function(self, q):
        return self.H[:, int(q)]

    def gradient(self, q):
        return self.D[:, :, int(q)]

    def hessian(self, q):
        return self.H2[:, :, :, int(q)]


class QPoints:
    def __init__(self, nq, dim):
        self.points = list(range(nq))
        self.weights = symarray("w", (nq,), positive=True)
        self.npoints = nq
        self.dim = dim


def make_region(it, d, na, nq, ncells, hess=False, uniform=False, shared=True, numeric_D=False, numeric_X=False):
    if ncells == 2:
        cells = [list(range(na)), [na - 1] + list(range(na, 2 * na - 1))] if shared else [list(range(na)), list(range(na, 2 * na))]
    else:
        cells = [list(range(na))]
    npts = max(max(c) for c in cells) + 1
    mesh = micro.FakeMesh(cells, npts, d)
    if numeric_X:
        # fixed rational, generic (non-affine, no symmetry) point coordinates
        for p_ in range(npts):
            for i_ in range(d):
                mesh.points[p_, i_] = P(Fraction(3 + ((5 * p_ + 7 * i_ + p_ * i_ * 3) % 13), 4 + ((2 * p_ + 3 * i_) % 7)) * (1 if (p_ + 2 * i_) % 4 else -1))
    el = OpaqueElement(na, d, nq, numeric_D=numeric_D)
    qd = QPoints(nq, d)
    cls = it.get("felupe.region._region:Region")
    own = ring.ORDER_ORACLE[0] is None
    if own:
        # valid mesh: all differential volumes positive (the other sign case is the warning obligation)
        ring.ORDER_ORACLE[0] = lambda a, b, op: ({"<": False, "<=": False, ">": True, ">=": True}[op] if (b.is_const() and b.const_value() == 0) else None)
    try:
        reg = it.call(cls, [mesh, el, qd], dict(grad=True, hess=hess, uniform=uniform))
    finally:
        if own:
            ring.ORDER_ORACLE[0] = None
    return reg, mesh, el, qd


def run_reload(col, d):
    it = new_interp()
    na, nq, nc = d + 1, 2, 2
    # d = 3: the geometry obligations on the fully symbolic region (no hessian), the second-derivative obligations further down on a region whose
    # element has fixed rational first derivatives (the exact push-forward with a fully symbolic 3x3 inverse Jacobian exceeds the budget)
    reg, mesh, el, qd = make_region(it, d, na, nq, nc, hess=False)
    w = method_where(it.get("felupe.region._region:Region"), "reload")
    h = it.getattr(reg, "h")
    dhdr = it.getattr(reg, "dhdr")
    dXdr = it.getattr(reg, "dXdr")
    drdX = it.getattr(reg, "drdX")
    dV = it.getattr(reg, "dV")
    dhdX = it.getattr(reg, "dhdX")
    X = mesh.points
    col.add("C06.O1", "Region.h d=%d" % d, "h[a,q,0] == element.function(q)[a], size-one cell axis",
            h.shape == (na, nq, 1) and all(is_zero(P(h[a, q, 0]) - el.H[a, q]) for a in range(na) for q in range(nq)), w)
    col.add("C06.O1", "Region.dhdr d=%d" % d, "dhdr[a,K,q,0] == element.gradient(q)[a,K]",
            dhdr.shape == (na, d, nq, 1) and all(is_zero(P(dhdr[a, K, q, 0]) - el.D[a, K, q]) for a in range(na) for K in range(d) for q in range(nq)), w)
    bad = []
    for c in range(nc):
        for q in range(nq):
            M = np.empty((d, d), dtype=object)
            for I in range(d):
                for J in range(d):
                    M[I, J] = sum((X[mesh.cells[c, a], I] * el.D[a, J, q] for a in range(na)), ZERO)
                    if not is_zero(P(dXdr[I, J, q, c]) - M[I, J]):
                        bad.append(("dXdr", I, J, q, c))
            det = leibniz(M)
            if not is_zero(P(dV[q, c]) - det * qd.weights[q]):
                bad.append(("dV", q, c))
            for I in range(d):
                for J in range(d):
                    acc = sum((M[I, K] * P(drdX[K, J, q, c]) for K in range(d)), ZERO)
                    if not is_zero(acc - (ONE if I == J else ZERO)):
                        bad.append(("drdX", I, J, q, c))
    col.add("C06.O1", "Region.reload geometry d=%d" % d, "dXdr == sum_a X_a (x) dh_a/dr; drdX == inverse; dV == det(dXdr) * w for symbolic distorted cells", not bad, "%s: %s" % (w, bad[:5]))
    bad1, bad0 = [], []
    for c in range(nc):
        for q in range(nq):
            for I in range(d):
                for J in range(d):
                    acc = sum((X[mesh.cells[c, a], I] * P(dhdX[a, J, q, c]) for a in range(na)), ZERO)
                    if not is_zero(acc - (ONE if I == J else ZERO)):
                        bad1.append((I, J, q, c))
            for J in range(d):
                if not is_zero(sum((P(dhdX[a, J, q, c]) for a in range(na)), ZERO)):
                    bad0.append((J, q, c))
    col.add("C06.O1", "Region.dhdX linear reproduction d=%d" % d, "sum_a X[a,I] dhdX[a,J] == delta_IJ on an arbitrarily distorted cell (gradient of a linear field is exact)", not bad1, "%s: %s" % (w, bad1[:5]))
    col.add("C06.O1", "Region.dhdX constant reproduction d=%d" % d, "sum_a dhdX[a,J] == 0 (gradient of a constant field vanishes)", not bad0, "%s: %s" % (w, bad0[:5]))
    # the second-derivative obligations need more nodes than a simplex has: with d + 1 nodes the zero-sum second derivatives are reproduced as a
    # *linear* field and the exact hessian vanishes identically (any push-forward passes).  A region with d + 2 nodes; fixed rational first
    # derivatives for d >= 2 (the exact push-forward with a fully symbolic inverse Jacobian exceeds the budget)
    na = d + 2
    reg, mesh, el, qd = make_region(it, d, na, nq, 1, hess=True, numeric_D=(d >= 2), numeric_X=(d == 3))
    nc = 1
    X = mesh.points
    drdX = it.getattr(reg, "drdX")
    dhdX = it.getattr(reg, "dhdX")
    d2 = it.getattr(reg, "d2hdXdX")
    nonzero = any(not is_zero(P(v)) for v in d2.reshape(-1))
    col.add("C06.O2", "Region.d2hdXdX scenario d=%d" % d, "the scenario is not degenerate: some second derivative w.r.t. the undeformed coordinates is not identically zero", nonzero, nontrivial=False)
    # second derivatives w.r.t. the undeformed coordinates on an arbitrarily distorted (non-affine) cell: h(r(X)),
    #   d2h/dX_K dX_L = (d2h/dr_I dr_J - dh/dX_M d2X_M/dr_I dr_J) dr_I/dX_K dr_J/dX_L   with d2X_M/drdr = sum_b X[b,M] d2h_b/drdr
    # (the second term vanishes on affine cells).  Consequences checked separately: the hessian of a constant and of a linear field vanishes.
    bad, badc, badl = [], [], []
    for c in range(nc):
        for q in range(nq):
            d2X = np.empty((d, d, d), dtype=object)
            for M_ in range(d):
                for I in range(d):
                    for J in range(d):
                        d2X[M_, I, J] = sum((X[mesh.cells[c, b], M_] * el.H2[b, I, J, q] for b in range(na)), ZERO)
            for a in range(na):
                for K in range(d):
                    for L in range(d):
                        acc = ZERO
                        for I in range(d):
                            for J in range(d):
                                core = el.H2[a, I, J, q] - sum((P(dhdX[a, M_, q, c]) * d2X[M_, I, J] for M_ in range(d)), ZERO)
                                acc = acc + core * P(drdX[I, K, q, c]) * P(drdX[J, L, q, c])
                        if not is_zero(P(d2[a, K, L, q, c]) - acc):
                            bad.append((a, K, L, q, c))
            for K in range(d):
                for L in range(d):
                    if not is_zero(sum((P(d2[a, K, L, q, c]) for a in range(na)), ZERO)):
                        badc.append((K, L, q, c))
                    for M_ in range(d):
                        if not is_zero(sum((X[mesh.cells[c, a], M_] * P(d2[a, K, L, q, c]) for a in range(na)), ZERO)):
                            badl.append((M_, K, L, q, c))
    col.add("C06.O2", "Region.d2hdXdX d=%d" % d, "d2hdXdX[a,K,L] == (d2h_a/drdr[I,J] - dhdX[a,M] d2X_M/drdr[I,J]) drdX[I,K] drdX[J,L]: the exact second derivative of h(r(X)) on a distorted cell (the geometry term vanishes on affine cells)",
            not bad, "%s: %s" % (w, bad[:5]))
    col.add("C06.O2", "Region.d2hdXdX constant reproduction d=%d" % d, "sum_a d2hdXdX[a,K,L] == 0 (hessian of a constant field vanishes)", not badc, "%s: %s" % (w, badc[:5]))
    col.add("C06.O2", "Region.d2hdXdX linear reproduction d=%d" % d, "sum_a X[a,M] d2hdXdX[a,K,L] == 0 on an arbitrarily distorted cell (the hessian of a linear field vanishes)", not badl, "%s: %s" % (w, badl[:5]))
    finish_info(col, it)


def run_uniform(col):
    it = new_interp()
    d, na, nq = 2, 3, 2
    reg, mesh, el, qd = make_region(it, d, na, nq, 2, uniform=True)
    dV = it.getattr(reg, "dV")
    dhdX = it.getattr(reg, "dhdX")
    reg1, mesh1, el1, qd1 = make_region(it, d, na, nq, 1)
    col.add("C06.O6", "Region(uniform=True)", "uniform evaluation computes the first cell only (size-one cell axis), with the values of the general path for that cell",
            dV.shape == (nq, 1) and dhdX.shape == (na, d, nq, 1)
            and all(is_zero(P(a) - P(b)) for a, b in zip(dV.reshape(-1), it.getattr(reg1, "dV").reshape(-1)))
            and all(is_zero(P(a) - P(b)) for a, b in zip(dhdX.reshape(-1), it.getattr(reg1, "dhdX").reshape(-1))),
            "dV %s dhdX %s" % (dV.shape, dhdX.shape))
    col.add("C06.O6", "Region.uniform flag", "the region records that it is uniform", it.getattr(reg, "uniform") is True)
    # the compressed (one cell) storage is a promise about the mesh the caller makes with uniform=True; a later re-evaluation that does not
    # repeat the promise (reload() after the points were moved, copy(mesh) onto another mesh) measures every cell again
    cls = it.get("felupe.region._region:Region")
    pos = lambda a, b, op: ({"<": False, "<=": False, ">": True, ">=": True}[op] if (b.is_const() and b.const_value() == 0) else None)
    for how in ("reload()", "reload(mesh)", "copy()", "copy(mesh)"):
        ring.ORDER_ORACLE[0] = pos
        try:
            r0, m0, el0, qd0 = make_region(it, d, na, nq, 2, uniform=True)
            m0.points = symarray("Ymoved", m0.points.shape)
            if how == "reload()":
                it.call_method(r0, "reload", [])
                got = r0
            elif how == "reload(mesh)":
                it.call_method(r0, "reload", [m0])
                got = r0
            elif how == "copy()":
                got = it.call_method(r0, "copy", [])
            else:
                got = it.call_method(r0, "copy", [m0])
            fresh = it.call(cls, [m0, el0, qd0], dict(grad=True))
        finally:
            ring.ORDER_ORACLE[0] = None
        bad = _same_cached(it, got, fresh, names=("dXdr", "drdX", "dV", "dhdX"))
        col.add("C06.O6", "Region(uniform=True).%s after the points were moved" % how, "a re-evaluation without uniform=True measures every cell of the current mesh (equal to a general region created on it)",
                not bad, "%s: arrays %s are not those of the general evaluation" % (method_where(cls, "reload"), bad))
    finish_info(col, it)


CACHED = ("h", "dhdr", "dXdr", "drdX", "dV", "dhdX", "d2hdrdr", "d2hdXdX")


def _same_cached(it, a, b, names=CACHED):
    # first pass: entries that are certainly different (cheap, sound) -- a region whose basis arrays are stale differs in many huge
    # rational expressions, and proving the *remaining* entries equal is expensive and beside the point
    bad = []
    for nm in names:
        x, y = npmodel.to_obj(np.asarray(it.getattr(a, nm))), npmodel.to_obj(np.asarray(it.getattr(b, nm)))
        if x.shape != y.shape or any(ring.quick_nonzero(P(u) - P(v)) for u, v in zip(x.reshape(-1), y.reshape(-1))):
            bad.append(nm)
    if bad:
        return bad
    for nm in names:
        x, y = npmodel.to_obj(np.asarray(it.getattr(a, nm))), npmodel.to_obj(np.asarray(it.getattr(b, nm)))
        if x.shape != y.shape or any(not is_zero(P(u) - P(v)) for u, v in zip(x.reshape(-1), y.reshape(-1))):
            bad.append(nm)
    return bad


def run_cache(col):
    """O7: the cached arrays (h, dhdr, dXdr, drdX, dV, dhdX, d2hdrdr, d2hdXdX) of copies / dtype casts carry the values of the arrays of
    the same name; after the mesh points have changed, reload() / copy() recompute them for the current points"""
    it = new_interp()
    d, na, nq, nc = 2, 3, 2, 2
    cls = it.get("felupe.region._region:Region")
    w = method_where(cls, "astype")
    pos = lambda a, b, op: ({"<": False, "<=": False, ">": True, ">=": True}[op] if (b.is_const() and b.const_value() == 0) else None)
    ring.ORDER_ORACLE[0] = pos
    try:
        reg, mesh, el, qd = make_region(it, d, na, nq, nc, hess=True)
        f32 = it.getattr(it.externals["numpy"], "float32") if hasattr(it, "externals") else None
        for copy in (True, False):
            src = it.call_method(reg, "copy", [])
            bad0 = _same_cached(it, src, reg)
            cast = it.call_method(src, "astype", [f32], dict(copy=copy))
            bad = _same_cached(it, cast, reg)
            col.add("C06.O7", "Region.astype(copy=%s)" % copy, "every cached array of the cast region carries the values of the original's array of the same name (basis, geometry, volumes, first and second physical derivatives)",
                    not bad and not bad0, "%s: differing arrays %s (after copy(): %s)" % (w, bad, bad0))
            col.add("C06.O7", "Region.astype(copy=%s) identity" % copy, "copy=True returns a new region and leaves the original's arrays in place; copy=False returns the region itself", (cast is not src) == copy)
        # the mesh points move (mesh.update / in-place change), then the region is reloaded
        w = method_where(cls, "reload")
        newpts = symarray("Y", mesh.points.shape)
        fresh_mesh = micro.FakeMesh(mesh.cells.tolist(), mesh.npoints, d)
        fresh_mesh.points = newpts
        fresh = it.call(cls, [fresh_mesh, el, qd], dict(grad=True, hess=True))
        for how in ("reload()", "reload(mesh)", "copy()", "copy(mesh)"):
            r0 = it.call(cls, [micro.FakeMesh(mesh.cells.tolist(), mesh.npoints, d), el, qd], dict(grad=True, hess=True))
            m0 = it.getattr(r0, "mesh")
            m0.points = newpts
            if how == "reload()":
                it.call_method(r0, "reload", [])
                got = r0
            elif how == "reload(mesh)":
                it.call_method(r0, "reload", [m0])
                got = r0
            elif how == "copy()":
                got = it.call_method(r0, "copy", [])
            else:
                got = it.call_method(r0, "copy", [m0])
            bad = _same_cached(it, got, fresh)
            col.add("C06.O7", "Region.%s after the mesh points changed" % how, "the cached arrays are recomputed for the current mesh points (equal to those of a region created on the moved mesh)",
                    not bad, "%s: stale arrays %s" % (w, bad))
        # one element object serves two regions with different quadrature rules (tools.extrapolate builds a helper region with the region's own
        # element and the inverted rule): re-evaluating the first region -- with the mesh only -- still evaluates the basis at *its* rule
        qd2 = QPoints(nq, d)
        qd2.points = list(reversed(qd.points))
        for how in ("reload()", "reload(mesh)", "copy()", "copy(mesh)"):
            m1 = micro.FakeMesh(mesh.cells.tolist(), mesh.npoints, d)
            r1 = it.call(cls, [m1, el, qd], dict(grad=True, hess=True))
            it.call(cls, [micro.FakeMesh(mesh.cells.tolist(), mesh.npoints, d), el, qd2], dict(grad=False))
            if how == "reload()":
                it.call_method(r1, "reload", [])
                got = r1
            elif how == "reload(mesh)":
                it.call_method(r1, "reload", [m1])
                got = r1
            elif how == "copy()":
                got = it.call_method(r1, "copy", [])
            else:
                got = it.call_method(r1, "copy", [m1])
            bad = _same_cached(it, got, reg)
            col.add("C06.O7", "Region.%s after another region was built with the same element object" % how,
                    "the basis arrays of a region are those of its own quadrature rule, whatever other region used the element in between", not bad, "%s: arrays %s belong to the other region's rule" % (w, bad))
        # the region's public attributes are its inputs: after the rule (same number of points, other points and weights) or the element was
        # exchanged on the region, reload() / copy() give the region a fresh construction from (mesh, element, quadrature) gives -- no basis
        # array of the former rule survives next to the new weights
        qd3 = QPoints(nq, d)
        qd3.points = list(reversed(qd.points))
        qd3.weights = symarray("w3", (nq,), positive=True)
        el3 = OpaqueElement(na, d, nq)
        el3.H, el3.D, el3.H2 = symarray("G", (na, nq)), el3.D * 3, el3.H2 * 5
        for what, (e_, q_) in (("quadrature", (el, qd3)), ("element", (el3, qd))):
            fresh3 = it.call(cls, [micro.FakeMesh(mesh.cells.tolist(), mesh.npoints, d), e_, q_], dict(grad=True, hess=True))
            for how in ("reload()", "copy()"):
                r3 = it.call(cls, [micro.FakeMesh(mesh.cells.tolist(), mesh.npoints, d), el, qd], dict(grad=True, hess=True))
                it.setattr(r3, what, q_ if what == "quadrature" else e_)
                got = it.call_method(r3, "copy", []) if how == "copy()" else (it.call_method(r3, "reload", []), r3)[1]
                bad = _same_cached(it, got, fresh3)
                col.add("C06.O7", "Region.%s after region.%s was exchanged" % (how, what),
                        "every cached array is re-evaluated from the region's current mesh, element and quadrature (equal to a region created from them)", not bad, "%s: stale arrays %s" % (w, bad))
    finally:
        ring.ORDER_ORACLE[0] = None
    finish_info(col, it)


def run_warning_mixed(col):
    """one wrongly oriented cell next to a well oriented, larger one (separate points): the sign of an expression is decided from the
    points it mentions -- only the first cell's points: negative; anything that involves the second cell (any sum over cells): positive"""
    import re

    na = 3
    it = new_interp()

    def oracle(a, b, op):
        if not (b.is_const() and b.const_value() == 0):
            return None
        ids = set(int(m) for m in re.findall(r"X\[(\d+),", ring.fmt(a, maxterms=10 ** 6)))
        if not ids:
            return None
        neg = max(ids) < na
        return {"<": neg, "<=": neg, ">": not neg, ">=": not neg}[op]

    ring.ORDER_ORACLE[0] = oracle
    try:
        reg, mesh, el, qd = make_region(it, 2, na, 2, 2, shared=False)
    finally:
        ring.ORDER_ORACLE[0] = None
    warns = [e for e in it.events if e[0] == "warn"]
    w = method_where(it.get("felupe.region._region:Region"), "reload")
    dV = it.getattr(reg, "dV")
    ok_scn = all(re.findall(r"X\[(\d+),", ring.fmt(P(dV[q, 0]), maxterms=10 ** 6)) and max(int(m) for m in re.findall(r"X\[(\d+),", ring.fmt(P(dV[q, 0]), maxterms=10 ** 6))) < na for q in range(dV.shape[0]))
    col.add("C06.O3", "scenario: the first cell's differential volumes mention its own points only", "non-degeneracy of the mixed-orientation scenario", ok_scn and dV.shape == (2, 2), "dV shape %s" % (dV.shape,))
    col.add("C06.O3", "Region.reload warning (one wrongly oriented cell outweighed by the others)", "a warning is issued whenever some differential volume is negative -- also when the sum over the cells is positive",
            len(warns) == 1, "%s: %d warnings" % (w, len(warns)))
    msg = str(warns[0][1]) if warns else ""
    finish_info(col, it)


def run_warning(col):
    w = None
    for case in ("negative", "positive"):
        it = new_interp()

        def oracle(a, b, op, case=case):
            if b.is_const() and b.const_value() == 0:
                neg = case == "negative"
                return {"<": neg, "<=": neg, ">": not neg, ">=": not neg}[op]
            return None

        ring.ORDER_ORACLE[0] = oracle
        try:
            reg, mesh, el, qd = make_region(it, 2, 3, 2, 2)
        finally:
            ring.ORDER_ORACLE[0] = None
        warns = [e for e in it.events if e[0] == "warn"]
        w = method_where(it.get("felupe.region._region:Region"), "reload")
        if case == "negative":
            col.add("C06.O3", "Region.reload warning (dV < 0)", "a warning is issued whenever some differential volume is negative", len(warns) == 1, "%s: %d warnings" % (w, len(warns)))
        else:
            col.add("C06.O3", "Region.reload no warning (dV > 0)", "no warning for positively oriented cells", len(warns) == 0, "%s: %s" % (w, warns[:1]))
            # history: the region was created on a valid mesh; the mesh points are then moved in place so that cells turn inside out, and the
            # region is re-evaluated in one of the documented ways -- with the mesh, without any argument, through copy() / astype()
            neg_oracle = lambda a, b, op: ({"<": True, "<=": True, ">": False, ">=": False}[op] if (b.is_const() and b.const_value() == 0) else None)
            for how in ("reload(mesh)", "reload()", "reload(hess=True)", "copy()", "astype(float32)"):
                n0 = len([e for e in it.events if e[0] == "warn"])
                mesh.points = symarray("Xmirrored", mesh.points.shape)
                ring.ORDER_ORACLE[0] = neg_oracle
                try:
                    if how == "reload(mesh)":
                        it.call_method(reg, "reload", [], dict(mesh=mesh))
                    elif how == "reload()":
                        it.call_method(reg, "reload", [], {})
                    elif how == "reload(hess=True)":
                        it.call_method(reg, "reload", [], dict(hess=True))
                    elif how == "copy()":
                        it.call_method(reg, "copy", [], {})
                    else:
                        it.call_method(reg, "astype", [it.getattr(it.externals["numpy"], "float32")], {})
                    err = None
                except (InterpRaise, ring.Undecided) as e:
                    err = str(e)
                finally:
                    ring.ORDER_ORACLE[0] = None
                n1 = len([e for e in it.events if e[0] == "warn"])
                if err is not None:
                    col.undecided("C06.O3", "Region.%s after the mesh was inverted in place" % how, "warning", err[:200])
                else:
                    col.add("C06.O3", "Region.%s after the mesh was inverted in place" % how, "every re-evaluation that yields a negative differential volume reports it by a warning (with or without a mesh argument)",
                            n1 - n0 >= 1, "%s: %d warnings" % (w, n1 - n0))
        finish_info(col, it)


def run_fields(col):
    it = new_interp()
    from .c02 import regions
    ra, rb = regions(2)
    ra.d2hdXdX = symarray("d2hA", (2, 2, 2, 2, 2))
    nq, nc, d = 2, 2, 2
    cells = ra.mesh.cells
    for cname, dim in (("Field", 2), ("Field", 1), ("FieldPlaneStrain", 2), ("FieldAxisymmetric", 2)):
        f = micro.make_fields(it, [(cname, dim, 0)], ra, rb)[0]
        U = symarray("U", (ra.mesh.npoints, dim))
        it.setattr(f, "values", U)
        cls = f.cls
        interp = it.call_method(f, "interpolate", [])
        grad = it.call_method(f, "grad", [])
        pad = cname != "Field"
        badi, badg = [], []
        for q in range(nq):
            for c in range(nc):
                for i in range(dim):
                    want = sum((U[cells[c, a], i] * ra.h[a, q, 0] for a in range(2)), ZERO)
                    if not is_zero(P(interp[i, q, c]) - want):
                        badi.append((i, q, c))
                    for J in range(d):
                        want = sum((U[cells[c, a], i] * ra.dhdX[a, J, q, c] for a in range(2)), ZERO)
                        if not is_zero(P(grad[i, J, q, c]) - want):
                            badg.append((i, J, q, c))
        exp_i = (3 if pad else dim, nq, nc)
        exp_g = (3 if pad else dim, 3 if pad else d, nq, nc)
        if pad:
            badi += [("pad", q, c) for q in range(nq) for c in range(nc) if P(interp[2, q, c]).t]
        col.add("C06.O4", "%s(dim=%d).interpolate" % (cname, dim), "interpolate[i,q,c] == sum_a u[cells[c,a], i] h[a,q] (zero third component for the 2d field kinds)",
                interp.shape == exp_i and not badi, "%s: shape %s bad %s" % (method_where(cls, "interpolate"), interp.shape, badi[:4]))
        if pad:
            R = sum((ra.mesh.points[cells[0, a], 1] * ra.h[a, 0, 0] for a in range(2)), ZERO)
            for q in range(nq):
                for c in range(nc):
                    for i in range(3):
                        for J in range(3):
                            if i < 2 and J < 2:
                                continue
                            v = P(grad[i, J, q, c])
                            if cname == "FieldAxisymmetric" and i == 2 and J == 2:
                                Rqc = sum((ra.mesh.points[cells[c, a], 1] * ra.h[a, q, 0] for a in range(2)), ZERO)
                                ur = sum((U[cells[c, a], 1] * ra.h[a, q, 0] for a in range(2)), ZERO)
                                if not is_zero(v * Rqc - ur):
                                    badg.append(("hoop", q, c))
                            elif v.t:
                                badg.append(("pad", i, J, q, c))
        col.add("C06.O4", "%s(dim=%d).grad" % (cname, dim),
                "grad[i,J,q,c] == sum_a u[cells[c,a], i] dhdX[a,J,q,c]; plane strain pads with zeros; axisymmetric sets [2,2] = u_r / R with u_r = component 1 and R from points[:,1]",
                grad.shape == exp_g and not badg, "%s: shape %s bad %s" % (method_where(cls, "grad"), grad.shape, badg[:4]))
        # extract: + identity (after padding) / symmetric part
        ex = it.call_method(f, "extract", [], dict(grad=True, sym=False, add_identity=True))
        n = ex.shape[0]
        bad = [(i, J) for i in range(n) for J in range(ex.shape[1]) for q in range(nq) for c in range(nc)
               if not is_zero(P(ex[i, J, q, c]) - P(grad[i, J, q, c]) - (ONE if i == J else ZERO))]
        col.add("C06.O4", "%s(dim=%d).extract" % (cname, dim), "extract(grad, add_identity) == grad + 1 (3x3 identity after padding: F33 = 1 in plane strain, 1 + u_r/R axisymmetric)",
                not bad and ex.shape[0] == ex.shape[1] if dim > 1 else not bad, str(bad[:4]))
        exs = it.call_method(f, "extract", [], dict(grad=True, sym=True, add_identity=False)) if dim > 1 else ex
        bad = [(i, J) for i in range(exs.shape[0]) for J in range(exs.shape[1]) for q in range(nq) for c in range(nc)
               if exs.shape[0] == exs.shape[1] and not is_zero(P(exs[i, J, q, c]) - (P(grad[i, J, q, c]) + P(grad[J, i, q, c])) * Fraction(1, 2))]
        if dim > 1:
            col.add("C06.O4", "%s(dim=%d).extract sym" % (cname, dim), "extract(sym=True) == (grad + grad^T)/2", not bad, str(bad[:4]))
        exv = it.call_method(f, "extract", [], dict(grad=False))
        col.add("C06.O4", "%s(dim=%d).extract values" % (cname, dim), "extract(grad=False) == interpolate()",
                all(is_zero(P(a) - P(b)) for a, b in zip(exv.reshape(-1), interp.reshape(-1))))
        if cname in ("Field", "FieldPlaneStrain"):
            hs = it.call_method(f, "hess", [])
            bad = []
            for q in range(nq):
                for c in range(nc):
                    for i in range(dim):
                        for J in range(d):
                            for K in range(d):
                                want = sum((U[cells[c, a], i] * ra.d2hdXdX[a, J, K, q, c] for a in range(2)), ZERO)
                                if not is_zero(P(hs[i, J, K, q, c]) - want):
                                    bad.append((i, J, K, q, c))
            if pad:
                bad += [("pad",) + idx for idx in np.ndindex(3, 3, 3) if max(idx) == 2 and any(P(hs[idx + (q, c)]).t for q in range(nq) for c in range(nc))]
            col.add("C06.O4", "%s(dim=%d).hess" % (cname, dim), "hess[i,J,K,q,c] == sum_a u[cells[c,a], i] d2hdXdX[a,J,K,q,c] (zero-padded for plane strain)", not bad, str(bad[:4]))
    finish_info(col, it)


# ------------------------------------------------------------------------------------------
def poly_degrees(p, X):
    """(per-axis degrees, total degree) of a polynomial in the generators X"""
    gids = [next(iter(x.t))[0][0] for x in X]
    per = [0] * len(X)
    tot = 0
    for m in P(p).t:
        dm = dict(m)
        es = [int(dm.get(g, 0)) for g in gids]
        per = [max(a, b) for a, b in zip(per, es)]
        tot = max(tot, sum(es))
    return per, tot


SIMPLEX_RULES = {"Triangle", "Tetrahedron"}


def run_templates(col, tier):
    """O5: pairing of each template's element with its default quadrature rule (extracted by evaluating the template's
    __init__ with Region.__init__ / RegionBoundary.__init__ intercepted)"""
    it = new_interp()
    mod = it.module("felupe.region._templates")
    base = it.get("felupe.region._region:Region")
    found = classes_in(it, "felupe.region._templates", base)
    col.info["templates"] = [c.name for c in found]
    captured = {}

    def hook_region(interp, fn, args, kwargs):
        captured["element"] = args[2] if len(args) > 2 else kwargs.get("element")
        captured["quadrature"] = args[3] if len(args) > 3 else kwargs.get("quadrature")
        captured["grad"] = kwargs.get("grad", True)
        return None

    it.call_hooks[("felupe.region._region", "Region.__init__")] = hook_region
    it.call_hooks[("felupe.region._boundary", "RegionBoundary.__init__")] = hook_region
    for cls in found:
        name = cls.name
        captured.clear()
        mesh = micro.FakeMesh([[0, 1, 2]], 3, 2)
        try:
            if name == "RegionLagrange":
                for order, dim in ((1, 2), (2, 2), (3, 2), (2, 3), (3, 1)):
                    captured.clear()
                    it.call(cls, [mesh], dict(order=order, dim=dim))
                    el, qd = captured["element"], captured["quadrature"]
                    okk = el.cls.name == "ArbitraryOrderLagrange" and qd.cls.name == "GaussLegendre" \
                        and npmodel.to_obj(it.getattr(el, "points")).shape == ((order + 1) ** dim, dim) \
                        and npmodel.to_obj(it.getattr(qd, "points")).shape == ((order + 1) ** dim, dim)
                    col.add("C06.O5", "RegionLagrange(order=%d, dim=%d)" % (order, dim), "builds GaussLegendre(order, dim) and ArbitraryOrderLagrange(order, dim) from the same arguments (per-axis gradient-product degree 2*order <= 2*order+1)", okk)
                continue
            it.call(cls, [mesh], {})
        except InterpRaise as e:
            col.undecided("C06.O5", name, "template pairing", "template constructor could not be evaluated: %s" % e)
            continue
        el, qd = captured.get("element"), captured.get("quadrature")
        if el is None or qd is None:
            col.undecided("C06.O5", name, "template pairing", "element / quadrature not captured")
            continue
        ename, qname = el.cls.name, qd.cls.name
        pts = npmodel.to_obj(it.getattr(el, "points"))
        dim = pts.shape[1]
        enriched = "MINI" in ename
        boundary = name.endswith("Boundary")
        if not captured.get("grad", True) or ename.startswith("Constant") or ename == "Vertex":
            col.add("C06.O5", name, "constant / vertex template: no gradients to integrate (grad=False by default)", not captured.get("grad", True), "%s with %s" % (ename, qname), nontrivial=False)
            continue
        X = [sym(n) for n in "rst"[:dim]]
        rst = np.empty(dim, dtype=object)
        for i in range(dim):
            rst[i] = X[i]
        g = npmodel.to_obj(np.asarray(it.call_method(el, "gradient", [rst])))
        # the isoparametric map x = sum_a h_a(r) X_a (and with it dXdr, dV, dhdX) is unchanged by a translation of the mesh iff the derivatives
        # of the shape functions sum to zero -- "differential volumes ... unchanged by rigid motion"
        if not boundary:
            sums = [sum((P(g[a, K]) for a in range(g.shape[0])), ZERO) for K in range(dim)]
            inv_ok = all(is_zero(v) for v in sums)
            col.add("C06.O12", "%s:geometry-under-translation" % name, "sum_a d h_a / d r_K == 0 for the template's element: dXdr = sum_a X_a (x) dh_a/dr (hence dV and dhdX) does not change when the mesh is translated",
                    inv_ok, "%s (%s): sum_a dh_a/dr = %s -- a translation T of the mesh adds T (x) this vector to dXdr" % (name, ename, [ring.fmt(v, 4) for v in sums]))
        per = [0] * dim
        tot = 0
        for v in g.reshape(-1):
            p_, t_ = poly_degrees(v, X)
            per = [max(a, b) for a, b in zip(per, p_)]
            tot = max(tot, t_)
        # documented exactness of the default rule (C05 spec)
        qorder = None
        qpts = npmodel.to_obj(it.getattr(qd, "points"))
        if qname in ("GaussLegendre", "GaussLegendreBoundary"):
            n1 = round(qpts.shape[0] ** (1.0 / (qpts.shape[1] - (1 if qname.endswith("Boundary") else 0))))
            exact_axis = 2 * n1 - 1
            need = [2 * x for x in per]
            if boundary:
                need = need[:-1]  # the rule lives on the facet (last reference coordinate fixed)
            okk = all(x <= exact_axis for x in need)
            detail = "%s gradients per-axis degree %s -> products %s; %s with %d points per axis exact to %d" % (ename, per, need, qname, n1, exact_axis)
            dim_ok = qpts.shape[1] == dim
        else:
            # simplex rules: total degree = order; recover the order from the number of points
            order = {("Triangle", 1): 1, ("Triangle", 3): 2, ("Triangle", 4): 3, ("Triangle", 7): 5,
                     ("Tetrahedron", 1): 1, ("Tetrahedron", 4): 2, ("Tetrahedron", 5): 3, ("Tetrahedron", 14): 5}.get((qname, qpts.shape[0]))
            need = 2 * tot
            okk = order is not None and need <= order
            detail = "%s gradients total degree %d -> products %d; %s order %s" % (ename, tot, need, qname, order)
            dim_ok = qpts.shape[1] == dim
        if enriched:
            col.add("C06.O5", name, "enriched (MINI) template: excluded from the exactness clause by the property; element/rule dimensions agree", dim_ok, detail, nontrivial=False)
        else:
            col.add("C06.O5", name, "default quadrature integrates products of the template element's gradients exactly on affine cells; dimensions agree", okk and dim_ok, detail)
    finish_info(col, it)

def run_included(col, modname, fname, kwargs, oid, why, select_oid=None):
    from ..common import include

    include(col, modname, fname, kwargs, oid, why, select_oid=select_oid)
