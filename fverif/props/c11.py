"""C11 -- frame indifference and balance laws of the finite-strain models (DESIGN.md section 3, C11)."""

import ast
from fractions import Fraction

import numpy as np

from .. import ring, npmodel, admodels
from ..ring import P, sym, diff, is_zero, subs, ZERO, ONE, Poly
from ..common import new_interp, finish_info, method_where, list_modules
from ..interp import InterpRaise, FunctionValue

SPEC = dict(
    level="proof",
    rule="hand-coded models (NeoHooke x3, Volumetric, NeoHookeCompressible x2, LinearElasticLargeStrain, OgdenRoxburgh over NeoHooke): "
    "evaluated on a symbolic F; P(QF) == Q P(F) and P(FQ) == P(F) Q for a symbolic rotation Q about each coordinate axis (c, s "
    "with the relation s^2 = 1 - c^2 imposed as a rewrite rule; the three axis rotations generate SO(3)); P F^T symmetric; "
    "A[i,j,k,l] == A[k,l,i,j]; P(F = 1) == 0. AD models (discovered: every function under */models/hyperelastic): W depends "
    "on F only through C (wrapper, C03.O9); stress-free reference: dW/dC at C = 1 == 0 entry-wise (full symmetric C) or dW/ds at "
    "s = 1 on the ray C = s 1 for eigenvalue-based isotropic models, symbolic parameters; isotropy W(Q^T C Q) == W(C) for models "
    "not going through an opaque eigen-decomposition (those use C only under eigvalsh/trace/det: checked on the AST); isochoric "
    "models: W(k C) == W(C). @total_lagrange/@updated_lagrange materials: the deformation gradient is used only inside F.T @ F, det(F) (def-use rule).",
    trusted_base=[
        "numpy object-array semantics; summaries of tensortrax.math / jax.numpy (fverif/admodels.py)",
        "the three coordinate-axis rotations generate SO(3) (equivariance for generators and all F implies it for all rotations)",
        "eigvalsh returns a symmetric function of the eigenvalues' multiset (isotropy of eigenvalue-based energies)",
        "table of models documented as isochoric / anisotropic (spec) in fverif/props/c11.py",
    ],
    explanation="algebraic value numbering in the quotient ring Q[...][c,s]/(c^2+s^2-1); jets at the reference state",
    exhaustive=True,
    not_decided=["rotating a numerical deformation (replaced by symbolic axis rotations / by-construction rules)",
                 "MORPH-type Lagrange models at the exact reference state (0/0 at the virgin state: documented non-smooth point)"],
    assumptions=["real arithmetic", "generic point"],
)

FLOORS = {"AD model functions": ("ad_models", 28), "hand-coded configurations": ("hand_configs", 8)}

# spec tables (from the docstrings and the property text)
ANISOTROPIC = {"saint_venant_kirchhoff_orthotropic"}
MICROSPHERE = {"miehe_goektepe_lulei", "morph_representative_directions", "affine_stretch", "affine_stretch_statevars", "affine_tube",
               "affine_tube_statevars", "nonaffine_stretch", "nonaffine_tube"}
ISOCHORIC = {"neo_hooke", "yeoh", "mooney_rivlin", "third_order_deformation", "arruda_boyce", "anssari_benam_bucchi", "lopez_pamies",
             "ogden", "extended_tube", "alexander", "miehe_goektepe_lulei", "finite_strain_viscoelastic", "van_der_waals"}
TENSORTRAX_INTERNALS = {"ogden_roxburgh", "morph_representative_directions"}  # use dual-number internals / history switches

HAND = [
    ("NeoHooke(mu,bulk)", "hyperelasticity._neo_hooke_nearly_incompressible:NeoHooke", dict(mu="mu", bulk="bulk")),
    ("NeoHooke(mu)", "hyperelasticity._neo_hooke_nearly_incompressible:NeoHooke", dict(mu="mu")),
    ("NeoHooke(bulk)", "hyperelasticity._neo_hooke_nearly_incompressible:NeoHooke", dict(bulk="bulk")),
    ("Volumetric", "hyperelasticity._volumetric:Volumetric", dict(bulk="bulk")),
    ("NeoHookeCompressible(mu,lmbda)", "hyperelasticity._neo_hooke_compressible:NeoHookeCompressible", dict(mu="mu", lmbda="lmbda")),
    ("NeoHookeCompressible(mu)", "hyperelasticity._neo_hooke_compressible:NeoHookeCompressible", dict(mu="mu")),
    ("LinearElasticLargeStrain", "linear_elasticity._linear_elastic_large_strain:LinearElasticLargeStrain", dict(E="E", nu="nu")),
    ("OgdenRoxburgh(NeoHooke)", None, None),
]


def _ad_models(it):
    out = []
    for backend in ("tensortrax", "jax"):
        for mn in list_modules("felupe.constitution.%s.models.hyperelastic" % backend):
            last = mn.split(".")[-1]
            if not last.startswith("_") or "microsphere" in mn:
                continue
            m = it.module(mn)
            for n in m.tree.body:
                if isinstance(n, ast.FunctionDef) and not n.name.startswith("_"):
                    out.append((backend, mn, n.name))
    return out


def tasks(tier):
    it = admodels.new_model_interp()
    ts = [("discovery", "run_discovery", {})]
    for label, _, _ in HAND:
        ts.append(("hand %s" % label, "run_hand", dict(label=label)))
    for backend, mn, name in _ad_models(it):
        ts.append(("ad %s.%s" % (backend, name), "run_ad", dict(backend=backend, modname=mn, name=name)))
    ts.append(("wrappers", "run_wrappers", {}))
    # objectivity by construction: the AD back ends (tensortrax and jax wrappers, incl. as_total_lagrange) hand the model functions C = F^T F only
    ts.append(("AD wrapper algebra", "run_included", dict(modname="c03", fname="run_wrappers", kwargs={}, oid="C11.O2",
                                                      why="frame indifference of every AD model rests on the wrapper evaluating the energy at F^T F and pushing S, D forward with F")))
    ts.append(("lagrange def-use", "run_lagrange_defuse", {}))
    # sibling cross-check of the Lagrange (stress-based) models: their stress contains opaque matrix functions (expm, eigh), so its symmetry
    # cannot be decided entry-wise; the two backends' implementations of one model must at least denote the same function
    from . import c12
    for jm, tm, nm in c12._pairs(it):
        if ".lagrange" in jm:
            ts.append(("sibling %s" % nm, "run_included", dict(modname="c12", fname="run_pair", kwargs=dict(jmod=jm, tmod=tm, name=nm), oid="C11.O9", select_oid="C12.O1",
                                                             why="a Lagrange model whose two backend implementations differ deviates, in at least one of them, from the model whose Kirchhoff stress is symmetric")))
    # the public micro-sphere building blocks (affine / non-affine stretch and tube parts): user-defined models are assembled from them
    for backend in ("tensortrax", "jax"):
        ts.append(("micro-sphere framework %s" % backend, "run_framework", dict(backend=backend)))
    ts.append(("canary", "run_canary", {}))
    return ts


def run_discovery(col):
    it = admodels.new_model_interp()
    ms = _ad_models(it)
    col.info["ad_models"] = ["%s.%s" % (b, n) for b, _, n in ms]
    col.info["hand_configs"] = [h[0] for h in HAND]
    finish_info(col, it)


# ------------------------------------------------------------------------------------------
def make_hand(it, label):
    base = "felupe.constitution."
    for lab, path, kw in HAND:
        if lab == label:
            break
    if path is None:
        nh = it.call(it.get(base + "hyperelasticity._neo_hooke_nearly_incompressible:NeoHooke"), [], dict(mu=sym("mu", True), bulk=sym("bulk", True)))
        cls = it.get(base + "hyperelasticity._ogden_roxburgh:OgdenRoxburgh")
        return cls, it.call(cls, [], dict(material=nh, r=sym("r", True), m=sym("m", True), beta=sym("beta", True)))
    cls = it.get(base + path)
    return cls, it.call(cls, [], {k: sym(v, True) for k, v in kw.items()})


def Fsym():
    F = np.empty((3, 3, 1, 1), dtype=object)
    for i in range(3):
        for j in range(3):
            F[i, j, 0, 0] = sym("F%d%d" % (i, j))
    return F


def rot(axis, c, s):
    Q = np.empty((3, 3), dtype=object)
    Q[...] = ZERO
    a, b = [(1, 2), (2, 0), (0, 1)][axis]
    Q[axis, axis] = ONE
    Q[a, a] = c
    Q[b, b] = c
    Q[a, b] = -s
    Q[b, a] = s
    return Q


def matmul4(Q, F):
    out = np.empty(F.shape, dtype=object)
    for i in range(3):
        for j in range(3):
            acc = ZERO
            for k in range(3):
                acc = acc + Q[i, k] * F[k, j, 0, 0]
            out[i, j, 0, 0] = acc
    return out


def run_hand(col, label):
    it = new_interp()
    cls, umat = make_hand(it, label)
    F = Fsym()
    is_or = label.startswith("OgdenRoxburgh")
    sv = npmodel.zeros((0, 1, 1))
    cases = [None]
    if is_or:
        sv = np.empty((1, 1, 1), dtype=object)
        sv[0, 0, 0] = sym("Wmax_n", True)
        cases = ["first", "second"]
    wg, wh = method_where(cls, "gradient"), method_where(cls, "hessian")
    for case in cases:
        tag = label + ("" if case is None else "[max=%s]" % case)
        npmodel.MAX_CASE[0] = case
        try:
            P_ = it.call_method(umat, "gradient", [[F, sv]])[0]
            A_ = it.call_method(umat, "hessian", [[F, sv]])[0]
            # O1: Kirchhoff stress symmetric
            bad = []
            for i in range(3):
                for j in range(i + 1, 3):
                    t = ZERO
                    for k in range(3):
                        t = t + P_[i, k, 0, 0] * F[j, k, 0, 0] - P_[j, k, 0, 0] * F[i, k, 0, 0]
                    if not is_zero(t):
                        bad.append((i, j))
            col.add("C11.O1", "%s P F^T" % tag, "Kirchhoff stress P F^T is symmetric (identically in F and the parameters)", not bad, "%s: entries %s" % (wg, bad))
            # O4: major symmetry
            bad = [(i, j, k, l) for i, j, k, l in np.ndindex(3, 3, 3, 3) if (i, j) < (k, l) and not is_zero(A_[i, j, k, l, 0, 0] - A_[k, l, i, j, 0, 0])]
            col.add("C11.O4", "%s major symmetry" % tag, "elasticity tensor A[i,j,k,l] == A[k,l,i,j]", not bad, "%s: entries %s" % (wh, bad[:6]))
            # O5: stress-free reference state (virgin state: stored maximum 0 -> primary case only)
            if case in (None, "first"):
                at1 = {F[i, j, 0, 0]: (ONE if i == j else ZERO) for i in range(3) for j in range(3)}
                if is_or:
                    at1[sv[0, 0, 0]] = ZERO
                bad = [(i, j) for i in range(3) for j in range(3) if not is_zero(subs(P_[i, j, 0, 0], at1))]
                col.add("C11.O5", "%s reference state" % tag, "P(F = 1) == 0 for all parameters (virgin state)", not bad, "%s: entries %s" % (wg, bad))
            # O-rot: frame indifference and isotropy with symbolic axis rotations
            c, s = sym("rc"), sym("rs")
            ring.set_rewrite(s, 2, ONE - c * c)
            try:
                for axis in range(3):
                    Q = rot(axis, c, s)
                    PQ = it.call_method(umat, "gradient", [[matmul4(Q, F), sv]])[0]
                    bad = []
                    for i in range(3):
                        for j in range(3):
                            want = ZERO
                            for k in range(3):
                                want = want + Q[i, k] * P_[k, j, 0, 0]
                            if not is_zero(PQ[i, j, 0, 0] - want):
                                bad.append((i, j))
                    col.add("C11.O2", "%s P(QF) axis %d" % (tag, axis), "superposed rigid rotation: P(Q F) == Q P(F) for a symbolic rotation about the axis", not bad,
                            "%s: entries %s" % (wg, bad))
                    # material isotropy: P(F Q) == P(F) Q
                    FQ = np.empty(F.shape, dtype=object)
                    for i in range(3):
                        for j in range(3):
                            acc = ZERO
                            for k in range(3):
                                acc = acc + F[i, k, 0, 0] * Q[k, j]
                            FQ[i, j, 0, 0] = acc
                    PFQ = it.call_method(umat, "gradient", [[FQ, sv]])[0]
                    bad = []
                    for i in range(3):
                        for j in range(3):
                            want = ZERO
                            for k in range(3):
                                want = want + P_[i, k, 0, 0] * Q[k, j]
                            if not is_zero(PFQ[i, j, 0, 0] - want):
                                bad.append((i, j))
                    col.add("C11.O7", "%s P(FQ) axis %d" % (tag, axis), "isotropy: rotating the reference configuration rotates the stress, P(F Q) == P(F) Q", not bad,
                            "%s: entries %s" % (wg, bad))
            finally:
                ring.clear_rewrites()
        finally:
            npmodel.MAX_CASE[0] = None
    finish_info(col, it)


# ------------------------------------------------------------------------------------------
def _params(it, fn_node, fobj):
    kw = {}
    try:
        kwattr = it.getattr(fobj, "kwargs")
    except InterpRaise:
        kwattr = {}
    names = [a.arg for a in fn_node.args.args]
    ndef = len(fn_node.args.defaults)
    for i, pn in enumerate(names):
        if pn in ("C", "statevars", "Cin", "Wmax_n", "material"):
            continue
        if i >= len(names) - ndef:
            continue  # parameters with a default in the signature (k=2, eps) keep it
        d = kwattr.get(pn, 0)
        if isinstance(d, (list, tuple)):
            # series models (ogden, storakers) are evaluated with two terms: the attached defaults have one, which hides any mix-up between terms
            nterms = max(2, len(d)) if fn_node.name in ("ogden", "storakers") else len(d)
            kw[pn] = [sym("par_%s%d" % (pn, k), True) for k in range(nterms)]
        else:
            kw[pn] = sym("par_" + pn, True)
    return kw, names


def exact_sphere_rule(it):
    """micro-sphere models: the 21-point rule is replaced by an exact octahedral 3-point rule (axes, weights 1/3), which
    has the exact second moments that C05 proves for the real rule up to its literal precision; the
    reference-state and isochoric clauses are then decided for any rule with sum_a w_a r_a (x) r_a = 1/3"""
    def hook(interp, fn, args, kwargs):
        self = args[0]
        pts = npmodel.array([[1, 0, 0], [0, 1, 0], [0, 0, 1]], dtype=npmodel.DType("float"))
        w = npmodel.array([Fraction(1, 3)] * 3, dtype=npmodel.DType("float"))
        interp.setattr(self, "points", pts)
        interp.setattr(self, "weights", w)
        interp.setattr(self, "npoints", 3)
        interp.setattr(self, "dim", 3)
        return None
    it.call_hooks[("felupe.quadrature._sphere", "BazantOh.__init__")] = hook


def run_ad(col, backend, modname, name):
    it = admodels.new_model_interp()
    if name in MICROSPHERE:
        exact_sphere_rule(it)
    pkg = modname.rsplit(".", 1)[0]
    it.module(pkg)  # attaches .kwargs
    fobj = it.get(modname + ":" + name)
    m = it.module(modname)
    node = [n for n in m.tree.body if isinstance(n, ast.FunctionDef) and n.name == name][0]
    where = "%s:%d" % (modname.replace("felupe.", ""), node.lineno)
    kw, names = _params(it, node, fobj)
    uses_eig = any(isinstance(n, ast.Name) and n.id in ("eigvalsh", "eigh") for n in ast.walk(node))
    label = "%s.%s" % (backend, name)
    extra_args = {}
    virgin = {}
    if name == "finite_strain_viscoelastic":
        extra_args = dict(Cin=npmodel.array([1, 0, 0, 1, 0, 1], dtype=npmodel.DType("float")))
    if name == "ogden_roxburgh":
        nh = it.get("felupe.constitution.tensortrax.models.hyperelastic._neo_hooke:neo_hooke")
        extra_args = dict(Wmax_n=npmodel.zeros(1), material=nh, mu=sym("par_mu", True))
        kw.pop("mu", None)
    if name == "morph_representative_directions":
        extra_args = dict(statevars=npmodel.zeros(84))
        kw["p"] = [sym("par_p%d" % k, True) for k in range(8)]
    if name in ("saint_venant_kirchhoff_orthotropic",):
        kw["r1"], kw["r2"], kw["r3"] = [1, 0, 0], [0, 1, 0], [0, 0, 1]

    def W_of(C, **over):
        a = dict(kw)
        a.update(extra_args)
        a.update(over)
        npmodel.MAX_CASE[0] = "first"
        try:
            r = it.call(fobj, [C], a)
        finally:
            npmodel.MAX_CASE[0] = None
        if isinstance(r, tuple):
            r = r[0]
        return P(r)

    # ---- O5 stress-free reference state
    def ref_state():
        if name == "morph_representative_directions":
            raise ring.Undecided("skipped")
        if uses_eig or name in ("saint_venant_kirchhoff",):
            # isotropic, eigenvalue based: ray C = s 1
            s = sym("s", True)
            W = W_of(admodels.world_C("ray"))
            d = subs(diff(W, s), {s: ONE})
            return is_zero(d), "%s: dW/ds at the reference state = %s" % (where, ring.fmt(d, 6))
        C = admodels.world_C("full")
        W = W_of(C)
        at1 = {C[i, j]: (ONE if i == j else ZERO) for i in range(3) for j in range(i, 3)}
        bad = []
        for i in range(3):
            for j in range(i, 3):
                d = subs(diff(W, C[i, j]), at1)
                if not is_zero(d):
                    bad.append("dW/dC%d%d = %s" % (i, j, ring.fmt(d, 5)))
        return not bad, "%s: %s" % (where, "; ".join(bad[:3]))

    if name == "morph_representative_directions":
        col.add("C11.O5", "%s reference state" % label, "not decided: 0/0 at the virgin state (documented non-smooth point)", True, "skipped", nontrivial=False)
    else:
        col.check("C11.O5", "%s reference state" % label, "stress-free undeformed configuration: dW/dC == 0 at C = 1 for all parameters (virgin state)", ref_state)

    # ---- O6 isochoric models: W(k C) == W(C)
    if name in ISOCHORIC:
        def iso():
            k = sym("kscale", True)
            world = "diag" if uses_eig else "full"
            W1 = W_of(admodels.world_C(world))
            W2 = W_of(admodels.world_C(world, scale=k))
            return is_zero(W1 - W2), "%s: W(kC) - W(C) = %s" % (where, ring.fmt(W2 - W1, 5))
        col.check("C11.O6", "%s isochoric" % label, "documented as purely isochoric: W(k C) == W(C) for every k > 0", iso)

    # ---- O7 isotropy
    if name not in ANISOTROPIC and name not in MICROSPHERE and name not in TENSORTRAX_INTERNALS:
        if uses_eig:
            # by construction: C is used only under eigvalsh / det / trace
            uses = []
            for n in ast.walk(node):
                if isinstance(n, ast.Name) and n.id == "C" and isinstance(n.ctx, ast.Load):
                    uses.append(n)
            parents = {}
            for n in ast.walk(node):
                for ch in ast.iter_child_nodes(n):
                    parents[ch] = n
            bad = []
            for u in uses:
                p = parents.get(u)
                okk = False
                q = p
                # C may be wrapped in `C + diag(...)` (the jax regularisation) or `eye(C)`
                while q is not None and isinstance(q, (ast.BinOp,)):
                    q = parents.get(q)
                if isinstance(q, ast.Call) and isinstance(q.func, (ast.Name, ast.Attribute)):
                    fname = q.func.id if isinstance(q.func, ast.Name) else q.func.attr
                    okk = fname in ("eigvalsh", "det", "trace", "eye")
                if not okk:
                    bad.append("line %d: %s" % (u.lineno, ast.unparse(parents.get(u))[:60]))
            if name == "saint_venant_kirchhoff":
                # k == 2 branch uses E = (C - 1)/2 under trace(E), trace(E @ E): decided by evaluation below
                bad = []
            col.add("C11.O7", "%s isotropy (by construction)" % label, "C occurs only under eigvalsh / det / trace (isotropic invariants)", not bad, "%s: %s" % (where, bad))
        if not uses_eig or name == "saint_venant_kirchhoff":
            def isotropy():
                c, s = sym("rc"), sym("rs")
                C = admodels.world_C("full")
                W0 = W_of(C)
                ring.set_rewrite(s, 2, ONE - c * c)
                try:
                    bad = []
                    for axis in range(3):
                        Q = rot(axis, c, s)
                        Cq = np.empty((3, 3), dtype=object)
                        for i in range(3):
                            for j in range(3):
                                acc = ZERO
                                for a in range(3):
                                    for b in range(3):
                                        acc = acc + Q[a, i] * C[a, b] * Q[b, j]
                                Cq[i, j] = acc
                        Wq = W_of(Cq)
                        if not is_zero(Wq - W0):
                            bad.append(axis)
                    return not bad, "%s: W(Q^T C Q) != W(C) for axis rotations %s" % (where, bad)
                finally:
                    ring.clear_rewrites()
            col.check("C11.O7", "%s isotropy" % label, "W(Q^T C Q) == W(C) for symbolic rotations about each axis", isotropy)
    finish_info(col, it)


def run_wrappers(col):
    """objectivity by construction of the AD wrappers: C03.O9 proves P == d W(F^T F)/dF; here: P F^T symmetric and
    P(QF) == Q P(F) follow because the energy sees F only through F^T F"""
    from . import c03_wrappers
    from .c03 import Fsym as F4, same_arrays

    log = []
    it = new_interp()
    it.externals.update(c03_wrappers.tensortrax_summary(log))
    cls = it.get("felupe.constitution.tensortrax._hyperelastic:Hyperelastic")

    def Wfun(C, **kw):
        raise AssertionError("must not be evaluated")

    umat = it.call(cls, [Wfun], {})
    F = F4()
    P_ = it.call_method(umat, "gradient", [[F, None]])[0]
    A_ = it.call_method(umat, "hessian", [[F, None]])[0]
    bad = []
    for i in range(3):
        for j in range(i + 1, 3):
            t = ZERO
            for k in range(3):
                t = t + P_[i, k, 0, 0] * F[j, k, 0, 0] - P_[j, k, 0, 0] * F[i, k, 0, 0]
            if not is_zero(t):
                bad.append((i, j))
    col.add("C11.O1", "tensortrax.Hyperelastic P F^T", "P F^T symmetric for an arbitrary (opaque) energy W(C)", not bad, str(bad))
    bad = [(i, j, k, l) for i, j, k, l in np.ndindex(3, 3, 3, 3) if (i, j) < (k, l) and not is_zero(A_[i, j, k, l, 0, 0] - A_[k, l, i, j, 0, 0])]
    col.add("C11.O4", "tensortrax.Hyperelastic major symmetry", "A[i,j,k,l] == A[k,l,i,j] for an arbitrary (opaque) energy", not bad, str(bad[:5]))
    # the atoms of P depend on F only through the entries of F^T F
    C = np.einsum("ki...,kj...->ij...", F, F)
    centries = {ring._key(P(C[i, j, 0, 0])) for i in range(3) for j in range(3)}
    okk = True
    for v in P_.reshape(-1):
        for g in v.gens():
            inf = ring.G.info[g] if g > 0 else None
            if inf and inf["kind"] == "ofun":
                okk = okk and all(ring._key(a) in centries for a in inf["args"])
    col.add("C11.O2", "tensortrax.Hyperelastic objectivity", "the energy is evaluated on F^T F only (every derivative atom has the entries of F^T F as arguments) and P = F S", okk)
    finish_info(col, it)


def run_lagrange_defuse(col):
    """O3: every @total_lagrange / @updated_lagrange material is objective: with the deformation gradient in principal
    axes F = diag(a) (old state tensors full symmetric, symbolic) and a symbolic rotation Q about each axis,
    P(Q F) == Q P(F).  A spatial/material mix-up (F used outside F.T @ F / det F) breaks this identity."""
    from . import c12

    it = admodels.new_model_interp()
    n_fun = 0
    for backend in ("tensortrax", "jax"):
        for mn in list_modules("felupe.constitution.%s.models.lagrange" % backend):
            if not mn.split(".")[-1].startswith("_"):
                continue
            m = it.module(mn)
            for node in m.tree.body:
                if not isinstance(node, ast.FunctionDef) or node.name.startswith("_"):
                    continue
                params = [a.arg for a in node.args.args]
                if "F" not in params:
                    continue
                n_fun += 1
                label = "%s:%s.%s" % (backend, mn.split("models.")[1], node.name)
                fobj = it.get(mn + ":" + node.name)

                contract = []

                def chk(node=node, fobj=fobj, mn=mn, contract=contract):
                    args = c12.build_args(node, "Fdiag", {})
                    c, s = sym("rc"), sym("rs")
                    bad = []
                    for case in ("first", "second"):
                        npmodel.MAX_CASE[0] = case
                        try:
                            admodels.WORLD["contract_log"] = []
                            r0 = it.call(fobj, [], dict(args))
                            contract.extend(admodels.WORLD["contract_log"])
                            P0 = r0[0] if isinstance(r0, tuple) else r0
                            ring.set_rewrite(s, 2, ONE - c * c)
                            try:
                                for axis in range(3):
                                    Q = rot(axis, c, s)
                                    a2 = dict(args)
                                    a2["F"] = npmodel.matmul(Q, args["F"])
                                    r1 = it.call(fobj, [], a2)
                                    P1 = r1[0] if isinstance(r1, tuple) else r1
                                    want = npmodel.matmul(Q, P0)
                                    if any(not is_zero(P(x) - P(y)) for x, y in zip(P1.reshape(-1), want.reshape(-1))):
                                        bad.append("axis %d (max=%s)" % (axis, case))
                            finally:
                                ring.clear_rewrites()
                        finally:
                            npmodel.MAX_CASE[0] = None
                    return not bad, "%s:%d P(QF) != Q P(F) for %s" % (mn.replace("felupe.", ""), node.lineno, bad)

                col.check("C11.O3", label, "objective use of F in a Lagrange-wrapped material: P(Q F) == Q P(F) for symbolic axis rotations (F in principal axes)", chk)
                # tensor-valued routines that are specified for symmetric arguments only (tensortrax' eigh-based expm, eigh): with any other
                # argument their result is not symmetric-consistent, the stress S loses its symmetry and with it P F^T
                tens = sorted({r for r, _ in contract if r != "eigvalsh"})
                col.add("C11.O8", label.replace(" ", "_") + ":symmetric-argument-routines",
                        "the Kirchhoff stress of a Lagrange-wrapped model is symmetric only if the tensor-valued linear-algebra routines that assume a symmetric argument "
                        "(tensortrax.math.linalg.expm, eigh) receive one for every state (old state tensors not coaxial with the current deformation included)",
                        not tens, "%s:%d %s is called with an argument that is not symmetric for a stored state that is not coaxial with C" % (mn.replace("felupe.", ""), node.lineno, tens))
    col.info["lagrange_wrapped_functions"] = n_fun
    if n_fun < 4:
        col.undecided("C11.O3", "lagrange models", "floor", "only %d Lagrange model functions found (expected >= 4)" % n_fun)
    finish_info(col, it)


def run_canary(col):
    import os
    from ..runner import VERIF
    from ..interp import Interp

    it = Interp(src_root=os.path.join(VERIF, "fixtures"))
    it.externals.update(admodels.math_namespace(it))
    f = it.get("felupe.canary_models:mixed_invariants")
    C = admodels.world_C("full")
    W = P(it.call(f, [C], dict(mu=sym("mu", True), beta=sym("beta", True))))
    at1 = {C[i, j]: (ONE if i == j else ZERO) for i in range(3) for j in range(i, 3)}
    fired = any(not is_zero(subs(diff(W, C[i, i]), at1)) for i in range(3))
    col.info["canaries_expected"] = 1
    col.info["canaries_fired"] = 1 if fired else 0
    col.add("canary", "fixtures/canary_models.py mixed_invariants", "the reference-state rule flags an energy mixing isochoric and full invariants", fired, nontrivial=False)


def run_framework(col, backend):
    """the micro-sphere framework functions with an arbitrary chain law f (a polynomial with symbolic coefficients, non-zero slope at unit
    stretch) on a rule with exact second moments: distortional micro-stretches make the part isochoric and stress free at C = 1; the
    *_statevars sibling of a function denotes the same energy and hands out the state the chain law returned"""
    it = admodels.new_model_interp()
    exact_sphere_rule(it)
    base = "felupe.constitution.%s.models.hyperelastic.microsphere" % backend
    found = {}
    for mn in list_modules(base):
        if not mn.split(".")[-1].startswith("_framework"):
            continue
        m = it.module(mn)
        for n in m.tree.body:
            if isinstance(n, ast.FunctionDef) and not n.name.startswith("_") and n.args.args and n.args.args[0].arg == "C":
                found[n.name] = (mn, n)
    col.add("C11.O10", "%s micro-sphere framework functions" % backend, "the framework modules define the documented building blocks", len(found) >= 6, sorted(found))
    a1, a2, a3 = sym("chain_a1"), sym("chain_a2"), sym("chain_a3")

    def chain(lam, **kw):
        return a1 * lam + a2 * lam * lam + a3 * lam * lam * lam

    def chain_sv(lam, sv, **kw):
        return chain(lam), "NEW-STATE"

    def W_of(name, C):
        mn, node = found[name]
        fo = it.get(mn + ":" + name)
        args = [C]
        for a in node.args.args[1:]:
            if a.arg == "statevars":
                args.append("OLD-STATE")
            elif a.arg in ("p", "q"):
                args.append(sym("par_" + a.arg, True))
            elif a.arg == "f":
                args.append(chain_sv if "statevars" in [b.arg for b in node.args.args] else chain)
            elif a.arg == "kwargs":
                args.append({})
        r = it.call(fo, args, {})
        if isinstance(r, tuple):
            return P(r[0]), r[1]
        return P(r), None

    for name in sorted(found):
        mn, node = found[name]
        where = "%s:%d" % (mn.replace("felupe.", ""), node.lineno)
        label = "%s.%s" % (backend, name)

        def ref_state(name=name, where=where):
            C = admodels.world_C("full")
            W, _ = W_of(name, C)
            at1 = {C[i, j]: (ONE if i == j else ZERO) for i in range(3) for j in range(i, 3)}
            bad = []
            for i in range(3):
                for j in range(i, 3):
                    d = subs(diff(W, C[i, j]), at1)
                    if not is_zero(d):
                        bad.append("dW/dC%d%d = %s" % (i, j, ring.fmt(d, 5)))
            return not bad and bool(W.t), "%s: %s" % (where, "; ".join(bad[:3]))
        col.check("C11.O10", "%s reference state" % label, "for any chain law, the part is stress free at C = 1 (distortional micro-stretch, rule with isotropic second moments)", ref_state)

        def iso(name=name, where=where):
            k = sym("kscale", True)
            W1, _ = W_of(name, admodels.world_C("full"))
            W2, _ = W_of(name, admodels.world_C("full", scale=k))
            return is_zero(W1 - W2), "%s: W(kC) - W(C) = %s" % (where, ring.fmt(W2 - W1, 5))
        col.check("C11.O10", "%s distortional" % label, "the micro-stretch is taken from the distortional part of C: W(k C) == W(C) for every k > 0", iso)

        if name.endswith("_statevars") and name[:-len("_statevars")] in found:
            def sib(name=name, where=where):
                C = admodels.world_C("full")
                Ws, st = W_of(name, C)
                W0, _ = W_of(name[:-len("_statevars")], C)
                return is_zero(Ws - W0) and st == "NEW-STATE", "%s: differs from %s by %s, state handed out %r" % (where, name[:-len("_statevars")], ring.fmt(Ws - W0, 5), st)
            col.check("C11.O10", "%s vs %s" % (label, name[:-len("_statevars")]), "the state-variable version denotes the same energy as its state-less sibling and hands out the state the chain law returned", sib)
    finish_info(col, it)


def run_included(col, modname, fname, kwargs, oid, why, select_oid=None):
    from ..common import include

    include(col, modname, fname, kwargs, oid, why, select_oid=select_oid)
