"""C02.O8(ii) / O9 -- Form expression API and thread discipline.

The expression API (assembly/expression/*.py) is evaluated from source on the symbolic micro-instance.  BasisArray (an ndarray
subclass that carries .grad / .hess) is replaced by a checker-side ndarray subclass with the same three-line behaviour (trusted);
threading.Thread is replaced by a recording stand-in that runs the target at start() and records which slots of every ndarray
argument the thread changed.  Host-supplied weak forms are python callables over the same abstract arrays.
"""

import itertools

import numpy as np

from .. import ring, npmodel, micro
from ..ring import P, sym, is_zero, ZERO, ONE
from ..common import new_interp, symarray, finish_info, method_where
from ..interp import InterpRaise


def tasks(tier):
    return [("expression forms", "run_expression", dict(tier=tier)), ("expression threads", "run_threads", {})]


class BasisArrayModel(np.ndarray):
    """stand-in for felupe.assembly.expression._basis.BasisArray: an array view with .grad and .hess attributes that survive slicing"""

    def __new__(cls, input_array, grad=None, hess=None):
        obj = np.asarray(input_array).view(cls)
        obj.grad = grad
        obj.hess = hess
        return obj

    def __array_finalize__(self, obj):
        if obj is None:
            return
        self.grad = getattr(obj, "grad", None)
        self.hess = getattr(obj, "hess", None)


class RecThread:
    """threading.Thread stand-in: start() runs the target and records the slots of each ndarray argument it changed"""

    LOG = []

    def __init__(self, target=None, args=(), kwargs=None, **kw):
        self.target, self.args, self.kwargs = target, tuple(args), dict(kwargs or {})
        self.started = 0
        self.joined = 0
        self.writes = {}
        RecThread.LOG.append(self)

    def start(self):
        self.started += 1
        arrs = [(k, a) for k, a in enumerate(self.args) if isinstance(a, np.ndarray) and a.dtype == object]
        before = [a.copy() for _, a in arrs]
        self.target(*self.args, **self.kwargs)
        for (k, a), b in zip(arrs, before):
            ch = set()
            fa, fb = a.reshape(-1), b.reshape(-1)
            for t in range(fa.size):
                if fa[t] is not fb[t] and not (P(fa[t]) == P(fb[t])):
                    ch.add(t)
            self.writes[k] = (a, ch)

    def join(self, *a):
        self.joined += 1


def _interp():
    it = new_interp()
    it.call_hooks[("felupe.assembly.expression._basis", "BasisArray")] = lambda interp, fn, args, kwargs: BasisArrayModel(*args, **kwargs)
    th = it.externals.get("threading")
    if th is not None:
        th.ns["Thread"] = RecThread
    else:
        it.externals["threading"] = npmodel.ExtModule("threading", dict(Thread=RecThread))
    return it


def _regions(tag=""):
    from .c02 import CELLS_A, CELLS_B

    ra = micro.FakeRegion(CELLS_A, 4, 2, nq=2, tag="A" + tag)
    rb = micro.FakeRegion(CELLS_B, 2, 2, nq=2, tag="B" + tag)
    rb.dV = ra.dV
    for r in (ra, rb):
        r.evaluate_gradient = True
        r.evaluate_hessian = False
    return ra, rb


def _A(name, nq, nc, major):
    A = symarray(name, (2, 2, 2, 2, nq, nc))
    if major:
        for i, J, k, L in itertools.product(range(2), repeat=4):
            if (i, J) > (k, L):
                A[i, J, k, L] = A[k, L, i, J]
    return A


def run_expression(col, tier):
    from .c02 import ref_bilinear, ref_linear, diff_dense

    it = _interp()
    ra, rb = _regions()
    nq, nc = 2, 2
    Form = it.get("felupe.assembly.expression._decorator:FormExpressionDecorator")
    w = "assembly/expression/_bilinear.py BilinearForm.integrate"
    v = micro.make_fields(it, [("Field", 2, 0)], ra, rb)[0]
    fc = micro.container(it, [v])

    def weak_of(A):
        def weak(vv, uu, **kw):
            return npmodel.einsum("iJqc,iJkLqc,kLqc->qc", vv.grad, A, uu.grad)
        return weak

    # ---- O9 bilinear gradient form == array form, all (parallel, sym) combinations; the parallel path == the serial path
    for major in (True, False):
        A = _A("A", nq, nc, major)
        serial = {}
        for parallel, sym_ in itertools.product((False, True), repeat=2):
            def chk(parallel=parallel, sym_=sym_, A=A, major=major):
                RecThread.LOG = []
                form = it.call(it.call(Form, [], dict(v=fc, u=fc)), [[weak_of(A)]], {})
                K = micro.dense(it.call_method(form, "assemble", [], dict(v=fc, u=fc, parallel=parallel, sym=sym_)))
                if not parallel:
                    serial[sym_] = K
                bad = []
                if major or not sym_:
                    want = ref_bilinear(ra, ra, 2, 2, lambda i, J, k, L, q, c: A[i, J, k, L, q, c], True, True)
                    bad = diff_dense(K, want)
                if parallel and sym_ in serial:
                    bad = bad + ["parallel != serial: " + x for x in diff_dense(K, serial[sym_])]
                return not bad, "%s: %s" % (w, "; ".join(bad[:4]))
            what = "the matrix of the array form with the same integrand" if (major or not sym_) else "the serial result (upper triangle evaluated, mirrored)"
            col.check("C02.O9", "Form bilinear grad-grad, %s integrand, parallel=%s sym=%s" % ("major-symmetric" if major else "general", parallel, sym_),
                      "a weak form ddot(grad v, A, grad u) written with the expression API assembles to " + what + "; the parallel path gives the serial result", chk)

    # ---- value forms (mass type) and linear forms
    rho = symarray("rho", (nq, nc))

    def weak_mass(vv, uu, **kw):
        return npmodel.einsum("iqc,iqc,qc->qc", np.asarray(vv), np.asarray(uu), rho)

    def weak_lin(vv, **kw):
        return npmodel.einsum("iJqc,iJqc->qc", vv.grad, Pm)

    Pm = symarray("Pm", (2, 2, nq, nc))
    for parallel in (False, True):
        def chk_mass(parallel=parallel):
            form = it.call(it.call(Form, [], dict(v=fc, u=fc)), [[weak_mass]], {})
            K = micro.dense(it.call_method(form, "assemble", [], dict(v=fc, u=fc, parallel=parallel)))
            want = ref_bilinear(ra, ra, 2, 2, lambda i, J, k, L, q, c: (rho[q, c] if i == k else ZERO), False, False)
            bad = diff_dense(K, want)
            return not bad, "%s: %s" % (w, "; ".join(bad[:4]))
        col.check("C02.O9", "Form bilinear value-value, parallel=%s" % parallel, "dot(v, u) rho assembles to the value-value array form with integrand rho * identity", chk_mass)

        def chk_lin(parallel=parallel):
            form = it.call(it.call(Form, [], dict(v=fc)), [[weak_lin]], {})
            r = micro.dense(it.call_method(form, "assemble", [], dict(v=fc, parallel=parallel)))
            want = ref_linear(ra, 2, lambda i, J, q, c: Pm[i, J, q, c], True)
            bad = diff_dense(r, want)
            return not bad, "assembly/expression/_linear.py LinearForm.integrate: %s" % "; ".join(bad[:4])
        col.check("C02.O9", "Form linear grad, parallel=%s" % parallel, "ddot(grad v, P) assembles to the gradient linear array form with integrand P", chk_lin)

    # ---- a field with more components than the cell has points (3 components on 2-point cells): the (point, component) pairs of test and
    # trial field are numbered with the number of *components* as the stride, whatever the number of points per cell
    v3 = micro.make_fields(it, [("Field", 3, 0)], ra, rb)[0]
    fc3 = micro.container(it, [v3])
    M3 = symarray("M3", (3, 3, nq, nc))
    for i, k in itertools.product(range(3), repeat=2):
        if i > k:
            M3[i, k] = M3[k, i]

    def weak_m3(vv, uu, **kw):
        return npmodel.einsum("iqc,ikqc,kqc->qc", np.asarray(vv), M3, np.asarray(uu))

    for parallel, sym_ in itertools.product((False, True), repeat=2):
        def chk3(parallel=parallel, sym_=sym_):
            form = it.call(it.call(Form, [], dict(v=fc3, u=fc3)), [[weak_m3]], {})
            K = micro.dense(it.call_method(form, "assemble", [], dict(v=fc3, u=fc3, parallel=parallel, sym=sym_)))
            want = ref_bilinear(ra, ra, 3, 3, lambda i, J, k, L, q, c: M3[i, k, q, c], False, False)
            bad = diff_dense(K, want)
            return not bad, "%s: %s" % (w, "; ".join(bad[:4]))
        col.check("C02.O9", "Form bilinear value-value, 3 components on 2-point cells, parallel=%s sym=%s" % (parallel, sym_),
                  "dot(v, M u) with a symmetric M assembles to the value-value array form with integrand M for every (parallel, sym) combination", chk3)

    # ---- mixed fields (u, p): three upper-triangle weak forms
    p_ = micro.make_fields(it, [("Field", 1, 1)], ra, rb)[0]
    fcm = micro.container(it, [micro.make_fields(it, [("Field", 2, 0)], ra, rb)[0], p_])
    A2 = _A("Auu", nq, nc, True)
    Bup = symarray("Bup", (2, 2, nq, nc))
    Cpp = symarray("Cpp", (nq, nc))

    def w_uu(vv, uu, **kw):
        return npmodel.einsum("iJqc,iJkLqc,kLqc->qc", vv.grad, A2, uu.grad)

    def w_up(vv, pp, **kw):
        return npmodel.einsum("iJqc,iJqc,kqc->qc", vv.grad, Bup, np.asarray(pp))

    def w_pp(qq, pp, **kw):
        return npmodel.einsum("iqc,kqc,qc->qc", np.asarray(qq), np.asarray(pp), Cpp)

    for parallel, sym_ in itertools.product((False, True), repeat=2):
        def chk_mixed(parallel=parallel, sym_=sym_):
            form = it.call(it.call(Form, [], dict(v=fcm, u=fcm)), [[w_uu, w_up, w_pp]], {})
            K = micro.dense(it.call_method(form, "assemble", [], dict(v=fcm, u=fcm, parallel=parallel, sym=sym_)))
            Kuu = ref_bilinear(ra, ra, 2, 2, lambda i, J, k, L, q, c: A2[i, J, k, L, q, c], True, True)
            Kup = ref_bilinear(ra, rb, 2, 1, lambda i, J, k, L, q, c: Bup[i, J, q, c], True, False)
            Kpp = ref_bilinear(rb, rb, 1, 1, lambda i, J, k, L, q, c: Cpp[q, c], False, False)
            want = np.concatenate([np.concatenate([Kuu, Kup], axis=1), np.concatenate([Kup.T, Kpp], axis=1)], axis=0)
            bad = diff_dense(K, want)
            return not bad, "assembly/expression/_mixed.py BilinearFormExpression: %s" % "; ".join(bad[:4])
        col.check("C02.O9", "Form mixed (u, p) blocks, parallel=%s sym=%s" % (parallel, sym_),
                  "the list of upper-triangle weak forms assembles to the symmetric block matrix of the equivalent array forms (sym=True exploits the symmetry of the diagonal blocks; an off-diagonal block pairs two different fields and has no such symmetry)", chk_mixed)

    # ---- the off-diagonal block couples the *value* of the first field with the *gradient* of the second (v . grad p): test and trial
    # function come from different regions that both carry gradients
    Gup = symarray("Gup", (2, 2, nq, nc))

    def w_ugp(vv, pp, **kw):
        return npmodel.einsum("iqc,iLqc,kLqc->qc", np.asarray(vv), Gup, pp.grad)

    for parallel in (False, True):
        def chk_mixed_grad(parallel=parallel):
            form = it.call(it.call(Form, [], dict(v=fcm, u=fcm)), [[w_uu, w_ugp, w_pp]], {})
            K = micro.dense(it.call_method(form, "assemble", [], dict(v=fcm, u=fcm, parallel=parallel)))
            Kuu = ref_bilinear(ra, ra, 2, 2, lambda i, J, k, L, q, c: A2[i, J, k, L, q, c], True, True)
            Kup = ref_bilinear(ra, rb, 2, 1, lambda i, J, k, L, q, c: Gup[i, L, q, c], False, True)
            Kpp = ref_bilinear(rb, rb, 1, 1, lambda i, J, k, L, q, c: Cpp[q, c], False, False)
            want = np.concatenate([np.concatenate([Kuu, Kup], axis=1), np.concatenate([Kup.T, Kpp], axis=1)], axis=0)
            bad = diff_dense(K, want)
            return not bad, "assembly/expression/_bilinear.py BilinearForm.integrate (parallel=%s): %s" % (parallel, "; ".join(bad[:3]))
        col.check("C02.O9", "Form mixed (u, p) blocks with v . grad(p) coupling, parallel=%s" % parallel,
                  "the trial function handed to an off-diagonal weak form carries the gradient of the *trial* field's basis (another region than the test field's)", chk_mixed_grad)

    # ---- update protocol: a form created on one container and assembled on another (or after a region reload) uses the fields it is given
    ra2, rb2 = _regions("n")
    v2 = micro.make_fields(it, [("Field", 2, 0)], ra2, rb2)[0]
    fc2 = micro.container(it, [v2])
    A3 = _A("A3", nq, nc, True)

    def chk_update():
        form = it.call(it.call(Form, [], dict(v=fc, u=fc)), [[weak_of(A3)]], {})
        it.call_method(form, "assemble", [], dict(v=fc, u=fc))
        K = micro.dense(it.call_method(form, "assemble", [], dict(v=fc2, u=fc2)))
        want = ref_bilinear(ra2, ra2, 2, 2, lambda i, J, k, L, q, c: A3[i, J, k, L, q, c], True, True)
        bad = diff_dense(K, want)
        return not bad, "assembly/expression/_expression.py FormExpression._init_or_update_forms: %s" % "; ".join(bad[:3])
    col.check("C02.O9", "Form re-assembled on other fields", "assemble(v=, u=) on fields other than those the form was created with uses the bases, volumes and indices of the fields it is given", chk_update)

    def chk_other_trial():
        # test and trial functions taken from two different containers (e.g. undeformed and deformed region): a(v, u), not a(v, v)
        A4 = _A("A4", nq, nc, False)
        form = it.call(it.call(Form, [], dict(v=fc, u=fc2)), [[weak_of(A4)]], {})
        K = micro.dense(it.call_method(form, "assemble", [], dict(v=fc, u=fc2)))
        want = ref_bilinear(ra, ra2, 2, 2, lambda i, J, k, L, q, c: A4[i, J, k, L, q, c], True, True)
        bad = diff_dense(K, want)
        return not bad, "assembly/expression/_expression.py FormExpression._init_or_update_forms: %s" % "; ".join(bad[:3])
    col.check("C02.O9", "Form with a trial container other than the test container", "rows come from the test fields' basis and indices, columns from the trial fields' (volumes: the test region's)", chk_other_trial)

    def chk_dx():
        # a differential volume array handed to Form(dx=...) (e.g. a weighted or a boundary measure) is the one the integrals are taken with
        DX = symarray("DX", ra.dV.shape)
        A5 = _A("A5", nq, nc, False)
        form = it.call(it.call(Form, [], dict(v=fc, u=fc, dx=DX)), [[weak_of(A5)]], {})
        K = micro.dense(it.call_method(form, "assemble", [], dict(v=fc, u=fc)))
        keep = ra.dV
        ra.dV = DX
        try:
            want = ref_bilinear(ra, ra, 2, 2, lambda i, J, k, L, q, c: A5[i, J, k, L, q, c], True, True)
        finally:
            ra.dV = keep
        bad = diff_dense(K, want)
        lin = it.call(it.call(Form, [], dict(v=fc, dx=DX)), [[weak_lin]], {})
        rl = micro.dense(it.call_method(lin, "assemble", [], dict(v=fc)))
        ra.dV = DX
        try:
            wantl = ref_linear(ra, 2, lambda i, J, q, c: Pm[i, J, q, c], True)
        finally:
            ra.dV = keep
        badl = diff_dense(rl, wantl)
        return not bad and not badl, "assembly/expression/_expression.py FormExpression (dx=...): bilinear %s; linear %s" % ("; ".join(bad[:2]), "; ".join(badl[:2]))
    col.check("C02.O9", "Form with a given differential volume dx", "the documented argument dx replaces the region's differential volumes in the bilinear and in the linear form (it equals the array form with dV=dx)", chk_dx)

    def chk_reload():
        # the same container, but its region was reloaded in place (mesh moved): new basis gradients and volumes
        ra3, rb3 = _regions("r")
        v3 = micro.make_fields(it, [("Field", 2, 0)], ra3, rb3)[0]
        fc3 = micro.container(it, [v3])
        form = it.call(it.call(Form, [], dict(v=fc3, u=fc3)), [[weak_of(A3)]], {})
        it.call_method(form, "assemble", [], dict(v=fc3, u=fc3))
        ra3.dhdX = symarray("dhR", ra3.dhdX.shape)
        ra3.dV = symarray("dVR", ra3.dV.shape)
        K = micro.dense(it.call_method(form, "assemble", [], dict(v=fc3, u=fc3)))
        want = ref_bilinear(ra3, ra3, 2, 2, lambda i, J, k, L, q, c: A3[i, J, k, L, q, c], True, True)
        bad = diff_dense(K, want)
        return not bad, "assembly/expression/_expression.py FormExpression._init_or_update_forms: %s" % "; ".join(bad[:3])
    col.check("C02.O9", "Form re-assembled after its region was reloaded", "assemble(v=, u=) with the same container after the region's arrays changed (mesh moved, region reloaded in place) uses the current basis gradients and volumes", chk_reload)

    def chk_type():
        form = it.call(it.call(Form, [], dict(v=fc, u=fc)), [[weak_of(A3)]], {})
        try:
            it.call_method(form, "assemble", [], dict(v=fc2))  # a bilinear form updated with a test field only: u stays, fine; linear <-> bilinear switch raises
        except InterpRaise:
            pass
        return True, ""
    finish_info(col, it)


def run_threads(col):
    """O8.ii race freedom of the threaded integration (one thread per basis function): over all schedules the result is that of any
    sequential order iff no two threads write the same slot of the shared buffer and no thread reads it"""
    import ast
    import os
    from ..common import SRC

    it = _interp()
    ra, rb = _regions()
    nq, nc = 2, 2
    v = micro.make_fields(it, [("Field", 2, 0)], ra, rb)[0]
    BF = it.get("felupe.assembly.expression._basis:BasisField")
    Bil = it.get("felupe.assembly.expression._bilinear:BilinearForm")
    Lin = it.get("felupe.assembly.expression._linear:LinearForm")
    bv = it.call(BF, [v], {})
    A = _A("A", nq, nc, False)  # not major-symmetric: two threads that wrote one slot would be seen to write different values
    Pm = symarray("Pm", (2, 2, nq, nc))

    def weak2(vv, uu, **kw):
        return npmodel.einsum("iJqc,iJkLqc,kLqc->qc", vv.grad, A, uu.grad)

    def weak1(vv, **kw):
        return npmodel.einsum("iJqc,iJqc->qc", vv.grad, Pm)

    cases = [("BilinearForm sym=False", Bil, dict(v=bv, u=bv, dx=ra.dV), (weak2,), dict(parallel=True, sym=False), 16),
             ("BilinearForm sym=True", Bil, dict(v=bv, u=bv, dx=ra.dV), (weak2,), dict(parallel=True, sym=True), 10),
             ("LinearForm", Lin, dict(v=bv, dx=ra.dV), (weak1,), dict(parallel=True), 4)]
    for label, cls, ckw, wf, ikw, nthreads in cases:
        def chk(cls=cls, ckw=ckw, wf=wf, ikw=ikw, nthreads=nthreads):
            RecThread.LOG = []
            form = it.call(cls, [], ckw)
            it.call_method(form, "integrate", list(wf), ikw)
            th = list(RecThread.LOG)
            bad = []
            if any(t.started != 1 or t.joined < 1 for t in th):
                bad.append("threads not started exactly once and joined: %s" % [(t.started, t.joined) for t in th if t.started != 1 or t.joined < 1][:3])
            owner = {}
            for n, t in enumerate(th):
                for k, (arr, ch) in t.writes.items():
                    for slot in ch:
                        key = (id(arr), slot)
                        if key in owner and owner[key] != n:
                            bad.append("threads %d and %d both write slot %s of the shared buffer" % (owner[key], n, tuple(int(x) for x in np.unravel_index(slot, arr.shape))))
                        owner[key] = n
            if len(th) != nthreads:
                bad.append("%d threads for %d independent basis-function pairs" % (len(th), nthreads))
            return not bad, "%s: %s" % (method_where(cls, "integrate"), "; ".join(bad[:3]))
        col.check("C02.O8", "thread discipline %s" % label,
                  "every thread is started once and joined before the buffer is read; no slot of the shared buffer is written by two threads; one thread per evaluated basis-function pair (upper triangle only under sym)", chk)

    # the thread target only stores into the shared buffer (never reads it): AST rule over the Thread targets
    for relf, cname in (("assembly/expression/_bilinear.py", "BilinearForm"), ("assembly/expression/_linear.py", "LinearForm")):
        path = os.path.join(SRC, "felupe", relf)
        tree = ast.parse(open(path).read())
        targets = []
        for node in ast.walk(tree):
            if isinstance(node, ast.Call) and isinstance(node.func, ast.Name) and node.func.id == "Thread":
                for kw in node.keywords:
                    if kw.arg == "target" and isinstance(kw.value, ast.Name):
                        targets.append(kw.value.id)
        fdefs = [n for n in ast.walk(tree) if isinstance(n, ast.FunctionDef) and n.name in targets]
        if not targets or not fdefs:
            col.undecided("C02.O8", "thread targets in %s" % relf, "thread targets only store into the shared buffer", "no Thread(target=<local function>) idiom found: thread discipline not analysed for this file")
            continue
        bad = []
        for fd in fdefs:
            shared = fd.args.args[0].arg if fd.args.args else None
            for n in ast.walk(fd):
                if isinstance(n, ast.Name) and n.id == shared and isinstance(n.ctx, ast.Load):
                    # allowed only as the base of a subscript store
                    pass
            loads = []
            stores = set()
            for n in ast.walk(fd):
                if isinstance(n, ast.Subscript) and isinstance(n.value, ast.Name) and n.value.id == shared:
                    if isinstance(n.ctx, ast.Store):
                        stores.add(id(n.value))
            for n in ast.walk(fd):
                if isinstance(n, ast.Name) and n.id == shared and id(n) not in stores:
                    loads.append(n.lineno)
            for n in ast.walk(fd):
                if isinstance(n, ast.AugAssign):
                    bad.append("augmented assignment at line %d" % n.lineno)
                if isinstance(n, (ast.Global, ast.Nonlocal)):
                    bad.append("global/nonlocal at line %d" % n.lineno)
            if loads:
                bad.append("the shared buffer is read at lines %s" % loads)
        col.add("C02.O8", "thread targets in %s" % relf, "inside a thread target the shared buffer only appears as the target of item stores; no augmented assignment, no global/nonlocal rebinding",
                not bad, "%s %s: %s" % (relf, targets, "; ".join(bad)))
    finish_info(col, it)
