import numpy as np


class BadQuad:
    "bilinear quad whose gradient entry [2][1] has the wrong sign"

    def __init__(self):
        self.points = np.array([[-1, -1], [1, -1], [1, 1], [-1, 1]], dtype=float)

    def function(self, rs):
        r, s = rs
        return np.array([(1 - r) * (1 - s), (1 + r) * (1 - s), (1 + r) * (1 + s), (1 - r) * (1 + s)]) * 0.25

    def gradient(self, rs):
        r, s = rs
        return np.array([[-(1 - s), -(1 - r)], [(1 - s), -(1 + r)], [(1 + s), -(1 + r)], [-(1 + s), (1 - r)]]) * 0.25
