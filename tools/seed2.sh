#!/bin/sh
# process the two seeds (_seed/A, _seed/B) of one property: tools/seed2.sh C04 [round letters, default "bc"] [extra checks...]
pid=$1; shift
letters=${1:-bc}; [ $# -gt 0 ] && shift
la=$(echo $letters | cut -c1); lb=$(echo $letters | cut -c2)
for v in A B; do
  if [ -f /tmp/wt/$pid/_seed/$v/patch.diff ]; then
    [ $v = A ] && lc=$la || lc=$lb
    echo "== $pid-$lc"
    timeout 3000 python3 /verif/tools/seedproc.py /tmp/wt/$pid $pid-$lc $pid $pid "$@" --seed=_seed/$v 2>&1 | tail -8 | cut -c1-330
  fi
done
git -C /repo worktree remove --force /tmp/wt/$pid
