"""setup: self-check of the exact ring (against sympy where available) and of the evaluator."""
import sys
from fractions import Fraction


def main():
    from . import ring
    from .ring import sym, diff, is_zero, power, P, subs, fun_atom

    x, y, z = sym("x"), sym("y"), sym("z")
    d = x * y - z * z + 1
    assert is_zero((1 / d) * d - 1)
    assert is_zero(diff(1 / d, x) + y / d ** 2)
    assert is_zero(power(d, Fraction(1, 3)) ** 3 - d)
    assert is_zero(power(P(2), Fraction(1, 2)) * power(P(3), Fraction(1, 2)) - power(P(6), Fraction(1, 2)))
    assert not is_zero(power(d, Fraction(1, 2)) - d)
    assert is_zero(diff(fun_atom("Log", d), x) - y / d)
    try:
        import random
        import sympy
        from sympy.polys.rings import ring as sring

        R, a, b, c = sring("a,b,c", sympy.QQ)
        rnd = random.Random(7)
        for _ in range(30):
            def rp():
                pa, pb = P(0), R(0)
                for _ in range(4):
                    e = [rnd.randint(0, 3) for _ in range(3)]
                    k = Fraction(rnd.randint(-5, 5), rnd.randint(1, 4))
                    pa = pa + k * x ** e[0] * y ** e[1] * z ** e[2]
                    pb = pb + sympy.QQ(k.numerator, k.denominator) * a ** e[0] * b ** e[1] * c ** e[2]
                return pa, pb
            (p1, q1), (p2, q2) = rp(), rp()
            pr, qr = p1 * p2 + p1, q1 * q2 + q1
            pd, qd = diff(pr, x), qr.diff(a)
            for pp, qq in ((pr, qr), (pd, qd)):
                got = {tuple(dict(m).get(g, 0) for g in (ring.symid("x"), ring.symid("y"), ring.symid("z"))): cf for m, cf in pp.t.items()}
                want = {tuple(m): Fraction(int(cf.numerator), int(cf.denominator)) for m, cf in qq.terms()}
                assert got == want, (got, want)
        print("ring cross-checked against sympy.polys.rings")
    except ImportError:
        print("sympy not available: ring cross-check skipped")
    print("setup ok")
    return 0
