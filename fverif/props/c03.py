"""C03 -- every material's stress and elasticity are true derivatives (DESIGN.md section 3, C03)."""

from fractions import Fraction

import numpy as np

from .. import ring, npmodel
from ..ring import P, sym, diff, is_zero, ZERO, ONE, Poly
from ..common import new_interp, symarray, finish_info, classes_in, list_modules, where_of, method_where
from ..interp import InterpRaise, Instance

SPEC = dict(
    level="proof",
    rule="each hand-coded constitutive class (discovered: classes under felupe/constitution defining gradient and hessian) is "
    "instantiated for every parameter configuration that changes control flow and evaluated from its AST on a symbolic "
    "deformation gradient F[i,j] (and symbolic p, J, state variables, parameters); one obligation per tensor entry: "
    "gradient[i,j] == d function / d F[i,j], hessian[i,j,k,l] == d gradient[i,j] / d F[k,l] (mixed forms: all six blocks), decided as "
    "identities of rational functions modulo the relations of det(F)**(p/q), Log, Erf, sqrt atoms. Inner materials of wrappers are "
    "opaque function atoms W(F) with derivative atoms. Also: inputs (F, state) unchanged, out= dirty buffer gives the same value. "
    "non-trivial = the derivative is not identically constant",
    trusted_base=[
        "numpy semantics on object dtype (views, out=, broadcasting) as summarised in fverif/npmodel.py",
        "tensortrax / jax differentiate correctly (only the wrapper algebra around them is checked)",
        "exact ring with atoms (fverif/ring.py); zero verdicts are unconditional",
    ],
    explanation="algebraic value numbering of the constitutive kernels; derivative by the ring's formal total derivative",
    exhaustive=True,
    not_decided=["correctness of tensortrax/jax differentiation", "viscoelastic and MORPH models (pure AD, no hand-derived tangent)",
                 "behaviour at the documented non-smooth points"],
    assumptions=["real arithmetic", "generic point: det F != 0, moduli != 0"],
)

FLOORS = {"constitutive classes with gradient/hessian": ("classes_found", 15), "classes covered": ("classes_covered", 15)}

COVER = {
    "NeoHooke": "hyper", "Volumetric": "hyper", "NeoHookeCompressible": "hyper", "LinearElasticLargeStrain": "hyper",
    "Laplace": "linear", "LinearElastic": "linear", "LinearElasticTensorNotation": "linear", "LinearElasticOrthotropic": "linear",
    "LinearElasticPlaneStress": "linear", "LinearElasticPlaneStrain": "linear",
    "NearlyIncompressible": "mixed", "ThreeFieldVariation": "mixed", "OgdenRoxburgh": "ogden", "MaterialStrain": "strain",
    "CompositeMaterial": "composite", "VolumeChange": "kinematics", "AreaChange": "kinematics", "LineChange": "kinematics",
    # AD wrappers: wrapper algebra only (run_wrappers)
    "Material": "wrapper", "Hyperelastic": "wrapper", "MaterialDefault": "wrapper", "LinearElasticPlasticIsotropicHardening": "strain",
    "ConstitutiveMaterial": "base", "ConstitutiveMaterialDerived": "base",
}


def _discover(it):
    found = []
    for mn in list_modules("felupe.constitution"):
        if ".models" in mn or mn.endswith("_view") or mn == "felupe.constitution":
            continue
        if ".jax" in mn:
            # importing jax modules only needs the summaries; classes are listed from the AST
            pass
        try:
            cs = classes_in(it, mn)
        except Exception as e:  # noqa
            found.append((mn, "<module failed: %s>" % e, False))
            continue
        for c in cs:
            has = c.find("gradient")[0] is not None and c.find("hessian")[0] is not None
            if has:
                found.append((mn, c.name, True))
    return found


def tasks(tier):
    ts = [("discovery", "run_discovery", {})]
    for cfg in ("mu+bulk", "mu", "bulk", "Volumetric"):
        ts.append(("NeoHooke[%s]" % cfg, "run_neohooke", dict(cfg=cfg)))
    for cfg in ("mu+lmbda", "mu", "LinearElasticLargeStrain"):
        ts.append(("NeoHookeCompressible[%s]" % cfg, "run_nhc", dict(cfg=cfg)))
    ts.append(("linear", "run_linear", {}))
    ts.append(("NearlyIncompressible", "run_nearly", dict(tier=tier)))
    for blk in ("grad+FF", "Fp+FJ+pp+pJ+JJ"):
        ts.append(("ThreeFieldVariation[%s]" % blk, "run_threefield", dict(blocks=blk)))
    for case in ("unloading", "primary"):
        ts.append(("OgdenRoxburgh[%s]" % case, "run_ogden", dict(case=case)))
    ts.append(("MaterialStrain+linear_elastic", "run_strain_elastic", {}))
    for case in ("elastic", "plastic", "mixed"):
        ts.append(("plasticity[%s]" % case, "run_plastic", dict(case=case)))
    ts.append(("CompositeMaterial", "run_composite", {}))
    ts.append(("AD wrappers", "run_wrappers", {}))
    ts.append(("kinematics", "run_kinematics", {}))
    ts.append(("canary", "run_canary", {}))
    return ts


def run_discovery(col):
    it = new_interp()
    found = _discover(it)
    names = sorted({c for _, c, ok_ in found if ok_})
    col.info["classes_found"] = names
    col.info["classes_covered"] = [n for n in names if n in COVER]
    missing = [n for n in names if n not in COVER]
    bad = [f for f in found if not f[2]]
    if missing or bad:
        col.undecided("C03.discovery", ",".join(missing) or str(bad), "every class with gradient/hessian has an obligation set",
                      "classes without obligations: %s; modules that failed to load: %s" % (missing, bad))
    else:
        col.add("C03.discovery", "felupe.constitution", "every class with gradient/hessian is covered", True, "%d classes" % len(names), nontrivial=False)
    finish_info(col, it)


# ------------------------------------------------------------------------------------------
# helpers
# ------------------------------------------------------------------------------------------
def Fsym(dim=3, trailing=(1, 1), name="F", dim2=None):
    dim2 = dim if dim2 is None else dim2
    F = np.empty((dim, dim2) + trailing, dtype=object)
    for i in range(dim):
        for j in range(dim2):
            for t in np.ndindex(*trailing):
                F[(i, j) + t] = sym("%s%d%d" % (name, i, j) if all(x == 0 for x in t) else "%s%d%d_%s" % (name, i, j, "".join(map(str, t))))
    return F


def scalar_field(name, trailing=(1, 1), positive=True):
    a = np.empty(trailing, dtype=object)
    for t in np.ndindex(*trailing):
        a[t] = sym(name, positive=positive)
    return a


def entry(A, idx, trailing_nd=2):
    return A[tuple(idx) + (0,) * trailing_nd]


def check_tensor_derivative(col, oid, label, where, rule, G, H, F, order_out, dims=None, trailing_nd=2):
    """H[idx + kl] == d G[idx] / d F[k,l] for all entries; G has `order_out` tensor axes"""
    dim, dim2 = F.shape[0], F.shape[1]
    shp_g = G.shape[:order_out]
    exp = tuple(shp_g) + (dim, dim2)
    if H.shape[:order_out + 2] != exp:
        col.add(oid, "%s shape" % label, rule, False, "%s: shape %s, expected leading %s" % (where, H.shape, exp))
        return
    for idx in np.ndindex(*shp_g):
        g = entry(G, idx, trailing_nd)
        for k in range(dim):
            for l in range(dim2):
                d = diff(g, entry(F, (k, l), trailing_nd))
                h = entry(H, idx + (k, l), trailing_nd)
                okk = is_zero(d - h)
                col.add(oid, "%s[%s]" % (label, "][".join(map(str, idx + (k, l)))), rule, okk,
                        "" if okk else "%s: d/dF%d%d of entry %s = %s ; returned %s" % (where, k, l, list(idx), ring.fmt(d, 6), ring.fmt(h, 6)),
                        nontrivial=not d.is_const())


def check_scalar_derivative(col, oid, label, where, rule, W, G, F, trailing_nd=2):
    dim, dim2 = F.shape[0], F.shape[1]
    w = entry(W, (), trailing_nd)
    for i in range(dim):
        for j in range(dim2):
            d = diff(w, entry(F, (i, j), trailing_nd))
            g = entry(G, (i, j), trailing_nd)
            okk = is_zero(d - g)
            col.add(oid, "%s[%d][%d]" % (label, i, j), rule, okk,
                    "" if okk else "%s: dW/dF%d%d = %s ; returned %s" % (where, i, j, ring.fmt(d, 6), ring.fmt(g, 6)), nontrivial=not d.is_const())


def same_arrays(A, B):
    A = npmodel.to_obj(np.asarray(A))
    B = npmodel.to_obj(np.asarray(B))
    if A.shape != B.shape:
        return False
    return all(is_zero(a - b) for a, b in zip(A.reshape(-1), B.reshape(-1)))


def _same_lists(a, b):
    return len(a) == len(b) and all((x is None and y is None) or (x is not None and y is not None and same_arrays(x, y)) for x, y in zip(a, b))


def history_obligation(col, it, umat, label, cls, x1, x2, ngrad=None):
    """O1h: gradient / hessian are functions of their argument only -- an evaluation at another state in between (no cached intermediate
    of an earlier call is re-used for a different input)"""
    def chk():
        g1 = [None if a is None else npmodel.to_obj(np.asarray(a)).copy() for a in it.call_method(umat, "gradient", [list(x1)])[:ngrad]]
        h1 = [None if a is None else npmodel.to_obj(np.asarray(a)).copy() for a in it.call_method(umat, "hessian", [list(x1)])]
        it.call_method(umat, "gradient", [list(x2)])
        h1b = [None if a is None else npmodel.to_obj(np.asarray(a)) for a in it.call_method(umat, "hessian", [list(x1)])]
        it.call_method(umat, "hessian", [list(x2)])
        g1b = [None if a is None else npmodel.to_obj(np.asarray(a)) for a in it.call_method(umat, "gradient", [list(x1)])[:ngrad]]
        okh, okg = _same_lists(h1, h1b), _same_lists(g1, g1b)
        return okh and okg, "%s: %s at a state depends on an earlier evaluation at another state" % (method_where(cls, "hessian" if not okh else "gradient"), "hessian" if not okh else "gradient")
    col.check("C03.O1h", "%s evaluation history" % label, "gradient(x) and hessian(x) do not depend on evaluations made before at other states (gradient(y) then hessian(x), hessian(y) then gradient(x))", chk)

    def chk_inplace():
        # the way a solid body calls its material: the kinematic arrays are buffers that are overwritten in place from one evaluation to
        # the next (extract(out=...)), so "another state" arrives in the *same* array objects an earlier call has seen
        g2 = [None if a is None else npmodel.to_obj(np.asarray(a)).copy() for a in it.call_method(umat, "gradient", [list(x2)])[:ngrad]]
        h2 = [None if a is None else npmodel.to_obj(np.asarray(a)).copy() for a in it.call_method(umat, "hessian", [list(x2)])]
        buf = [npmodel.to_obj(np.asarray(a)).copy() for a in x1]
        it.call_method(umat, "gradient", [list(buf)])
        for b_, a_ in zip(buf, x2):
            b_[...] = npmodel.to_obj(np.asarray(a_))
        h2b = [None if a is None else npmodel.to_obj(np.asarray(a)).copy() for a in it.call_method(umat, "hessian", [list(buf)])]
        for b_, a_ in zip(buf, x1):
            b_[...] = npmodel.to_obj(np.asarray(a_))
        it.call_method(umat, "hessian", [list(buf)])
        for b_, a_ in zip(buf, x2):
            b_[...] = npmodel.to_obj(np.asarray(a_))
        g2b = [None if a is None else npmodel.to_obj(np.asarray(a)) for a in it.call_method(umat, "gradient", [list(buf)])[:ngrad]]
        okh, okg = _same_lists(h2, h2b), _same_lists(g2, g2b)
        return okh and okg, "%s: %s at a state that arrived by an in-place update of the argument arrays is that of the earlier state" % (
            method_where(cls, "hessian" if not okh else "gradient"), "hessian" if not okh else "gradient")
    col.check("C03.O1h", "%s evaluation history, argument arrays updated in place" % label,
              "gradient(x) and hessian(x) are functions of the values in x: after gradient(x), an in-place update of the arrays in x and hessian(x) give the hessian of the new values (and vice versa)", chk_inplace)


def hyper_obligations(col, it, umat, label, cls, has_function=True, out_variants=True, statevars=None, shape=None):
    F = Fsym() if shape is None else Fsym(shape[0], dim2=shape[1])
    F0 = F.copy()
    sv = statevars if statevars is not None else npmodel.zeros((0, 1, 1))
    sv0 = sv.copy()
    x = [F, sv]
    P_ = it.call_method(umat, "gradient", [x])[0]
    A_ = it.call_method(umat, "hessian", [x])[0]
    wg, wh = method_where(cls, "gradient"), method_where(cls, "hessian")
    if has_function:
        W = it.call_method(umat, "function", [x])[0]
        check_scalar_derivative(col, "C03.O1", "%s.gradient" % label, wg, "gradient[i,j] == d function / d F[i,j]", W, P_, F)
    check_tensor_derivative(col, "C03.O1", "%s.hessian" % label, wh, "hessian[i,j,k,l] == d gradient[i,j] / d F[k,l]", P_, A_, F, 2)
    col.add("C03.O1u", "%s inputs" % label, "F and state variables unchanged by function/gradient/hessian",
            same_arrays(F, F0) and same_arrays(sv, sv0), "input arrays modified in place")
    if out_variants:
        def g_out():
            buf = symarray("DIRTY", P_.shape)
            r = it.call_method(umat, "gradient", [[F, sv]], dict(out=buf))[0]
            return same_arrays(r, P_) and r is buf and same_arrays(F, F0), "gradient(out=dirty buffer) differs from gradient() or input modified"
        col.check("C03.O1o", "%s.gradient out=" % label, "a supplied (dirty) out buffer yields the same stress, in that buffer", g_out)
        def h_out():
            buf = symarray("DIRTY", A_.shape)
            r = it.call_method(umat, "hessian", [[F, sv]], dict(out=buf))[0]
            return same_arrays(r, A_) and same_arrays(F, F0), "hessian(out=dirty buffer) differs from hessian() or input modified"
        col.check("C03.O1o", "%s.hessian out=" % label, "a supplied (dirty) out buffer yields the same elasticity", h_out)

        def nan_out():
            # the buffers a solid body re-uses hold NaN after one evaluation at a diverged iterate: 0 * NaN is NaN, so a buffer has to be
            # *overwritten*, not scaled by zero (floating-point array semantics: IEEE mode of the ring)
            ring.IEEE[0] = True
            try:
                nan = ring._nan_poly()
                bufg = np.empty(P_.shape, dtype=object)
                bufg[...] = nan
                bufh = np.empty(A_.shape, dtype=object)
                bufh[...] = nan
                rg = it.call_method(umat, "gradient", [[F, sv]], dict(out=bufg))[0]
                rh = it.call_method(umat, "hessian", [[F, sv]], dict(out=bufh))[0]
                okg, okh = same_arrays(rg, P_), same_arrays(rh, A_)
            finally:
                ring.IEEE[0] = False
            return okg and okh, "%s: a buffer that holds NaN gives %s" % (wh if okg else wg, "the right stress but a NaN elasticity" if okg else "a NaN stress")
        col.check("C03.O1o", "%s out= buffers holding NaN" % label, "a supplied out buffer is overwritten whatever it holds (a buffer left with NaN by an earlier, diverged evaluation gives the same stress and elasticity)", nan_out)
    history_obligation(col, it, umat, label, cls, [F, sv], [Fsym(name="G") if shape is None else Fsym(shape[0], dim2=shape[1], name="G"), sv], ngrad=1)
    # the parameter dictionary `kwargs` of a material is rewritten by ConstitutiveMaterial.optimize() (copy, then kwargs[key] = value) and read by
    # the view helpers: whatever a material reads its parameters from, stress and elasticity read them from the same place
    try:
        kw = it.getattr(umat, "kwargs")
    except InterpRaise:
        kw = None
    if isinstance(kw, dict) and kw and shape is None:
        def chk_kw():
            saved = dict(kw)
            try:
                for k_ in list(kw):
                    if kw[k_] is not None and not isinstance(kw[k_], (list, tuple, np.ndarray, str, bool)):
                        kw[k_] = sym("alt_" + str(k_), True)
                P2 = npmodel.to_obj(np.asarray(it.call_method(umat, "gradient", [[F, sv]])[0]))
                A2 = npmodel.to_obj(np.asarray(it.call_method(umat, "hessian", [[F, sv]])[0]))
            finally:
                kw.clear()
                kw.update(saved)
            bad = []
            for i, j, k, l in np.ndindex(*A2.shape[:4]):
                if not is_zero(diff(entry(P2, (i, j), 2), entry(F, (k, l), 2)) - entry(A2, (i, j, k, l), 2)):
                    bad.append((i, j, k, l))
                    if len(bad) > 3:
                        break
            return not bad, "%s / %s: after the material's kwargs were rewritten the elasticity is not the derivative of the stress in entries %s (one of them reads the parameters from another place)" % (wg, wh, bad)
        col.check("C03.O1k", "%s after its kwargs were rewritten" % label, "stress and elasticity take the material parameters from the same source: they stay derivative-consistent when the parameter dictionary is updated (as optimize() does)", chk_kw)
    return F, P_, A_


def run_neohooke(col, cfg):
    it = new_interp()
    mu, bulk = sym("mu", True), sym("bulk", True)
    if cfg == "Volumetric":
        cls = it.get("felupe.constitution.hyperelasticity._volumetric:Volumetric")
        umat = it.call(cls, [], dict(bulk=bulk))
    else:
        cls = it.get("felupe.constitution.hyperelasticity._neo_hooke_nearly_incompressible:NeoHooke")
        kw = {}
        if "mu" in cfg:
            kw["mu"] = mu
        if "bulk" in cfg:
            kw["bulk"] = bulk
        umat = it.call(cls, [], kw)
    hyper_obligations(col, it, umat, "%s(%s)" % (cls.name, cfg), cls)
    finish_info(col, it)


def run_nhc(col, cfg):
    it = new_interp()
    if cfg == "LinearElasticLargeStrain":
        cls = it.get("felupe.constitution.linear_elasticity._linear_elastic_large_strain:LinearElasticLargeStrain")
        umat = it.call(cls, [], dict(E=sym("E", True), nu=sym("nu", True)))
        hyper_obligations(col, it, umat, cls.name, cls, out_variants=False)
    else:
        cls = it.get("felupe.constitution.hyperelasticity._neo_hooke_compressible:NeoHookeCompressible")
        kw = dict(mu=sym("mu", True))
        if "lmbda" in cfg:
            kw["lmbda"] = sym("lmbda", True)
        umat = it.call(cls, [], kw)
        hyper_obligations(col, it, umat, "%s(%s)" % (cls.name, cfg), cls)
    finish_info(col, it)


def run_linear(col):
    it = new_interp()
    base = "felupe.constitution."
    E, nu = sym("E", True), sym("nu", True)
    # Laplace (has an energy)
    cls = it.get(base + "poisson._laplace:Laplace")
    umat = it.call(cls, [], dict(multiplier=sym("k", True)))
    hyper_obligations(col, it, umat, "Laplace", cls, out_variants=False)
    # the Poisson problem: gradient of a scalar (or any m-component) field in an n-dimensional region -- a rectangular (m, n) array
    for shp in ((1, 2), (1, 3), (2, 3), (3, 2), (2, 2)):
        hyper_obligations(col, it, umat, "Laplace[field gradient %dx%d]" % shp, cls, out_variants=False, shape=shp)
    for cname in ("LinearElastic", "LinearElasticTensorNotation"):
        cls = it.get(base + "linear_elasticity._linear_elastic:" + cname)
        umat = it.call(cls, [], dict(E=E, nu=nu))
        F, P_, A_ = hyper_obligations(col, it, umat, cname, cls, has_function=False, out_variants=False)
        # hessian() without x must be the same tensor
        def nox(umat=umat, A_=A_):
            A2 = it.call_method(umat, "hessian", [], {})[0]
            return same_arrays(np.broadcast_to(A2, A_.shape), A_), "hessian() and hessian(x) differ"
        col.check("C03.O3", "%s.hessian(x=None)" % cname, "the tangent does not depend on whether x is passed", nox)
    cls = it.get(base + "linear_elasticity._linear_elastic_orthotropic:LinearElasticOrthotropic")
    Es = [sym("E%d" % i, True) for i in (1, 2, 3)]
    nus = [sym("nu%s" % s, True) for s in ("12", "23", "31")]
    Gs = [sym("G%s" % s, True) for s in ("12", "23", "31")]
    umat = it.call(cls, [], dict(E=Es, nu=nus, G=Gs))
    F, P_, A_ = hyper_obligations(col, it, umat, "LinearElasticOrthotropic", cls, has_function=False, out_variants=False)
    # minor symmetries of the orthotropic tensor (needed for hessian == d gradient / dF through the symmetric strain)
    bad = []
    for i, j, k, l in np.ndindex(3, 3, 3, 3):
        a = A_[i, j, k, l, 0, 0]
        if not is_zero(a - A_[j, i, k, l, 0, 0]) or not is_zero(a - A_[i, j, l, k, 0, 0]):
            bad.append((i, j, k, l))
    col.add("C03.O3", "LinearElasticOrthotropic.hessian minor symmetry", "elasticity tensor has both minor symmetries", not bad, str(bad[:6]))
    for cname in ("LinearElasticPlaneStress", "LinearElasticPlaneStrain"):
        cls = it.get(base + "linear_elasticity._linear_elastic:" + cname)
        umat = it.call(cls, [], dict(E=E, nu=nu))
        F = Fsym(2)
        F0 = F.copy()
        sv = npmodel.zeros((0, 1, 1))
        P_ = it.call_method(umat, "gradient", [[F, sv]])[0]
        A_ = it.call_method(umat, "hessian", [[F, sv]])[0]
        check_tensor_derivative(col, "C03.O3", "%s.hessian" % cname, method_where(cls, "hessian"),
                                "hessian[i,j,k,l] == d gradient[i,j] / d F[k,l]", P_, A_, F, 2)
        col.add("C03.O1u", "%s inputs" % cname, "F unchanged", same_arrays(F, F0))
    finish_info(col, it)


# -- opaque inner materials -------------------------------------------------------------------
class OpaqueHyper:
    """python-side stand-in for an arbitrary hyperelastic inner material: W = W(F) opaque, P = dW/dF,
    A = d2W/dFdF as derivative atoms (names canonical in the derivative multi-index => major symmetry)"""

    updates_state = False

    def __init__(self, name="Wm", dim=3, with_state=False):
        self.name = name
        self.dim = dim
        self.kwargs = {}
        self.x = [npmodel.eye(dim), npmodel.zeros(1 if with_state else 0)]
        self.calls = []

        def rule(nm, k):
            base, _, idx = nm.partition("|")
            lst = [int(v) for v in idx.split(",") if v] + [k]
            return "%s|%s" % (base, ",".join(map(str, sorted(lst))))

        ring.set_ofun_rule(name, rule)

    def _args(self, F, t):
        return [F[(i, j) + t] for i in range(self.dim) for j in range(self.dim)]

    def function(self, x):
        F = x[0]
        W = np.empty(F.shape[2:], dtype=object)
        for t in np.ndindex(*F.shape[2:]):
            W[t] = ring.ofun(self.name + "|", self._args(F, t))
        self.calls.append(("function", x))
        return [W]

    def gradient(self, x, out=None):
        F = x[0]
        P_ = np.empty(F.shape, dtype=object)
        n = self.dim
        for t in np.ndindex(*F.shape[2:]):
            a = self._args(F, t)
            for i in range(n):
                for j in range(n):
                    P_[(i, j) + t] = ring.ofun("%s|%d" % (self.name, i * n + j), a)
        self.calls.append(("gradient", x))
        if self.updates_state:
            # a history-dependent material: the new state is a function of F and the old state, distinct for every material instance
            zn = np.empty(np.asarray(x[-1]).shape, dtype=object)
            for t in np.ndindex(*zn.shape):
                zn[t] = ring.ofun("%s_state%s" % (self.name, "".join(map(str, t))), self._args(F, tuple(0 for _ in F.shape[2:])) + [P(x[-1][t])])
            return [P_, zn]
        return [P_, x[-1]]

    def hessian(self, x, out=None):
        F = x[0]
        n = self.dim
        A_ = np.empty((n, n, n, n) + F.shape[2:], dtype=object)
        for t in np.ndindex(*F.shape[2:]):
            a = self._args(F, t)
            for i in range(n):
                for j in range(n):
                    for k in range(n):
                        for l in range(n):
                            p, q = sorted((i * n + j, k * n + l))
                            A_[(i, j, k, l) + t] = ring.ofun("%s|%d,%d" % (self.name, p, q), a)
        self.calls.append(("hessian", x))
        return [A_]


class OpaqueStress(OpaqueHyper):
    """stand-in for an inner material that is given by its stress (history dependent / non-conservative): P_ij(F) opaque and
    A_ijkl = d P_ij / d F_kl as derivative atoms -- no major symmetry (A_ijkl and A_klij are different atoms)"""

    def __init__(self, name="Ps", dim=3):
        OpaqueHyper.__init__(self, name, dim)

        def rule(nm, k):
            base, ij, idx = nm.split("|")
            lst = [int(v) for v in idx.split(",") if v] + [k]
            return "%s|%s|%s" % (base, ij, ",".join(map(str, sorted(lst))))

        ring.set_ofun_rule(name, rule)

    def function(self, x):
        raise ring.Undecided("a stress-based material has no energy")

    def gradient(self, x, out=None):
        F = x[0]
        n = self.dim
        P_ = np.empty(F.shape, dtype=object)
        for t in np.ndindex(*F.shape[2:]):
            a = self._args(F, t)
            for i in range(n):
                for j in range(n):
                    P_[(i, j) + t] = ring.ofun("%s|%d|" % (self.name, i * n + j), a)
        self.calls.append(("gradient", x))
        return [P_, x[-1]]

    def hessian(self, x, out=None):
        F = x[0]
        n = self.dim
        A_ = np.empty((n, n, n, n) + F.shape[2:], dtype=object)
        for t in np.ndindex(*F.shape[2:]):
            a = self._args(F, t)
            for i, j, k, l in np.ndindex(n, n, n, n):
                A_[(i, j, k, l) + t] = ring.ofun("%s|%d|%d" % (self.name, i * n + j, k * n + l), a)
        self.calls.append(("hessian", x))
        return [A_]


def mixed_block_obligations(col, label, cls, F, p, J, grads, hess, which=None):
    """grads = [gF, gp, gJ]; hess = [FF, Fp, FJ, pp, pJ, JJ] (None = zero block)"""
    gF, gp, gJ = grads
    FF, Fp, FJ, pp, pJ, JJ = hess
    wh = method_where(cls, "hessian")
    ps, Js = p[0, 0], J[0, 0]

    def zero_like(shape):
        z = np.empty(shape, dtype=object)
        z[...] = ZERO
        return z

    def blk(B, shape):
        return zero_like(shape) if B is None else npmodel.to_obj(np.asarray(B))

    if which is None or "FF" in which:
        check_tensor_derivative(col, "C03.O4", "%s.hessian block FF" % label, wh, "block (F,F) == d gradient_F / d F", gF, blk(FF, (3, 3, 3, 3, 1, 1)), F, 2)
    if which is None or "Fp" in which:
        B = blk(Fp, (3, 3, 1, 1))
        for i in range(3):
            for j in range(3):
                d1 = diff(gF[i, j, 0, 0], ps)
                d2 = diff(gp[0, 0], F[i, j, 0, 0])
                okk = is_zero(d1 - B[i, j, 0, 0]) and is_zero(d2 - B[i, j, 0, 0])
                col.add("C03.O4", "%s.hessian block Fp[%d][%d]" % (label, i, j), "block (F,p) == d gradient_F/dp == d gradient_p/dF", okk,
                        "" if okk else "%s: d gF/dp = %s, d gp/dF = %s, returned %s" % (wh, ring.fmt(d1, 5), ring.fmt(d2, 5), ring.fmt(B[i, j, 0, 0], 5)))
    if which is None or "FJ" in which:
        B = blk(FJ, (3, 3, 1, 1))
        for i in range(3):
            for j in range(3):
                d1 = diff(gF[i, j, 0, 0], Js)
                d2 = diff(gJ[0, 0], F[i, j, 0, 0])
                okk = is_zero(d1 - B[i, j, 0, 0]) and is_zero(d2 - B[i, j, 0, 0])
                col.add("C03.O4", "%s.hessian block FJ[%d][%d]" % (label, i, j), "block (F,J) == d gradient_F/dJ == d gradient_J/dF", okk,
                        "" if okk else "%s: d gF/dJ = %s, d gJ/dF = %s, returned %s" % (wh, ring.fmt(d1, 5), ring.fmt(d2, 5), ring.fmt(B[i, j, 0, 0], 5)))
    if which is None or "pp" in which:
        for name, B, g, v, g2, v2 in (("pp", pp, gp, ps, gp, ps), ("pJ", pJ, gp, Js, gJ, ps), ("JJ", JJ, gJ, Js, gJ, Js)):
            Bv = blk(B, (1, 1))
            d1 = diff(g[0, 0], v)
            d2 = diff(g2[0, 0], v2)
            okk = is_zero(d1 - Bv[0, 0]) and is_zero(d2 - Bv[0, 0]) and Bv.shape == (1, 1)
            col.add("C03.O4", "%s.hessian block %s" % (label, name), "scalar block == mixed second derivative (both orders)", okk,
                    "" if okk else "%s: derivatives %s / %s, returned %s" % (wh, ring.fmt(d1, 5), ring.fmt(d2, 5), ring.fmt(Bv[0, 0], 5)))


def run_nearly(col, tier):
    it = new_interp()
    cls = it.get("felupe.constitution._mixed:NearlyIncompressible")
    for variant in ("default-U", "opaque-U"):
        ring.reset()
        it = new_interp()
        cls = it.get("felupe.constitution._mixed:NearlyIncompressible")
        inner = OpaqueHyper("Wm")
        bulk = sym("bulk", True)
        kw = dict(material=inner, bulk=bulk)
        if variant == "opaque-U":
            kw["dUdJ"] = lambda J, bulk: npmodel._elementwise(lambda v: ring.ofun("dU", [v, P(bulk)]), "dU")(J)
            kw["d2UdJdJ"] = lambda J, bulk: npmodel._elementwise(lambda v: ring.ofun("dU;0", [v, P(bulk)]), "d2U")(J)
        umat = it.call(cls, [], kw)
        F, p, J = Fsym(), scalar_field("p", positive=False), scalar_field("J")
        F0, p0, J0 = F.copy(), p.copy(), J.copy()
        sv = npmodel.zeros((0, 1, 1))
        g = it.call_method(umat, "gradient", [[F, p, J, sv]])
        h = it.call_method(umat, "hessian", [[F, p, J, sv]])
        label = "NearlyIncompressible(%s)" % variant
        col.add("C03.O4", "%s layout" % label, "gradient returns [dF, dp, dJ, statevars] and hessian six blocks in triu order", len(g) == 4 and len(h) == 6, "%d, %d" % (len(g), len(h)))
        # gradient: dW/dp and dW/dJ definitions: g_p = det F - J, g_J = U'(J) - p ; g_F = P + p dJ/dF
        detF = P(1)
        import itertools
        from .c17 import leibniz
        detF = leibniz(F[:, :, 0, 0])
        okp = is_zero(g[1][0, 0] - (detF - J[0, 0]))
        col.add("C03.O4", "%s.gradient p" % label, "constraint residual == det F - J", okp, ring.fmt(g[1][0, 0]))
        Pin = inner.gradient([F, sv])[0]
        bad = []
        for i in range(3):
            for j in range(3):
                want = Pin[i, j, 0, 0] + p[0, 0] * diff(detF, F[i, j, 0, 0])
                if not is_zero(g[0][i, j, 0, 0] - want):
                    bad.append((i, j))
        col.add("C03.O4", "%s.gradient F" % label, "stress == P(F) + p * d det F/dF", not bad, str(bad))
        mixed_block_obligations(col, label, cls, F, p, J, g[:3], h)
        col.add("C03.O1u", "%s inputs" % label, "F, p, J unchanged", same_arrays(F, F0) and same_arrays(p, p0) and same_arrays(J, J0))
    # stress-based inner material (tangent without major symmetry): the (F,F) block is the derivative of the returned stress
    ring.reset()
    it = new_interp()
    cls = it.get("felupe.constitution._mixed:NearlyIncompressible")
    umat = it.call(cls, [], dict(material=OpaqueStress("Ps"), bulk=sym("bulk", True)))
    F, p, J = Fsym(), scalar_field("p", positive=False), scalar_field("J")
    sv = npmodel.zeros((0, 1, 1))
    g = it.call_method(umat, "gradient", [[F, p, J, sv]])
    h = it.call_method(umat, "hessian", [[F, p, J, sv]])
    mixed_block_obligations(col, "NearlyIncompressible(stress-based inner material)", cls, F, p, J, g[:3], h, which=["FF"])
    # with a real inner material and out= passing
    ring.reset()
    it = new_interp()
    cls = it.get("felupe.constitution._mixed:NearlyIncompressible")
    nh = it.call(it.get("felupe.constitution.hyperelasticity._neo_hooke_nearly_incompressible:NeoHooke"), [], dict(mu=sym("mu", True)))
    umat = it.call(cls, [], dict(material=nh, bulk=sym("bulk", True)))
    F, p, J = Fsym(), scalar_field("p", positive=False), scalar_field("J")
    sv = npmodel.zeros((0, 1, 1))
    g = it.call_method(umat, "gradient", [[F, p, J, sv]])
    h = it.call_method(umat, "hessian", [[F, p, J, sv]])
    mixed_block_obligations(col, "NearlyIncompressible(NeoHooke)", cls, F, p, J, g[:3], h)
    def outbuf():
        g2 = it.call_method(umat, "gradient", [[F, p, J, sv]], dict(out=symarray("DIRTY", (3, 3, 1, 1))))
        h2 = it.call_method(umat, "hessian", [[F, p, J, sv]], dict(out=symarray("DIRTY", (3, 3, 3, 3, 1, 1))))
        return same_arrays(g2[0], g[0]) and same_arrays(h2[0], h[0]), "out= variants differ"
    col.check("C03.O1o", "NearlyIncompressible(NeoHooke) out=", "out buffers forwarded to the inner material give the same values", outbuf)
    finish_info(col, it)


def run_threefield(col, blocks):
    it = new_interp()
    cls = it.get("felupe.constitution._mixed:ThreeFieldVariation")
    inner = OpaqueHyper("Wm")
    umat = it.call(cls, [], dict(material=inner))
    F, p, J = Fsym(), scalar_field("p", positive=False), scalar_field("J")
    F0 = F.copy()
    sv = npmodel.zeros((0, 1, 1))
    g = it.call_method(umat, "gradient", [[F, p, J, sv]])
    label = "ThreeFieldVariation"
    if blocks.startswith("grad"):
        # the three gradients are the derivatives of W(Fbar) + p (det F - J) with Fbar = (J/det F)^(1/3) F
        from .c17 import leibniz
        detF = leibniz(F[:, :, 0, 0])
        s = ring.power(J[0, 0] * ring.inv(detF), Fraction(1, 3))
        Fb = np.empty((3, 3, 1, 1), dtype=object)
        for i in range(3):
            for j in range(3):
                Fb[i, j, 0, 0] = s * F[i, j, 0, 0]
        Wfun = inner.function([Fb, sv])[0][0, 0] + p[0, 0] * (detF - J[0, 0])
        for i in range(3):
            for j in range(3):
                d = diff(Wfun, F[i, j, 0, 0])
                okk = is_zero(d - g[0][i, j, 0, 0])
                col.add("C03.O5", "%s.gradient F[%d][%d]" % (label, i, j), "gradient_F == d/dF [W(Fbar) + p (det F - J)]", okk,
                        "" if okk else "%s" % method_where(cls, "gradient"))
        okk = is_zero(diff(Wfun, p[0, 0]) - g[1][0, 0])
        col.add("C03.O5", "%s.gradient p" % label, "gradient_p == d/dp of the functional", okk)
        okk = is_zero(diff(Wfun, J[0, 0]) - g[2][0, 0])
        col.add("C03.O5", "%s.gradient J" % label, "gradient_J == d/dJ of the functional", okk, ring.fmt(g[2][0, 0], 4))
    h = it.call_method(umat, "hessian", [[F, p, J, sv]])
    which = ["FF"] if blocks.startswith("grad") else ["Fp", "FJ", "pp"]
    mixed_block_obligations(col, label, cls, F, p, J, g[:3], h, which=which)
    col.add("C03.O1u", "%s inputs (%s)" % (label, blocks), "F unchanged", same_arrays(F, F0))
    if blocks.startswith("grad"):
        history_obligation(col, it, umat, label, cls, [F, p, J, sv], [Fsym(name="G"), scalar_field("p2", positive=False), scalar_field("J2"), sv], ngrad=3)
    else:
        # a history-dependent inner material (its gradient returns a *new* state): every inner evaluation of one hessian() call -- stress and
        # elasticity -- is made at the state variables the wrapper was given, not at a state one of the inner calls returned
        for wname in ("ThreeFieldVariation", "NearlyIncompressible"):
            ring.reset()
            it2 = new_interp()
            wcls = it2.get("felupe.constitution._mixed:" + wname)
            inner2 = OpaqueHyper("Wm", with_state=True)
            inner2.updates_state = True
            kw2 = dict(material=inner2)
            if wname == "NearlyIncompressible":
                kw2["bulk"] = sym("bulk", True)
            um2 = it2.call(wcls, [], kw2)
            F2, p2, J2 = Fsym(), scalar_field("p", positive=False), scalar_field("J")
            sv2 = np.empty((1, 1, 1), dtype=object)
            sv2[0, 0, 0] = sym("zeta_n")
            inner2.calls.clear()
            it2.call_method(um2, "hessian", [[F2, p2, J2, sv2]])
            seen = [(nm, [str(P(v)) for v in np.asarray(x_[-1]).reshape(-1)]) for nm, x_ in inner2.calls]
            okk = bool(seen) and all(st_ == ["zeta_n"] for _, st_ in seen)
            col.add("C03.O4", "%s.hessian inner evaluations (history-dependent inner material)" % wname,
                    "stress and elasticity of the inner material are evaluated at the stored state variables handed to hessian(), so that the blocks are derivatives of the gradient at fixed state",
                    okk, "%s: inner calls (method, state) %s" % (method_where(wcls, "hessian"), seen))
            g2 = it2.call_method(um2, "gradient", [[F2, p2, J2, sv2]])
            za = inner2.calls[-1][1][-1] if inner2.calls else None
            col.add("C03.O4", "%s.gradient state update (history-dependent inner material)" % wname, "the new state handed out is the one the inner material computed from the stored state",
                    g2[-1] is not None and len(np.asarray(g2[-1]).reshape(-1)) == 1 and "state" in str(P(np.asarray(g2[-1]).reshape(-1)[0])) and [str(P(v)) for v in np.asarray(za).reshape(-1)] == ["zeta_n"],
                    "%s: returned %s" % (method_where(wcls, "gradient"), [str(P(v)) for v in np.asarray(g2[-1]).reshape(-1)]))
        # an inner material given by its stress (no potential, tangent without major symmetry): the (F,F) block is still the derivative of
        # the returned stress -- F:A and A:F are different contractions
        ring.reset()
        it = new_interp()
        cls = it.get("felupe.constitution._mixed:ThreeFieldVariation")
        umat = it.call(cls, [], dict(material=OpaqueStress("Ps")))
        F, p, J = Fsym(), scalar_field("p", positive=False), scalar_field("J")
        g = it.call_method(umat, "gradient", [[F, p, J, sv]])
        h = it.call_method(umat, "hessian", [[F, p, J, sv]])
        mixed_block_obligations(col, label + "(stress-based inner material)", cls, F, p, J, g[:3], h, which=["FF"])
    finish_info(col, it)


def run_ogden(col, case):
    it = new_interp()
    cls = it.get("felupe.constitution.hyperelasticity._ogden_roxburgh:OgdenRoxburgh")
    inner = OpaqueHyper("Wm", with_state=True)
    r, m, beta = sym("r", True), sym("m", True), sym("beta", True)
    umat = it.call(cls, [], dict(material=inner, r=r, m=m, beta=beta))
    F = Fsym()
    F0 = F.copy()
    Wold = scalar_field("Wmax_n")
    sv = np.empty((1, 1, 1), dtype=object)
    sv[0] = Wold
    sv0 = sv.copy()
    npmodel.MAX_CASE[0] = "second" if case == "unloading" else "first"
    try:
        g = it.call_method(umat, "gradient", [[F, sv]])
        h = it.call_method(umat, "hessian", [[F, sv]])
    finally:
        npmodel.MAX_CASE[0] = None
    label = "OgdenRoxburgh(%s)" % case
    check_tensor_derivative(col, "C03.O6", "%s.hessian" % label, method_where(cls, "hessian"),
                            "hessian == d (eta P)/dF at fixed stored maximum" if case == "unloading" else
                            "primary loading (Wmax == W): eta == 1 and hessian == A (base material)", g[0], h[0], F, 2)
    Win = inner.function([F, sv])[0][0, 0]
    if case == "primary":
        Pin = inner.gradient([F, sv])[0]
        col.add("C03.O6", "%s.gradient" % label, "primary loading path equals the base material (eta == 1)", same_arrays(g[0], Pin))
        col.add("C03.O6", "%s state" % label, "new stored maximum == W", is_zero(g[1][0, 0, 0] - Win))
    else:
        col.add("C03.O6", "%s state" % label, "new stored maximum == old maximum", is_zero(g[1][0, 0, 0] - Wold[0, 0]))
    col.add("C03.O1u", "%s inputs" % label, "F and committed state unchanged", same_arrays(F, F0) and same_arrays(sv, sv0))
    npmodel.MAX_CASE[0] = "second" if case == "unloading" else "first"
    try:
        sv2 = np.empty((1, 1, 1), dtype=object)
        sv2[0] = scalar_field("Wmax_b")
        history_obligation(col, it, umat, label, cls, [F, sv], [Fsym(name="G"), sv2], ngrad=2)
    finally:
        npmodel.MAX_CASE[0] = None
    finish_info(col, it)


def _strain_state(nstate, dim=3, sym_blocks=(), suffix=""):
    """state vector [model state..., strain_old (dim*dim), stress_old (dim*dim)]; the stored strain and stress
    (and any model block listed in sym_blocks as (offset)) are symmetric tensors, as every state the
    framework itself produces is"""
    n = nstate + 2 * dim * dim
    sv = np.empty((n, 1, 1), dtype=object)
    for k in range(n):
        sv[k, 0, 0] = sym("sv%d%s" % (k, suffix))
    for off in tuple(sym_blocks) + (nstate, nstate + dim * dim):
        for i in range(dim):
            for j in range(i):
                sv[off + dim * i + j, 0, 0] = sv[off + dim * j + i, 0, 0]
    return sv


def run_strain_elastic(col):
    it = new_interp()
    cls = it.get("felupe.constitution.small_strain._material_strain:MaterialStrain")
    le = it.get("felupe.constitution.small_strain.models._linear_elastic:linear_elastic")
    lam, mu = sym("lam", True), sym("mu", True)
    umat = it.call(cls, [], {"material": le, "λ": lam, "μ": mu})
    F = Fsym()
    F0 = F.copy()
    sv = _strain_state(0)
    sv0 = sv.copy()
    g = it.call_method(umat, "gradient", [[F, sv]])
    h = it.call_method(umat, "hessian", [[F, sv]])
    check_tensor_derivative(col, "C03.O7", "MaterialStrain(linear_elastic).hessian", method_where(cls, "hessian"),
                            "hessian == d gradient / dF through eps = sym(F - 1)", g[0], h[0], F, 2)
    # new state = [strain_new, stress_new] flattened
    eps = np.empty((3, 3), dtype=object)
    for i in range(3):
        for j in range(3):
            eps[i, j] = (F[i, j, 0, 0] + F[j, i, 0, 0]) * Fraction(1, 2) - (1 if i == j else 0)
    okk = all(is_zero(g[1][3 * i + j, 0, 0] - eps[i, j]) for i in range(3) for j in range(3)) and \
        all(is_zero(g[1][9 + 3 * i + j, 0, 0] - g[0][i, j, 0, 0]) for i in range(3) for j in range(3))
    col.add("C03.O7", "MaterialStrain.gradient state", "new state holds the new strain and the new stress (row-major)", okk)
    col.add("C03.O1u", "MaterialStrain inputs", "F and committed state unchanged", same_arrays(F, F0) and same_arrays(sv, sv0))
    finish_info(col, it)


def run_plastic(col, case):
    it = new_interp()
    cls = it.get("felupe.constitution.small_strain.models._linear_elastic_plastic_isotropic:LinearElasticPlasticIsotropicHardening")
    E, nu, sy, K = sym("E", True), sym("nu", True), sym("sy", True), sym("K", True)
    umat = it.call(cls, [], dict(E=E, nu=nu, sy=sy, K=K))
    mixed = case == "mixed"
    if mixed:
        # two quadrature points in one call: point 0 yields, point 1 does not (the masked update of the radial return)
        F = Fsym(trailing=(2, 1))
        sv = np.concatenate([_strain_state(1 + 9, sym_blocks=(1,), suffix=""), _strain_state(1 + 9, sym_blocks=(1,), suffix="_q1")], axis=1)
    else:
        F = Fsym()
        sv = _strain_state(1 + 9, sym_blocks=(1,))
    F0 = F.copy()
    sv0 = sv.copy()

    def oracle(a, b, op):
        # the only symbolic order comparison in the model is the yield test f > 0
        if op == ">" and b.is_const() and b.const_value() == 0:
            if mixed:
                return "sv0_q1" not in str(a)
            return case == "plastic"
        return None

    ring.ORDER_ORACLE[0] = oracle
    try:
        g = it.call_method(umat, "gradient", [[F, sv]])
        h = it.call_method(umat, "hessian", [[F, sv]])
    finally:
        ring.ORDER_ORACLE[0] = None
    label = "LinearElasticPlasticIsotropicHardening(%s)" % case
    if mixed:
        for q, what in ((0, "yielding"), (1, "elastic")):
            check_tensor_derivative(col, "C03.O7", "%s.hessian point %d" % (label, q), method_where(cls.mro[1], "hessian"),
                                    "hessian == d gradient/dF at the %s point of a call in which only some points yield" % what,
                                    g[0][:, :, q:q + 1], h[0][:, :, :, :, q:q + 1], F[:, :, q:q + 1], 2)
    else:
        check_tensor_derivative(col, "C03.O7", "%s.hessian" % label, method_where(cls.mro[1], "hessian"),
                                "hessian == d gradient/dF (algorithmically consistent tangent; f > 0 %s)" % ("everywhere" if case == "plastic" else "nowhere"),
                                g[0], h[0], F, 2)
    col.add("C03.O1u", "%s inputs" % label, "F and committed state unchanged", same_arrays(F, F0) and same_arrays(sv, sv0))
    finish_info(col, it)


def run_composite(col):
    it = new_interp()
    cls = it.get("felupe.constitution._base:CompositeMaterial")
    a, b = OpaqueHyper("Wa", with_state=True), OpaqueHyper("Wb", with_state=True)
    umat = it.call(cls, [], dict(material=a, other_material=b))
    F = Fsym()
    sv = np.empty((1, 1, 1), dtype=object)
    sv[0, 0, 0] = sym("z")
    g = it.call_method(umat, "gradient", [[F, sv]])
    h = it.call_method(umat, "hessian", [[F, sv]])
    Pa, Pb = a.gradient([F, sv])[0], b.gradient([F, sv])[0]
    Aa, Ab = a.hessian([F, sv])[0], b.hessian([F, sv])[0]
    col.add("C03.O8", "CompositeMaterial.gradient", "sum of both materials' stresses; state variables of the first", same_arrays(g[0], Pa + Pb) and g[1] is not None and same_arrays(g[1], sv) and len(g) == 2)
    # history-dependent first material, state-free second one (a & Volumetric): the composite hands out the *first* material's new state
    for first, second in ((True, False), (True, True)):
        a2, b2 = OpaqueHyper("Wa", with_state=True), OpaqueHyper("Wb", with_state=True)
        a2.updates_state, b2.updates_state = first, second
        um2 = it.call(cls, [], dict(material=a2, other_material=b2))
        g2 = it.call_method(um2, "gradient", [[F, sv]])
        za = a2.gradient([F, sv])[1]
        col.add("C03.O8", "CompositeMaterial.gradient state update (second material %s)" % ("updates its own copy" if second else "passes the old state through"),
                "the new state variables handed out are those the first material computed (documented: state variables are only considered for the first material)",
                len(g2) == 2 and g2[1] is not None and same_arrays(g2[1], za), "%s: returned %s, first material's new state %s" % (
                    method_where(cls, "gradient"), [ring.fmt(P(v), 2) for v in np.asarray(g2[1]).reshape(-1)], [ring.fmt(P(v), 2) for v in np.asarray(za).reshape(-1)]))
    col.add("C03.O8", "CompositeMaterial.hessian", "sum of both materials' elasticity tensors", same_arrays(h[0], Aa + Ab) and len(h) == 1)
    check_tensor_derivative(col, "C03.O8", "CompositeMaterial.hessian", method_where(cls, "hessian"), "hessian == d gradient/dF", g[0], h[0], F, 2)
    # felupe's own materials with out= support merged (NeoHooke & Volumetric): a supplied buffer must not be shared by the two materials
    nh = it.call(it.get("felupe.constitution.hyperelasticity._neo_hooke_nearly_incompressible:NeoHooke"), [], dict(mu=sym("mu", True)))
    vol = it.call(it.get("felupe.constitution.hyperelasticity._volumetric:Volumetric"), [], dict(bulk=sym("bulk", True)))
    um3 = it.call(cls, [], dict(material=nh, other_material=vol))
    sv0 = npmodel.zeros((0, 1, 1))
    g3 = it.call_method(um3, "gradient", [[F, sv0]])
    h3 = it.call_method(um3, "hessian", [[F, sv0]])
    check_tensor_derivative(col, "C03.O8", "CompositeMaterial(NeoHooke & Volumetric).hessian", method_where(cls, "hessian"), "hessian == d gradient/dF", g3[0], h3[0], F, 2)

    def g_out():
        r = it.call_method(um3, "gradient", [[F, sv0]], dict(out=symarray("DIRTY", (3, 3, 1, 1))))[0]
        return same_arrays(r, g3[0]), "%s: gradient(out=buffer) differs from gradient()" % method_where(cls, "gradient")
    col.check("C03.O1o", "CompositeMaterial(NeoHooke & Volumetric).gradient out=", "a supplied out buffer yields the same stress as no buffer (the merged materials must not both write their result into it)", g_out)

    def h_out():
        r = it.call_method(um3, "hessian", [[F, sv0]], dict(out=symarray("DIRTY", (3, 3, 3, 3, 1, 1))))[0]
        return same_arrays(r, h3[0]), "%s: hessian(out=buffer) differs from hessian()" % method_where(cls, "hessian")
    col.check("C03.O1o", "CompositeMaterial(NeoHooke & Volumetric).hessian out=", "a supplied out buffer yields the same elasticity as no buffer", h_out)
    finish_info(col, it)


def run_kinematics(col):
    """LineChange / AreaChange / VolumeChange: gradient = d function/dF, hessian = d gradient/dF (also used by C01)"""
    it = new_interp()
    base = "felupe.constitution._kinematics:"
    F = Fsym()
    F0 = F.copy()
    N = np.empty((3, 1, 1), dtype=object)
    for i in range(3):
        N[i, 0, 0] = sym("N%d" % i)
    vc = it.call(it.get(base + "VolumeChange"), [], {})
    J = it.call_method(vc, "function", [[F]])[0]
    dJ = it.call_method(vc, "gradient", [[F]])[0]
    d2J = it.call_method(vc, "hessian", [[F]])[0]
    cls = it.get(base + "VolumeChange")
    check_scalar_derivative(col, "C03.O10", "VolumeChange.gradient", method_where(cls, "gradient"), "gradient == d det(F)/dF", J, dJ, F)
    check_tensor_derivative(col, "C03.O10", "VolumeChange.hessian", method_where(cls, "hessian"), "hessian == d gradient/dF", dJ, d2J, F, 2)
    for par in (False, True):
        ac = it.call(it.get(base + "AreaChange"), [], dict(parallel=par))
        cls = it.get(base + "AreaChange")
        Fs = it.call_method(ac, "function", [[F]])[0]
        dFs = it.call_method(ac, "gradient", [[F]])[0]
        check_tensor_derivative(col, "C03.O10", "AreaChange(parallel=%s).gradient" % par, method_where(cls, "gradient"), "gradient == d (J F^-T)/dF", Fs, dFs, F, 2)
        FsN = it.call_method(ac, "function", [[F]], dict(N=N))[0]
        dFsN = it.call_method(ac, "gradient", [[F]], dict(N=N))[0]
        check_tensor_derivative(col, "C03.O10", "AreaChange(parallel=%s, N).gradient" % par, method_where(cls, "gradient"),
                                "gradient(N) == d (J F^-T N)/dF", FsN, dFsN, F, 1)
        want = np.einsum("ij...,j...->i...", Fs, N)
        col.add("C03.O10", "AreaChange(parallel=%s, N).function" % par, "function(N) == (J F^-T) N", same_arrays(FsN, want))
    lc = it.call(it.get(base + "LineChange"), [], {})
    cls = it.get(base + "LineChange")
    Fl = it.call_method(lc, "function", [[F]])[0]
    dFl = it.call_method(lc, "gradient", [[F]])[0]
    check_tensor_derivative(col, "C03.O10", "LineChange.gradient", method_where(cls, "gradient"), "gradient == d F/dF", Fl, np.broadcast_to(dFl, (3, 3, 3, 3, 1, 1)), F, 2)
    col.add("C03.O1u", "kinematics inputs", "F unchanged", same_arrays(F, F0))
    finish_info(col, it)


def run_wrappers(col):
    from . import c03_wrappers

    c03_wrappers.run(col)


def run_canary(col):
    import os
    from ..runner import VERIF
    from ..interp import Interp

    it = Interp(src_root=os.path.join(VERIF, "fixtures"))
    cls = it.get("felupe.canary_material:BadNeoHooke")
    umat = it.call(cls, [], dict(mu=sym("mu", True)))
    F = Fsym()
    sv = npmodel.zeros((0, 1, 1))
    P_ = it.call_method(umat, "gradient", [[F, sv]])[0]
    W = it.call_method(umat, "function", [[F, sv]])[0]
    bad = [(i, j) for i in range(3) for j in range(3) if not is_zero(diff(W[0, 0], F[i, j, 0, 0]) - P_[i, j, 0, 0])]
    col.info["canaries_expected"] = 1
    col.info["canaries_fired"] = 1 if len(bad) == 9 else 0
    col.add("canary", "fixtures/canary_material.py BadNeoHooke", "the derivative rule flags the seeded exponent", len(bad) == 9, str(bad), nontrivial=False)
