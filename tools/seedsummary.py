#!/usr/bin/env python3
"""Rebuild /verif/seeded/SUMMARY.json from the meta.json files (after partial runs of tools/seedrecheck.py <names>)."""
import json
import os

VERIF = os.path.dirname(os.path.dirname(os.path.abspath(__file__)))
root = os.path.join(VERIF, "seeded")
summary = {}
for name in sorted(d for d in os.listdir(root) if os.path.isdir(os.path.join(root, d))):
    meta = json.load(open(os.path.join(root, name, "meta.json")))
    e = dict(property=meta["property"], confirmed=meta.get("confirmed"), caught_by=meta.get("caught_by", []),
             exits={c: v["exit"] for c, v in meta.get("checks", {}).items()})
    if meta.get("neutralised_by_fix"):
        e["neutralised_by_fix"] = meta["neutralised_by_fix"]
    summary[name] = e
json.dump(summary, open(os.path.join(root, "SUMMARY.json"), "w"), indent=1)
own = sum(1 for k, v in summary.items() if v["property"] in v["caught_by"])
neut = sum(1 for v in summary.values() if v.get("neutralised_by_fix"))
print(len(summary), "seeds;", own, "caught by the property's own check;", neut, "neutralised by repairs;",
      [k for k, v in summary.items() if v["property"] not in v["caught_by"] and not v.get("neutralised_by_fix")], "open")
