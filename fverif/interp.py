"""E2 -- AST evaluator (algebraic value numbering over numpy object arrays of ring elements).

The Python interpreter never executes a felupe statement: modules are parsed with ``ast`` and
walked here.  Third-party modules are *summaries* (see npmodel.py); unknown ones are opaque and
raise ``Undecided`` when used.
"""

import ast
import os
import operator
import builtins as _bi
from fractions import Fraction

import numpy as np

from . import ring
from .ring import Poly, Undecided, P

SRC_ROOT = os.environ.get("FVERIF_SRC", "/repo/src")


class InterpRaise(Exception):
    """an exception raised by interpreted code"""

    def __init__(self, exc, where=None, origin="interp"):
        Exception.__init__(self, "%s: %s" % (type(exc).__name__, exc))
        self.exc = exc
        self.where = where
        self.origin = origin  # 'raise' (explicit raise statement) | 'interp' | 'native' (inside a summary)


class _Return(Exception):
    def __init__(self, v):
        self.v = v


class _Break(Exception):
    pass


class _Continue(Exception):
    pass


# ------------------------------------------------------------------------------------------
# value classes
# ------------------------------------------------------------------------------------------
class Env:
    __slots__ = ("d", "parent", "globals_", "nonlocals")

    def __init__(self, parent=None, d=None):
        self.d = d if d is not None else {}
        self.parent = parent
        self.globals_ = None
        self.nonlocals = None

    def lookup(self, name):
        e = self
        while e is not None:
            if name in e.d:
                return e.d[name]
            e = e.parent
        raise KeyError(name)

    def root(self):
        e = self
        while e.parent is not None and e.parent.parent is not None:
            e = e.parent
        return e


class LazyRef:
    __slots__ = ("modname", "name", "level_pkg")

    def __init__(self, modname, name):
        self.modname = modname
        self.name = name


class ModuleValue:
    def __init__(self, name, path, is_pkg):
        self.name = name
        self.path = path
        self.is_pkg = is_pkg
        self.env = None
        self.tree = None

    def __repr__(self):
        return "<module %s>" % self.name


class OpaqueModule:
    def __init__(self, name):
        self._name = name

    def __repr__(self):
        return "<opaque module %s>" % self._name


class Opaque:
    """a value about which nothing is known; any use raises Undecided"""

    def __init__(self, desc):
        self.desc = desc

    def __repr__(self):
        return "<opaque %s>" % self.desc

    def __call__(self, *a, **k):
        raise Undecided("call of opaque %s" % self.desc)


class FunctionValue:
    def __init__(self, interp, node, env, module, qualname, defaults, kw_defaults, cls=None):
        self.interp = interp
        self.node = node
        self.env = env
        self.module = module
        self.qualname = qualname
        self.defaults = defaults
        self.kw_defaults = kw_defaults
        self.cls = cls  # defining class (for super())
        self.attrs = {}
        self.__name__ = getattr(node, "name", "<lambda>")

    def __call__(self, *a, **k):
        return self.interp.call(self, list(a), dict(k))

    def __repr__(self):
        return "<function %s.%s>" % (self.module.name if self.module else "?", self.qualname)


class ClassValue:
    def __init__(self, name, bases, ns, module, node):
        self.name = name
        self.bases = bases
        self.ns = ns
        self.module = module
        self.node = node
        self.mro = self._mro()

    def _mro(self):
        out = [self]
        for b in self.bases:
            if isinstance(b, ClassValue):
                for c in b.mro:
                    if c not in out:
                        out.append(c)
        return out

    def find(self, name):
        for c in self.mro:
            if name in c.ns:
                return c.ns[name], c
        return None, None

    def issub(self, other):
        return other in self.mro

    def __call__(self, *a, **k):
        # a class handed to a host-level summary (functools.partial, map, ...) is instantiated by the running interpreter
        return _INTERP[0].call(self, list(a), dict(k))

    def __repr__(self):
        return "<class %s>" % self.name


class Instance:
    def __init__(self, cls):
        object.__setattr__(self, "cls", cls)
        object.__setattr__(self, "attrs", {})

    def __repr__(self):
        return "<%s instance>" % self.cls.name

    # let native helpers (len(), iteration through numpy-free code) work on interpreted objects
    def __len__(self):
        return _INTERP[0].call_method(self, "__len__", [])

    def __getitem__(self, i):
        return _INTERP[0].call_method(self, "__getitem__", [i])

    def __iter__(self):
        it = _INTERP[0]
        f, _ = self.cls.find("__iter__")
        if f is not None:
            return iter(it.call_method(self, "__iter__", []))
        if self.cls.find("__len__")[0] is not None:
            n = it.call_method(self, "__len__", [])
            return iter([it.call_method(self, "__getitem__", [i]) for i in range(n)])
        # the legacy sequence protocol: __getitem__(0), (1), ... until IndexError
        out = []
        i = 0
        while True:
            try:
                out.append(it.call_method(self, "__getitem__", [i]))
            except InterpRaise as e:
                if isinstance(e.exc, IndexError):
                    break
                raise
            i += 1
            if i > 100000:
                raise it.undecided("unbounded __getitem__ iteration")
        return iter(out)

    def __call__(self, *a, **k):
        return _INTERP[0].call_method(self, "__call__", list(a), dict(k))


class DictInstance(dict):
    """instance of an interpreted class that subclasses the builtin dict"""

    def __init__(self, cls):
        dict.__init__(self)
        self.cls = cls
        self.attrs = {}


class BoundMethod:
    def __init__(self, obj, fn):
        self.obj = obj
        self.fn = fn
        self.__name__ = getattr(fn, "__name__", "?")

    def __call__(self, *a, **k):
        return self.fn.interp.call(self, list(a), dict(k))

    def __repr__(self):
        return "<bound %r of %r>" % (self.fn, self.obj)


class PropertyValue:
    def __init__(self, fget):
        self.fget = fget
        self.fset = None


class StaticMethodValue:
    def __init__(self, fn):
        self.fn = fn


class ClassMethodValue:
    def __init__(self, fn):
        self.fn = fn


class SuperValue:
    def __init__(self, cls, obj):
        self.cls = cls
        self.obj = obj


class GeneratorResult(list):
    """eagerly collected yields of an interpreted generator function"""


class LazyGen:
    """an interpreted generator run in its own thread with strict hand-off, so that the consumer's statements
    interleave with the generator body exactly as in python (Job.evaluate <-> Step.generate)"""

    def __init__(self, run):
        import queue
        import threading

        self._run = run
        self._out = queue.Queue(1)
        self._in = queue.Queue(1)
        self._thread = None
        self._threading = threading
        self.done = False

    def _body(self):
        try:
            self._run(self)
            self._out.put(("stop", None))
        except BaseException as e:  # noqa
            self._out.put(("raise", e))

    def emit(self, value):
        self._out.put(("yield", value))
        self._in.get()

    def append(self, value):
        self.emit(value)

    def __iter__(self):
        return self

    def __next__(self):
        if self.done:
            raise StopIteration
        if self._thread is None:
            self._thread = self._threading.Thread(target=self._body, daemon=True)
            self._thread.start()
        else:
            self._in.put("go")
        kind, val = self._out.get()
        if kind == "yield":
            return val
        self.done = True
        if kind == "raise":
            raise val
        raise StopIteration


_INTERP = [None]


# exception classes usable from interpreted code
_EXC = {
    n: getattr(_bi, n)
    for n in (
        "Exception ValueError TypeError KeyError IndexError AttributeError RuntimeError "
        "NotImplementedError ImportError ModuleNotFoundError ZeroDivisionError StopIteration "
        "AssertionError ArithmeticError FloatingPointError Warning UserWarning "
        "DeprecationWarning RuntimeWarning OverflowError NameError"
    ).split()
}


class TypeMarker:
    """stand-in for builtin / numpy types in isinstance and conversions"""

    def __init__(self, name, conv, test):
        self.name = name
        self.conv = conv
        self.test = test
        self.__name__ = name

    def __call__(self, *a, **k):
        return self.conv(*a, **k)

    def __repr__(self):
        return "<type %s>" % self.name


def _to_int(x):
    if isinstance(x, (bool, int)):
        return int(x)
    if isinstance(x, Fraction):
        return int(x)  # truncation, as int(float)
    if isinstance(x, Poly):
        v = x.const_value()
        return int(v)
    if isinstance(x, (np.integer, np.bool_)):
        return int(x)
    if isinstance(x, str):
        return int(x)
    if isinstance(x, np.ndarray) and x.size == 1:
        return _to_int(x.reshape(-1)[0])
    raise Undecided("int() of %r" % (x,))


def _to_float(x=0):
    if isinstance(x, (bool, int)):
        return Fraction(int(x))
    if isinstance(x, Fraction):
        return x
    if isinstance(x, Poly):
        return x.const_value() if x.is_const() else x
    if isinstance(x, (np.integer, np.bool_)):
        return Fraction(int(x))
    if isinstance(x, str):
        from decimal import Decimal

        if x in ("inf", "nan", "-inf"):
            raise Undecided("float(%r)" % x)
        return Fraction(Decimal(x))
    if isinstance(x, np.ndarray) and x.size == 1:
        return _to_float(x.reshape(-1)[0])
    raise Undecided("float() of %r" % (x,))


def _is_int(x):
    return isinstance(x, (int, np.integer)) and not isinstance(x, (bool, np.bool_))


def _is_float(x):
    return isinstance(x, (Fraction, Poly))


T_INT = TypeMarker("int", _to_int, _is_int)
T_FLOAT = TypeMarker("float", _to_float, _is_float)
T_BOOL = TypeMarker("bool", lambda x=False: truth(x), lambda x: isinstance(x, (bool, np.bool_)))
T_STR = TypeMarker("str", lambda x="": x if isinstance(x, str) else _str(x), lambda x: isinstance(x, str))
T_OBJECT = TypeMarker("object", lambda: Opaque("object()"), lambda x: True)


def _str(x):
    if isinstance(x, Fraction):
        return str(float(x)) if x.denominator != 1 else str(float(x))
    return str(x)


def truth(x):
    if isinstance(x, Poly):
        return bool(x)
    if isinstance(x, np.ndarray):
        if x.size == 1:
            return truth(x.reshape(-1)[0])
        raise InterpRaise(ValueError("truth value of an array with more than one element is ambiguous"))
    if isinstance(x, Instance):
        f, _ = x.cls.find("__bool__")
        if f is not None:
            return truth(_INTERP[0].call_method(x, "__bool__", []))
        f, _ = x.cls.find("__len__")
        if f is not None:
            return _INTERP[0].call_method(x, "__len__", []) != 0
        return True
    if isinstance(x, Opaque):
        raise Undecided("truth value of %r" % x)
    return bool(x)


# ------------------------------------------------------------------------------------------
# the interpreter
# ------------------------------------------------------------------------------------------
class Interp:
    def __init__(self, src_root=None, externals=None):
        from . import npmodel

        self.src_root = src_root or SRC_ROOT
        self.modules = {}
        self.externals = dict(npmodel.externals(self))
        if externals:
            self.externals.update(externals)
        self.stack = []  # (module, qualname, lineno)
        self.trace_functions = {}  # (module, qualname) -> lineno
        self.files_read = {}
        self.events = []  # ('warn', ...), ('raise', ...)
        self.builtins = self._make_builtins()
        self.call_depth = 0
        self.steps = 0
        self.max_steps = int(os.environ.get("FVERIF_MAX_STEPS", "50000000"))
        self.literal_hook = None  # callable(interp, node, float) -> value | None
        self.lazy_generators = False  # True: generator functions run lazily (threads with hand-off)
        self.call_hooks = {}  # (module name, qualname) -> python callable(interp, fn, args, kwargs)
        _INTERP[0] = self

    # -- modules -------------------------------------------------------------------------------
    def _find(self, name):
        parts = name.split(".")
        base = os.path.join(self.src_root, *parts)
        if os.path.isdir(base) and os.path.isfile(os.path.join(base, "__init__.py")):
            return os.path.join(base, "__init__.py"), True
        if os.path.isfile(base + ".py"):
            return base + ".py", False
        return None, False

    def module(self, name):
        if name in self.modules:
            return self.modules[name]
        if name in self.externals:
            return self.externals[name]
        top = name.split(".")[0]
        if top != "felupe":
            # longest external prefix
            m = OpaqueModule(name)
            self.modules[name] = m
            return m
        path, is_pkg = self._find(name)
        if path is None:
            raise InterpRaise(ModuleNotFoundError("No module named %r" % name))
        mod = ModuleValue(name, path, is_pkg)
        self.modules[name] = mod
        with open(path, "rb") as f:
            data = f.read()
        import hashlib

        self.files_read[os.path.relpath(path, self.src_root)] = hashlib.sha256(data).hexdigest()[:16]
        mod.tree = ast.parse(data, filename=path)
        mod.env = Env(parent=Env(d=self.builtins), d={"__name__": name, "__file__": path})
        self.stack.append((mod, "<module>", 0))
        try:
            self.exec_block(mod.tree.body, mod.env, mod)
        finally:
            self.stack.pop()
        return mod

    def get(self, dotted):
        """'felupe.math._tensor:det' or 'felupe.math._tensor.det' -> value"""
        if ":" in dotted:
            mn, attr = dotted.split(":")
        else:
            mn, attr = dotted.rsplit(".", 1)
        v = self.module(mn)
        for a in attr.split("."):
            v = self.getattr(v, a)
        return v

    def _resolve_lazy(self, v):
        while isinstance(v, LazyRef):
            m = self.module(v.modname)
            if isinstance(m, ModuleValue):
                nv0 = m.env.d.get(v.name)
                self_ref = isinstance(nv0, LazyRef) and nv0.modname == v.modname and nv0.name == v.name
                if v.name in m.env.d and not self_ref:
                    nv = m.env.d[v.name]
                    if isinstance(nv, LazyRef):
                        nv = self._resolve_lazy(nv)
                        m.env.d[v.name] = nv
                    v = nv
                else:
                    # a submodule?
                    sub = v.modname + "." + v.name
                    p, _ = self._find(sub)
                    if p is None:
                        raise InterpRaise(ImportError("cannot import name %r from %r" % (v.name, v.modname)))
                    v = self.module(sub)
            else:
                v = self.getattr(m, v.name)
        return v

    # -- builtins ------------------------------------------------------------------------------
    def _make_builtins(self):
        it = self

        def _isinstance(x, t):
            ts = t if isinstance(t, tuple) else (t,)
            for tt in ts:
                if isinstance(tt, TypeMarker):
                    if tt.test(x):
                        return True
                elif isinstance(tt, ClassValue):
                    if isinstance(x, Instance) and x.cls.issub(tt):
                        return True
                elif isinstance(tt, type):
                    if isinstance(x, tt):
                        return True
                elif isinstance(tt, Opaque) or isinstance(tt, OpaqueModule):
                    continue
                else:
                    raise Undecided("isinstance against %r" % (tt,))
            return False

        def _issubclass(c, t):
            ts = t if isinstance(t, tuple) else (t,)
            return any(isinstance(c, ClassValue) and isinstance(tt, ClassValue) and c.issub(tt) for tt in ts)

        def _hasattr(o, n):
            try:
                it.getattr(o, n)
                return True
            except InterpRaise as e:
                if isinstance(e.exc, AttributeError):
                    return False
                raise

        def _getattr(o, n, *d):
            try:
                return it.getattr(o, n)
            except InterpRaise as e:
                if d and isinstance(e.exc, AttributeError):
                    return d[0]
                raise

        def _setattr(o, n, v):
            it.setattr(o, n, v)

        def _type(x):
            if isinstance(x, Instance):
                return x.cls
            if isinstance(x, (Fraction, Poly)):
                return T_FLOAT
            if isinstance(x, bool):
                return T_BOOL
            if isinstance(x, int):
                return T_INT
            return type(x)

        def _sum(xs, start=0):
            r = start
            for x in xs:
                r = it.binop(ast.Add, r, x)
            return r

        def _abs(x):
            if isinstance(x, np.ndarray):
                return it.externals["numpy"].ns["abs"](x)
            return abs(x)

        def _print(*a, **k):
            return None

        def _callable(x):
            return callable(x) and not isinstance(x, Instance) or (
                isinstance(x, Instance) and x.cls.find("__call__")[0] is not None
            )

        def _max(*a, **k):
            key = k.pop("key", None)
            if len(a) == 1:
                a = list(a[0])
            if key is not None:
                return max(a, key=key)
            return max(a)

        def _min(*a, **k):
            key = k.pop("key", None)
            if len(a) == 1:
                a = list(a[0])
            if key is not None:
                return min(a, key=key)
            return min(a)

        def _round(x, n=None):
            if isinstance(x, Poly):
                x = x.const_value()
            r = round(x, n) if n is not None else round(x)
            return r

        def _range(*a):
            return range(*[_to_int(x) for x in a])

        def _divmod(a, b):
            return (it.binop(ast.FloorDiv, a, b), it.binop(ast.Mod, a, b))

        def _pow(a, b):
            return it.binop(ast.Pow, a, b)

        def _len(x):
            if isinstance(x, Instance):
                return it.call_method(x, "__len__", [])
            return len(x)

        def _iter(x):
            return iter(it.iterate(x))

        def _id(x):
            return id(x)

        def _vars(x):
            if isinstance(x, Instance):
                return x.attrs
            raise Undecided("vars()")

        b = {
            "range": _range, "len": _len, "zip": zip, "enumerate": enumerate,
            "tuple": TypeMarker("tuple", lambda x=(): tuple(it.iterate(x)), lambda x: isinstance(x, tuple)),
            "list": TypeMarker("list", lambda x=(): list(it.iterate(x)), lambda x: isinstance(x, list)),
            "dict": TypeMarker("dict", dict, lambda x: isinstance(x, dict)),
            "set": TypeMarker("set", lambda x=(): set(it.iterate(x)), lambda x: isinstance(x, set)),
            "frozenset": frozenset,
            "int": T_INT, "float": T_FLOAT, "bool": T_BOOL, "str": T_STR, "object": T_OBJECT,
            "isinstance": _isinstance, "issubclass": _issubclass, "hasattr": _hasattr, "getattr": _getattr,
            "setattr": _setattr, "type": _type, "sum": _sum, "abs": _abs, "print": _print, "callable": _callable,
            "max": _max, "min": _min, "round": _round, "slice": slice, "sorted": sorted, "reversed": reversed,
            "any": lambda xs: any(truth(x) for x in it.iterate(xs)), "all": lambda xs: all(truth(x) for x in it.iterate(xs)),
            "map": lambda f, *xs: list(map(f, *xs)), "filter": lambda f, xs: [x for x in xs if truth(f(x))],
            "divmod": _divmod, "pow": _pow, "iter": _iter, "next": next, "id": _id, "vars": _vars,
            "repr": repr, "NotImplemented": NotImplemented, "Ellipsis": Ellipsis, "True": True, "False": False,
            "None": None, "__debug__": True, "complex": TypeMarker("complex", lambda *a: (_ for _ in ()).throw(Undecided("complex")), lambda x: False),
            "staticmethod": StaticMethodValue, "classmethod": ClassMethodValue, "property": PropertyValue,
            "super": None, "open": Opaque("open"), "input": Opaque("input"),
        }
        b.update(_EXC)
        return b

    # -- helpers -------------------------------------------------------------------------------
    def where(self):
        if not self.stack:
            return "?"
        mod, qn, ln = self.stack[-1]
        return "%s:%s %s" % (os.path.relpath(mod.path, self.src_root) if isinstance(mod, ModuleValue) else mod, ln, qn)

    def undecided(self, msg):
        return Undecided("%s [at %s]" % (msg, self.where()))

    def iterate(self, x):
        if isinstance(x, (list, tuple, range, dict, set, frozenset, str, GeneratorResult)):
            return x
        if isinstance(x, np.ndarray):
            return list(x)
        if isinstance(x, Instance):
            return list(iter(x))
        if isinstance(x, (zip, enumerate, map, filter, reversed)) or hasattr(x, "__next__"):
            return list(x)
        if isinstance(x, (type({}.keys()), type({}.values()), type({}.items()))):
            return list(x)
        try:
            return list(x)
        except TypeError:
            raise self.undecided("iteration over %r" % (x,))

    # -- attribute access ------------------------------------------------------------------------
    def getattr(self, obj, name):
        if isinstance(obj, Instance):
            if name in obj.attrs:
                return obj.attrs[name]
            if name == "__class__":
                return obj.cls
            if name == "__dict__":
                return obj.attrs
            v, owner = obj.cls.find(name)
            if owner is None:
                ga, _ = obj.cls.find("__getattr__")
                if ga is not None:
                    return self.call(BoundMethod(obj, ga), [name], {})
                raise InterpRaise(AttributeError("%r object has no attribute %r" % (obj.cls.name, name)), self.where())
            return self._bind(v, obj, obj.cls)
        if isinstance(obj, DictInstance):
            if name in obj.attrs:
                return obj.attrs[name]
            v, owner = obj.cls.find(name)
            if owner is not None:
                return self._bind(v, obj, obj.cls)
            try:
                return getattr(obj, name)
            except AttributeError as e:
                raise InterpRaise(e, self.where())
        if isinstance(obj, ClassValue):
            if name == "__name__":
                return obj.name
            v, owner = obj.find(name)
            if owner is None:
                raise InterpRaise(AttributeError("class %r has no attribute %r" % (obj.name, name)), self.where())
            if isinstance(v, StaticMethodValue):
                return v.fn
            if isinstance(v, ClassMethodValue):
                return BoundMethod(obj, v.fn)
            return v
        if isinstance(obj, ModuleValue):
            if name in obj.env.d:
                v = obj.env.d[name]
                if isinstance(v, LazyRef):
                    v = self._resolve_lazy(v)
                    obj.env.d[name] = v
                return v
            if obj.is_pkg:
                sub = obj.name + "." + name
                p, _ = self._find(sub)
                if p is not None:
                    return self.module(sub)
            raise InterpRaise(AttributeError("module %r has no attribute %r" % (obj.name, name)), self.where())
        if isinstance(obj, SuperValue):
            mro = obj.obj.cls.mro if isinstance(obj.obj, Instance) else obj.obj.mro
            i = mro.index(obj.cls)
            for c in mro[i + 1:]:
                if name in c.ns:
                    return self._bind(c.ns[name], obj.obj, c)
            if name == "__init__":
                return lambda *a, **k: None
            raise InterpRaise(AttributeError("super has no attribute %r" % name), self.where())
        if isinstance(obj, OpaqueModule):
            return Opaque("%s.%s" % (obj._name, name))
        if isinstance(obj, Opaque):
            return Opaque("%s.%s" % (obj.desc, name))
        if isinstance(obj, FunctionValue):
            if name in obj.attrs:
                return obj.attrs[name]
            if name == "__name__":
                return obj.node.name if hasattr(obj.node, "name") else "<lambda>"
            if name == "__doc__":
                return ast.get_docstring(obj.node) if not isinstance(obj.node, ast.Lambda) else None
            raise InterpRaise(AttributeError("function has no attribute %r" % name), self.where())
        if isinstance(obj, BoundMethod):
            return self.getattr(obj.fn, name)
        from . import npmodel

        r = npmodel.native_getattr(self, obj, name)
        return r

    def _bind(self, v, obj, cls):
        if isinstance(v, FunctionValue):
            return BoundMethod(obj, v)
        if isinstance(v, PropertyValue):
            return self.call(v.fget, [obj], {})
        if isinstance(v, StaticMethodValue):
            return v.fn
        if isinstance(v, ClassMethodValue):
            return BoundMethod(obj.cls if isinstance(obj, Instance) else obj, v.fn)
        return v

    def setattr(self, obj, name, val):
        if isinstance(obj, Instance):
            v, owner = obj.cls.find(name)
            if isinstance(v, PropertyValue) and v.fset is not None:
                self.call(v.fset, [obj, val], {})
                return
            obj.attrs[name] = val
            return
        if isinstance(obj, FunctionValue):
            obj.attrs[name] = val
            return
        if isinstance(obj, ClassValue):
            obj.ns[name] = val
            return
        if isinstance(obj, ModuleValue):
            obj.env.d[name] = val
            return
        from . import npmodel

        if npmodel.native_setattr(self, obj, name, val):
            return
        if hasattr(obj, "__dict__") and type(obj).__module__.startswith("fverif"):
            # python-side stand-ins built by the checker (fake regions / elements / materials)
            setattr(obj, name, val)
            return
        raise self.undecided("attribute store on %r.%s" % (type(obj).__name__, name))

    def call_method(self, obj, name, args, kwargs=None):
        return self.call(self.getattr(obj, name), args, kwargs or {})

    # -- calls -----------------------------------------------------------------------------------
    def call(self, fn, args, kwargs):
        if isinstance(fn, BoundMethod):
            return self.call(fn.fn, [fn.obj] + list(args), kwargs)
        if isinstance(fn, FunctionValue):
            hook = self.call_hooks.get((fn.module.name, fn.qualname)) if self.call_hooks else None
            if hook is not None:
                r = hook(self, fn, args, kwargs)
                if r is not NotImplemented:
                    return r
            return self._call_function(fn, args, kwargs)
        if isinstance(fn, ClassValue):
            hook = self.call_hooks.get((getattr(fn.module, "name", None), fn.name)) if self.call_hooks else None
            if hook is not None:
                r = hook(self, fn, args, kwargs)
                if r is not NotImplemented:
                    return r
            return self.instantiate(fn, args, kwargs)
        if isinstance(fn, Instance):
            return self.call_method(fn, "__call__", args, kwargs)
        if isinstance(fn, StaticMethodValue):
            return self.call(fn.fn, args, kwargs)
        if isinstance(fn, Opaque):
            raise self.undecided("call of opaque %s" % fn.desc)
        if fn is None:
            raise InterpRaise(TypeError("'NoneType' object is not callable"), self.where())
        if callable(fn):
            from . import npmodel

            try:
                return npmodel.san(fn(*args, **kwargs), getattr(fn, "__name__", repr(fn)))
            except (Undecided, InterpRaise, _Return, _Break, _Continue):
                raise
            except RecursionError:
                raise
            except npmodel.Modelled as e:
                raise InterpRaise(e.exc, self.where())
            except Exception as e:  # native failure inside a summary: an interpreted-program error
                if isinstance(e, tuple(_EXC.values())) and not isinstance(e, AssertionError):
                    raise InterpRaise(e, self.where(), origin="native")
                raise
        raise self.undecided("call of non-callable %r" % (fn,))

    def instantiate(self, cls, args, kwargs):
        # exception classes defined in interpreted code are rare; plain instances otherwise
        new, _ = cls.find("__new__")
        if any(isinstance(b, TypeMarker) and b.name == "dict" for c in cls.mro for b in c.bases):
            obj = DictInstance(cls)
            init, _ = cls.find("__init__")
            if init is not None:
                self.call(init, [obj] + list(args), kwargs)
            else:
                obj.update(*args, **kwargs)
            return obj
        obj = Instance(cls)
        init, owner = cls.find("__init__")
        if init is not None:
            self.call(init, [obj] + list(args), kwargs)
        elif args or kwargs:
            # builtin bases (Exception ...) accept args
            obj.attrs["args"] = tuple(args)
        return obj

    def _call_function(self, fn, args, kwargs):
        node = fn.node
        a = node.args
        env = Env(parent=fn.env)
        d = env.d
        params = [p.arg for p in getattr(a, "posonlyargs", [])] + [p.arg for p in a.args]
        npos = len(params)
        args = list(args)
        if len(args) > npos:
            if a.vararg is None:
                raise InterpRaise(
                    TypeError("%s() takes %d positional arguments but %d were given" % (fn.qualname, npos, len(args))),
                    self.where(),
                )
            d[a.vararg.arg] = tuple(args[npos:])
            args = args[:npos]
        elif a.vararg is not None:
            d[a.vararg.arg] = ()
        for n, v in zip(params, args):
            d[n] = v
        kwargs = dict(kwargs)
        kwonly = [p.arg for p in a.kwonlyargs]
        for n in params[len(args):]:
            if n in kwargs:
                d[n] = kwargs.pop(n)
        for n in params[:len(args)]:
            if n in kwargs:
                raise InterpRaise(TypeError("%s() got multiple values for argument %r" % (fn.qualname, n)), self.where())
        ndef = len(fn.defaults)
        for i, n in enumerate(params):
            if n not in d:
                j = i - (npos - ndef)
                if j >= 0:
                    d[n] = fn.defaults[j]
                else:
                    raise InterpRaise(
                        TypeError("%s() missing required positional argument %r" % (fn.qualname, n)), self.where()
                    )
        for n, dv in zip(kwonly, fn.kw_defaults):
            if n in kwargs:
                d[n] = kwargs.pop(n)
            elif dv is not _NODEFAULT:
                d[n] = dv
            else:
                raise InterpRaise(TypeError("%s() missing keyword-only argument %r" % (fn.qualname, n)), self.where())
        if a.kwarg is not None:
            d[a.kwarg.arg] = kwargs
        elif kwargs:
            raise InterpRaise(
                TypeError("%s() got an unexpected keyword argument %r" % (fn.qualname, sorted(kwargs)[0])), self.where()
            )
        self.call_depth += 1
        if self.call_depth > 180:
            self.call_depth -= 1
            raise self.undecided("call depth exceeded")
        self.stack.append((fn.module, fn.qualname, getattr(node, "lineno", 0)))
        key = (fn.module.name, fn.qualname)
        if key not in self.trace_functions:
            self.trace_functions[key] = getattr(node, "lineno", 0)
        env.nonlocals = fn  # for super()
        try:
            if isinstance(node, ast.Lambda):
                return self.eval(node.body, env)
            if getattr(fn, "_is_gen", None) is None:
                fn._is_gen = _has_yield(node)
            if fn._is_gen:
                if self.lazy_generators:
                    def run(gen, env=env, node=node, fn=fn):
                        env.d["$yields"] = gen
                        try:
                            self.exec_block(node.body, env, fn.module)
                        except _Return:
                            pass
                    return LazyGen(run)
                acc = GeneratorResult()
                env.d["$yields"] = acc
                try:
                    self.exec_block(node.body, env, fn.module)
                except _Return:
                    pass
                return acc
            try:
                self.exec_block(node.body, env, fn.module)
            except _Return as r:
                return r.v
            return None
        finally:
            self.stack.pop()
            self.call_depth -= 1

    # -- statements ------------------------------------------------------------------------------
    def exec_block(self, body, env, module):
        for st in body:
            self.exec(st, env, module)

    def exec(self, st, env, module):
        self.steps += 1
        if self.steps > self.max_steps:
            raise self.undecided("step budget exceeded")
        if self.stack:
            m, q, _ = self.stack[-1]
            self.stack[-1] = (m, q, st.lineno)
        meth = getattr(self, "s_" + type(st).__name__, None)
        if meth is None:
            raise self.undecided("statement %s" % type(st).__name__)
        meth(st, env, module)

    def s_Expr(self, st, env, module):
        if isinstance(st.value, (ast.Yield, ast.YieldFrom)):
            self.eval(st.value, env)
            return
        if isinstance(st.value, ast.Constant):
            return
        self.eval(st.value, env)

    def s_Pass(self, st, env, module):
        pass

    def s_Assign(self, st, env, module):
        v = self.eval(st.value, env)
        for t in st.targets:
            self.assign(t, v, env)

    def s_AnnAssign(self, st, env, module):
        if st.value is not None:
            self.assign(st.target, self.eval(st.value, env), env)

    def _inplace(self, op, cur, val):
        """python's augmented assignment protocol for interpreted instances: __iop__ first, then __op__"""
        if isinstance(cur, Instance):
            nm = self._DUNDER.get(op)
            f, _ = cur.cls.find("__i%s__" % nm)
            if f is not None:
                r = self.call(BoundMethod(cur, f), [val], {})
                if r is not NotImplemented:
                    return r
        return self.binop(op, cur, val)

    def s_AugAssign(self, st, env, module):
        t = st.target
        if isinstance(t, ast.Name) and isinstance(self.lookup(t.id, env), Instance):
            cur = self.lookup(t.id, env)
            self.assign(t, self._inplace(type(st.op), cur, self.eval(st.value, env)), env)
            return
        if isinstance(t, ast.Name):
            cur = self.lookup(t.id, env)
            val = self.eval(st.value, env)
            if isinstance(cur, np.ndarray):
                res = self.binop(type(st.op), cur, val)
                if isinstance(res, np.ndarray) and res.shape == cur.shape and (cur.dtype == res.dtype or cur.dtype == object):
                    cur[...] = res
                    return
                if isinstance(res, np.ndarray) and res.shape != cur.shape:
                    raise InterpRaise(ValueError("non-broadcastable output operand in augmented assignment"), self.where())
                if cur.dtype != object and isinstance(res, np.ndarray):
                    # numpy would raise a casting error (int array += float): follow it
                    raise InterpRaise(TypeError("cannot cast ufunc output to %s" % cur.dtype), self.where())
                cur[...] = res
                return
            if isinstance(cur, list) and isinstance(st.op, ast.Add):
                cur.extend(self.iterate(val))
                return
            from .npmodel import AbstractSparse

            if isinstance(cur, AbstractSparse) and isinstance(st.op, (ast.Mult, ast.Div)):
                # scipy.sparse scales in place for scalars (`K *= m` changes the object every alias refers to); other operands fall back
                r = cur.__imul__(val) if isinstance(st.op, ast.Mult) else cur.__itruediv__(val)
                if r is not NotImplemented:
                    self.assign(t, r, env)
                    return
            self.assign(t, self.binop(type(st.op), cur, val), env)
        elif isinstance(t, ast.Attribute):
            obj = self.eval(t.value, env)
            cur = self.getattr(obj, t.attr)
            val = self.eval(st.value, env)
            if isinstance(cur, np.ndarray):
                res = self.binop(type(st.op), cur, val)
                if isinstance(res, np.ndarray) and res.shape == cur.shape:
                    cur[...] = res
                    return
                raise self.undecided("augmented attribute assignment changing shape")
            self.setattr(obj, t.attr, self._inplace(type(st.op), cur, val))
        elif isinstance(t, ast.Subscript):
            obj = self.eval(t.value, env)
            idx = self.eval_index(t.slice, env)
            cur = self.getitem(obj, idx)
            val = self.eval(st.value, env)
            self.setitem(obj, idx, self._inplace(type(st.op), cur, val))
        else:
            raise self.undecided("augmented assignment target")

    def assign(self, t, v, env):
        if isinstance(t, ast.Name):
            e = env
            if env.globals_ and t.id in env.globals_:
                e = env
                while e.parent is not None and e.parent.parent is not None:
                    e = e.parent
            e.d[t.id] = v
        elif isinstance(t, (ast.Tuple, ast.List)):
            vals = self.iterate(v)
            star = [i for i, x in enumerate(t.elts) if isinstance(x, ast.Starred)]
            if star:
                i = star[0]
                n_after = len(t.elts) - i - 1
                vals = list(vals)
                if len(vals) < len(t.elts) - 1:
                    raise InterpRaise(ValueError("not enough values to unpack"), self.where())
                for tt, vv in zip(t.elts[:i], vals[:i]):
                    self.assign(tt, vv, env)
                self.assign(t.elts[i].value, list(vals[i:len(vals) - n_after]), env)
                for tt, vv in zip(t.elts[i + 1:], vals[len(vals) - n_after:]):
                    self.assign(tt, vv, env)
                return
            if len(vals) != len(t.elts):
                raise InterpRaise(
                    ValueError("cannot unpack %d values into %d targets" % (len(vals), len(t.elts))), self.where()
                )
            for tt, vv in zip(t.elts, vals):
                self.assign(tt, vv, env)
        elif isinstance(t, ast.Attribute):
            self.setattr(self.eval(t.value, env), t.attr, v)
        elif isinstance(t, ast.Subscript):
            obj = self.eval(t.value, env)
            self.setitem(obj, self.eval_index(t.slice, env), v)
        else:
            raise self.undecided("assignment target %s" % type(t).__name__)

    def s_If(self, st, env, module):
        if truth(self.eval(st.test, env)):
            self.exec_block(st.body, env, module)
        else:
            self.exec_block(st.orelse, env, module)

    def s_For(self, st, env, module):
        src = self.eval(st.iter, env)
        if isinstance(src, (LazyGen, enumerate, zip)) and self.lazy_generators:
            it = src  # lazy: the body interleaves with the generator
        else:
            it = self.iterate(src)
        broke = False
        for v in it:
            self.assign(st.target, v, env)
            try:
                self.exec_block(st.body, env, module)
            except _Break:
                broke = True
                break
            except _Continue:
                continue
        if not broke:
            self.exec_block(st.orelse, env, module)

    def s_While(self, st, env, module):
        n = 0
        while truth(self.eval(st.test, env)):
            n += 1
            if n > 100000:
                raise self.undecided("while loop bound")
            try:
                self.exec_block(st.body, env, module)
            except _Break:
                return
            except _Continue:
                continue
        self.exec_block(st.orelse, env, module)

    def s_Break(self, st, env, module):
        raise _Break()

    def s_Continue(self, st, env, module):
        raise _Continue()

    def s_Return(self, st, env, module):
        raise _Return(self.eval(st.value, env) if st.value is not None else None)

    def s_Raise(self, st, env, module):
        if st.exc is None:
            cur = env.lookup("$exc") if True else None
            raise cur
        v = self.eval(st.exc, env)
        if isinstance(v, type) and issubclass(v, BaseException):
            v = v()
        if isinstance(v, Instance):
            e = Exception("%s%r" % (v.cls.name, v.attrs.get("args", ())))
            e.instance = v
            v = e
        self.events.append(("raise", type(v).__name__, str(v), self.where()))
        raise InterpRaise(v, self.where(), origin="raise")

    def s_Assert(self, st, env, module):
        if not truth(self.eval(st.test, env)):
            raise InterpRaise(AssertionError(ast.unparse(st.test)), self.where())

    def s_Delete(self, st, env, module):
        for t in st.targets:
            if isinstance(t, ast.Name):
                env.d.pop(t.id, None)
            elif isinstance(t, ast.Subscript):
                obj = self.eval(t.value, env)
                del obj[self.eval_index(t.slice, env)]
            else:
                raise self.undecided("del target")

    def s_Global(self, st, env, module):
        env.globals_ = set(st.names) | (env.globals_ or set())

    def s_Nonlocal(self, st, env, module):
        raise self.undecided("nonlocal")

    def s_Import(self, st, env, module):
        for al in st.names:
            if al.asname:
                env.d[al.asname] = self.module(al.name)
            else:
                top = al.name.split(".")[0]
                env.d[top] = self.module(top)
                if "." in al.name:
                    self.module(al.name)

    def _abs_modname(self, module, level, name):
        if level == 0:
            return name
        pkg = module.name if module.is_pkg else module.name.rsplit(".", 1)[0]
        for _ in range(level - 1):
            pkg = pkg.rsplit(".", 1)[0]
        return pkg + ("." + name if name else "")

    def s_ImportFrom(self, st, env, module):
        mn = self._abs_modname(module, st.level, st.module)
        top = mn.split(".")[0]
        if top != "felupe":
            m = self.module(mn)
            if isinstance(m, OpaqueModule) and mn in _MISSING_MODULES:
                raise InterpRaise(ModuleNotFoundError("No module named %r" % mn), self.where())
            for al in st.names:
                if al.name == "*":
                    raise self.undecided("star import from external")
                env.d[al.asname or al.name] = self.getattr(m, al.name)
            return
        if self._find(mn)[0] is None:
            raise InterpRaise(ModuleNotFoundError("No module named %r" % mn), self.where())
        for al in st.names:
            if al.name == "*":
                m = self.module(mn)
                for k, v in m.env.d.items():
                    if not k.startswith("_"):
                        env.d[k] = v
                continue
            env.d[al.asname or al.name] = LazyRef(mn, al.name)

    def s_Try(self, st, env, module):
        try:
            try:
                self.exec_block(st.body, env, module)
            except InterpRaise as e:
                for h in st.handlers:
                    if h.type is None:
                        match = True
                    else:
                        t = self.eval(h.type, env)
                        ts = t if isinstance(t, tuple) else (t,)
                        match = any(isinstance(tt, type) and isinstance(e.exc, tt) for tt in ts)
                    if match:
                        if h.name:
                            env.d[h.name] = e.exc
                        env.d["$exc"] = e
                        self.exec_block(h.body, env, module)
                        break
                else:
                    raise
            else:
                self.exec_block(st.orelse, env, module)
        finally:
            self.exec_block(st.finalbody, env, module)

    def s_With(self, st, env, module):
        from . import npmodel

        mgrs = []
        for item in st.items:
            m = self.eval(item.context_expr, env)
            if isinstance(m, Instance):
                v = self.call_method(m, "__enter__", [])
            elif isinstance(m, npmodel.NullContext):
                v = m.enter()
            elif hasattr(m, "__enter__") and type(m).__module__.startswith("fverif"):
                v = m.__enter__()
            else:
                raise self.undecided("with over %r" % (m,))
            if item.optional_vars is not None:
                self.assign(item.optional_vars, v, env)
            mgrs.append(m)
        try:
            self.exec_block(st.body, env, module)
        finally:
            for m in reversed(mgrs):
                if isinstance(m, Instance):
                    self.call_method(m, "__exit__", [None, None, None])
                elif isinstance(m, npmodel.NullContext):
                    m.exit()
                else:
                    m.__exit__(None, None, None)

    def s_FunctionDef(self, st, env, module):
        fn = self.make_function(st, env, module, st.name if not self._cls_stack else self._cls_stack[-1][0] + "." + st.name)
        v = fn
        for dec in reversed(st.decorator_list):
            v = self.apply_decorator(dec, v, env)
        env.d[st.name] = v

    _cls_stack = []

    def apply_decorator(self, dec, v, env):
        # property setters: @x.setter
        if isinstance(dec, ast.Attribute) and dec.attr == "setter":
            prop = self.eval(dec.value, env)
            if isinstance(prop, PropertyValue):
                p = PropertyValue(prop.fget)
                p.fset = v
                return p
        d = self.eval(dec, env)
        return self.call(d, [v], {})

    def make_function(self, node, env, module, qualname):
        a = node.args
        defaults = [self.eval(x, env) for x in a.defaults]
        kw_defaults = [self.eval(x, env) if x is not None else _NODEFAULT for x in a.kw_defaults]
        cls = self._cls_stack[-1][1] if self._cls_stack else None
        return FunctionValue(self, node, env, module, qualname, defaults, kw_defaults, cls)

    def s_ClassDef(self, st, env, module):
        bases = [self.eval(b, env) for b in st.bases]
        ns = {}
        cenv = Env(parent=env, d=ns)
        holder = [st.name, None]
        self._cls_stack = self._cls_stack + [holder]
        try:
            # methods close over the enclosing env, not the class body (python semantics)
            for s in st.body:
                if isinstance(s, ast.FunctionDef):
                    fn = self.make_function(s, env, module, st.name + "." + s.name)
                    fn.cls = holder
                    v = fn
                    for dec in reversed(s.decorator_list):
                        v = self.apply_decorator(dec, v, cenv)
                    ns[s.name] = v
                else:
                    self.exec(s, cenv, module)
        finally:
            self._cls_stack = self._cls_stack[:-1]
        cls = ClassValue(st.name, bases, ns, module, st)
        holder[1] = cls
        for dec in reversed(st.decorator_list):
            cls = self.call(self.eval(dec, env), [cls], {})
        env.d[st.name] = cls

    # -- expressions -----------------------------------------------------------------------------
    def lookup(self, name, env):
        try:
            v = env.lookup(name)
        except KeyError:
            raise InterpRaise(NameError("name %r is not defined" % name), self.where())
        if isinstance(v, LazyRef):
            v = self._resolve_lazy(v)
            # cache in the defining env
            e = env
            while e is not None:
                if name in e.d:
                    e.d[name] = v
                    break
                e = e.parent
        return v

    def eval(self, n, env):
        meth = getattr(self, "e_" + type(n).__name__, None)
        if meth is None:
            raise self.undecided("expression %s" % type(n).__name__)
        return meth(n, env)

    def e_Constant(self, n, env):
        v = n.value
        if isinstance(v, float):
            if self.literal_hook is not None:
                r = self.literal_hook(self, n, v)
                if r is not None:
                    return r
            return ring._fr(v)
        if isinstance(v, complex):
            raise self.undecided("complex literal")
        return v

    def e_Name(self, n, env):
        if n.id == "super":
            return self._super_factory(env)
        return self.lookup(n.id, env)

    def _super_factory(self, env):
        # find the enclosing function's class and first argument
        e = env
        while e is not None and not isinstance(e.nonlocals, FunctionValue):
            e = e.parent
        if e is None:
            raise self.undecided("super() outside a method")
        fn = e.nonlocals
        holder = fn.cls
        cls = holder[1] if isinstance(holder, list) else holder
        first = fn.node.args.args[0].arg
        obj = e.d[first]

        def _super(*a):
            if a:
                return SuperValue(a[0], a[1])
            return SuperValue(cls, obj)

        return _super

    def e_Tuple(self, n, env):
        return tuple(self._elts(n.elts, env))

    def e_List(self, n, env):
        return list(self._elts(n.elts, env))

    def e_Set(self, n, env):
        return set(self._elts(n.elts, env))

    def _elts(self, elts, env):
        out = []
        for x in elts:
            if isinstance(x, ast.Starred):
                out.extend(self.iterate(self.eval(x.value, env)))
            else:
                out.append(self.eval(x, env))
        return out

    def e_Dict(self, n, env):
        d = {}
        for k, v in zip(n.keys, n.values):
            if k is None:
                d.update(self.eval(v, env))
            else:
                d[self.eval(k, env)] = self.eval(v, env)
        return d

    def e_JoinedStr(self, n, env):
        out = []
        for v in n.values:
            if isinstance(v, ast.Constant):
                out.append(str(v.value))
            else:
                x = self.eval(v.value, env)
                spec = self.eval(v.format_spec, env) if v.format_spec is not None else ""
                if isinstance(x, (Fraction, Poly)):
                    x = float(x) if (isinstance(x, Fraction) or x.is_const()) else str(x)
                try:
                    out.append(format(x, spec))
                except (TypeError, ValueError):
                    out.append(str(x))
        return "".join(out)

    def e_FormattedValue(self, n, env):
        return self.e_JoinedStr(ast.JoinedStr(values=[n]), env)

    def e_Attribute(self, n, env):
        return self.getattr(self.eval(n.value, env), n.attr)

    def e_Slice(self, n, env):
        f = lambda x: None if x is None else self._idx_scalar(self.eval(x, env))
        return slice(f(n.lower), f(n.upper), f(n.step))

    def _idx_scalar(self, v):
        if v is None or isinstance(v, (int, np.integer)):
            return v
        if isinstance(v, (Fraction, Poly)):
            return _to_int_exact(v)
        return v

    def eval_index(self, sl, env):
        if isinstance(sl, ast.Tuple):
            return tuple(self.eval_index(e, env) for e in sl.elts) if not any(
                isinstance(e, ast.Starred) for e in sl.elts
            ) else tuple(self._elts(sl.elts, env))
        return self.eval(sl, env)

    def e_Subscript(self, n, env):
        return self.getitem(self.eval(n.value, env), self.eval_index(n.slice, env))

    def getitem(self, obj, idx):
        from . import npmodel

        if isinstance(obj, np.ndarray):
            try:
                return npmodel.san(obj[npmodel.fix_index(idx)], "getitem")
            except IndexError as e:  # numpy's own indexing on concrete shapes / indices: exact semantics
                raise InterpRaise(e, self.where())
        if isinstance(obj, (list, tuple, str, range)):
            if isinstance(idx, slice):
                return obj[idx]
            if isinstance(idx, (Fraction, Poly)):
                idx = _to_int_exact(idx)
            if isinstance(idx, np.ndarray) and idx.size == 1:
                idx = int(idx)
            try:
                return obj[idx]
            except IndexError as e:
                raise InterpRaise(e, self.where())
            except TypeError as e:
                raise InterpRaise(e, self.where())
        if isinstance(obj, dict):
            try:
                return obj[idx]
            except KeyError as e:
                raise InterpRaise(e, self.where())
        if isinstance(obj, Instance):
            return self.call_method(obj, "__getitem__", [idx])
        if obj is None:
            raise InterpRaise(TypeError("'NoneType' object is not subscriptable"), self.where())
        if isinstance(obj, (Opaque, OpaqueModule)):
            raise self.undecided("subscript of %r" % obj)
        if isinstance(obj, (TypeMarker, ClassValue)):
            return obj  # typing generics
        try:
            return npmodel.san(obj[idx], "getitem")
        except (TypeError, KeyError, IndexError) as e:
            raise InterpRaise(e, self.where())

    def setitem(self, obj, idx, val):
        from . import npmodel

        if isinstance(obj, np.ndarray):
            try:
                npmodel.array_setitem(obj, npmodel.fix_index(idx), val)
            except IndexError as e:
                raise InterpRaise(e, self.where())
            return
        if isinstance(obj, list):
            if isinstance(idx, (Fraction, Poly)):
                idx = _to_int_exact(idx)
            obj[idx] = val
            return
        if isinstance(obj, dict):
            obj[idx] = val
            return
        if isinstance(obj, Instance):
            self.call_method(obj, "__setitem__", [idx, val])
            return
        if npmodel.native_setitem(self, obj, idx, val):
            return
        raise self.undecided("item store on %r" % type(obj).__name__)

    def e_Starred(self, n, env):
        raise self.undecided("starred expression")

    def e_Call(self, n, env):
        fn = self.eval(n.func, env)
        args = []
        for a in n.args:
            if isinstance(a, ast.Starred):
                args.extend(self.iterate(self.eval(a.value, env)))
            else:
                args.append(self.eval(a, env))
        kwargs = {}
        for k in n.keywords:
            if k.arg is None:
                extra = self.eval(k.value, env)
                for kk in extra:
                    if kk in kwargs:
                        # python: f(a=1, **{"a": 2}) is a TypeError
                        raise InterpRaise(TypeError("got multiple values for keyword argument '%s'" % kk), self.where())
                kwargs.update(extra)
            else:
                if k.arg in kwargs:
                    raise InterpRaise(TypeError("got multiple values for keyword argument '%s'" % k.arg), self.where())
                kwargs[k.arg] = self.eval(k.value, env)
        return self.call(fn, args, kwargs)

    def e_Lambda(self, n, env):
        return self.make_function(n, env, self.stack[-1][0] if self.stack else None, "<lambda>")

    def e_IfExp(self, n, env):
        return self.eval(n.body, env) if truth(self.eval(n.test, env)) else self.eval(n.orelse, env)

    def e_BoolOp(self, n, env):
        if isinstance(n.op, ast.And):
            v = True
            for x in n.values:
                v = self.eval(x, env)
                if not truth(v):
                    return v
            return v
        v = False
        for x in n.values:
            v = self.eval(x, env)
            if truth(v):
                return v
        return v

    def e_UnaryOp(self, n, env):
        v = self.eval(n.operand, env)
        if isinstance(n.op, ast.Not):
            return not truth(v)
        if isinstance(n.op, ast.USub):
            if isinstance(v, Instance):
                return self.call_method(v, "__neg__", [])
            return -v
        if isinstance(n.op, ast.UAdd):
            return v
        if isinstance(n.op, ast.Invert):
            return ~v
        raise self.undecided("unary op")

    def e_BinOp(self, n, env):
        return self.binop(type(n.op), self.eval(n.left, env), self.eval(n.right, env))

    _OPS = {
        ast.Add: operator.add, ast.Sub: operator.sub, ast.Mult: operator.mul, ast.Div: operator.truediv,
        ast.FloorDiv: operator.floordiv, ast.Mod: operator.mod, ast.Pow: operator.pow, ast.MatMult: operator.matmul,
        ast.BitAnd: operator.and_, ast.BitOr: operator.or_, ast.BitXor: operator.xor,
        ast.LShift: operator.lshift, ast.RShift: operator.rshift,
    }
    _DUNDER = {
        ast.Add: "add", ast.Sub: "sub", ast.Mult: "mul", ast.Div: "truediv", ast.FloorDiv: "floordiv",
        ast.Mod: "mod", ast.Pow: "pow", ast.MatMult: "matmul", ast.BitAnd: "and", ast.BitOr: "or",
    }

    def binop(self, op, a, b):
        from . import npmodel

        if isinstance(a, Instance) or isinstance(b, Instance):
            name = self._DUNDER.get(op)
            if isinstance(a, Instance):
                f, _ = a.cls.find("__%s__" % name)
                if f is not None:
                    r = self.call(BoundMethod(a, f), [b], {})
                    if r is not NotImplemented:
                        return r
            if isinstance(b, Instance):
                f, _ = b.cls.find("__r%s__" % name)
                if f is not None:
                    r = self.call(BoundMethod(b, f), [a], {})
                    if r is not NotImplemented:
                        return r
            raise InterpRaise(TypeError("unsupported operand types for %s" % name), self.where())
        if isinstance(a, (Opaque, OpaqueModule)) or isinstance(b, (Opaque, OpaqueModule)):
            raise self.undecided("arithmetic on opaque value")
        a_arr = isinstance(a, np.ndarray)
        b_arr = isinstance(b, np.ndarray)
        f = self._OPS[op]
        if a_arr or b_arr:
            return npmodel.array_binop(self, op, f, a, b)
        # scalars
        if isinstance(a, (np.integer, np.bool_)):
            a = int(a)
        if isinstance(b, (np.integer, np.bool_)):
            b = int(b)
        num_a = isinstance(a, (int, Fraction, Poly)) and not isinstance(a, bool) or isinstance(a, bool)
        num_b = isinstance(b, (int, Fraction, Poly)) and not isinstance(b, bool) or isinstance(b, bool)
        if num_a and num_b:
            if op is ast.Div:
                if isinstance(a, Poly) or isinstance(b, Poly):
                    return a / b
                if b == 0:
                    raise InterpRaise(ZeroDivisionError("division by zero"), self.where())
                return Fraction(a) / Fraction(b)
            if op is ast.Pow:
                if isinstance(a, Poly) or isinstance(b, Poly):
                    return ring.power(P(a), b)
                if isinstance(b, int):
                    if b >= 0:
                        return a ** b
                    return Fraction(a) ** b
                # rational exponent
                if b.denominator == 1:
                    return Fraction(a) ** b.numerator
                r = ring.const_pow(Fraction(a), b)
                return r.const_value() if r.is_const() else r
            if op in (ast.FloorDiv, ast.Mod) and (isinstance(a, Poly) or isinstance(b, Poly)):
                return f(P(a), P(b))
            try:
                return f(a, b)
            except ZeroDivisionError as e:
                raise InterpRaise(e, self.where())
        if isinstance(a, str) and op is ast.Mod:
            return a % (tuple(float(x) if isinstance(x, Fraction) else x for x in b) if isinstance(b, tuple) else (float(b) if isinstance(b, Fraction) else b))
        if isinstance(a, (list, tuple, str)) or isinstance(b, (list, tuple, str)):
            if op is ast.Mult:
                if isinstance(a, (Fraction, Poly)):
                    a = _to_int_exact(a)
                if isinstance(b, (Fraction, Poly)):
                    b = _to_int_exact(b)
            try:
                return f(a, b)
            except TypeError as e:
                raise InterpRaise(e, self.where())
        if isinstance(a, (set, frozenset, dict)) or isinstance(b, (set, frozenset, dict)):
            return f(a, b)
        if a is None or b is None:
            raise InterpRaise(TypeError("unsupported operand type(s): NoneType"), self.where())
        try:
            return npmodel.san(f(a, b), "binop")
        except TypeError as e:
            raise InterpRaise(e, self.where())

    def e_Compare(self, n, env):
        left = self.eval(n.left, env)
        res = True
        for op, rn in zip(n.ops, n.comparators):
            right = self.eval(rn, env)
            r = self.compare(type(op), left, right)
            if len(n.ops) == 1:
                return r
            if not truth(r):
                return r
            res = r
            left = right
        return res

    def compare(self, op, a, b):
        from . import npmodel

        if op is ast.Is:
            return a is b or (isinstance(a, TypeMarker) and a is b)
        if op is ast.IsNot:
            return not (a is b)
        if op in (ast.In, ast.NotIn):
            if isinstance(b, Instance):
                r = truth(self.call_method(b, "__contains__", [a]))
            elif isinstance(b, np.ndarray):
                r = bool(np.any(b == a))
            elif isinstance(b, (Opaque, OpaqueModule)):
                raise self.undecided("membership in opaque")
            else:
                r = a in b
            return r if op is ast.In else not r
        if isinstance(a, Instance) or isinstance(b, Instance):
            nm = {ast.Eq: "__eq__", ast.NotEq: "__ne__", ast.Lt: "__lt__", ast.LtE: "__le__", ast.Gt: "__gt__", ast.GtE: "__ge__"}[op]
            if isinstance(a, Instance) and a.cls.find(nm)[0] is not None:
                return self.call_method(a, nm, [b])
            if op is ast.Eq:
                return a is b
            if op is ast.NotEq:
                return a is not b
            raise self.undecided("comparison of instances")
        f = {ast.Eq: operator.eq, ast.NotEq: operator.ne, ast.Lt: operator.lt, ast.LtE: operator.le,
             ast.Gt: operator.gt, ast.GtE: operator.ge}[op]
        if isinstance(a, npmodel.Infinity) or isinstance(b, npmodel.Infinity):
            if isinstance(a, npmodel.Infinity) and isinstance(b, npmodel.Infinity):
                return f(a.sign, b.sign)
            if isinstance(a, npmodel.Infinity):
                return f(a.sign, 0)
            return f(0, b.sign)
        if isinstance(a, np.ndarray) or isinstance(b, np.ndarray):
            return npmodel.array_compare(self, f, a, b)
        if isinstance(a, (Opaque, OpaqueModule)) or isinstance(b, (Opaque, OpaqueModule)):
            raise self.undecided("comparison with opaque value")
        if isinstance(a, TypeMarker) or isinstance(b, TypeMarker):
            # e.g. dtype == float
            return npmodel.type_eq(a, b) if op is ast.Eq else (not npmodel.type_eq(a, b))
        try:
            return f(a, b)
        except TypeError as e:
            raise InterpRaise(e, self.where())

    def _comp(self, gens, env, emit):
        def rec(i, e):
            if i == len(gens):
                emit(e)
                return
            g = gens[i]
            for v in self.iterate(self.eval(g.iter, e)):
                self.assign(g.target, v, e)
                if all(truth(self.eval(c, e)) for c in g.ifs):
                    rec(i + 1, e)

        rec(0, Env(parent=env))

    def e_ListComp(self, n, env):
        out = []
        self._comp(n.generators, env, lambda e: out.append(self.eval(n.elt, e)))
        return out

    def e_GeneratorExp(self, n, env):
        return self.e_ListComp(n, env)

    def e_SetComp(self, n, env):
        return set(self.e_ListComp(n, env))

    def e_DictComp(self, n, env):
        out = {}

        def emit(e):
            k = self.eval(n.key, e)
            out[k] = self.eval(n.value, e)

        self._comp(n.generators, env, emit)
        return out

    def e_Yield(self, n, env):
        v = self.eval(n.value, env) if n.value is not None else None
        env.lookup("$yields").append(v)
        return None

    def e_YieldFrom(self, n, env):
        for v in self.iterate(self.eval(n.value, env)):
            env.lookup("$yields").append(v)
        return None

    def e_NamedExpr(self, n, env):
        v = self.eval(n.value, env)
        self.assign(n.target, v, env)
        return v


class _NoDefault:
    pass


_NODEFAULT = _NoDefault()
_MISSING_MODULES = set()


def _to_int_exact(v):
    if isinstance(v, Poly):
        v = v.const_value()
    if isinstance(v, Fraction):
        if v.denominator != 1:
            raise InterpRaise(TypeError("non-integer %s used as an index" % v))
        return v.numerator
    return int(v)


def _has_yield(node):
    for sub in ast.walk(node):
        if isinstance(sub, (ast.Yield, ast.YieldFrom)):
            # ignore nested function definitions
            return _yield_in(node)
    return False


def _yield_in(fn):
    stack = list(fn.body)
    while stack:
        n = stack.pop()
        if isinstance(n, (ast.FunctionDef, ast.Lambda, ast.ClassDef)):
            continue
        if isinstance(n, (ast.Yield, ast.YieldFrom)):
            return True
        stack.extend(ast.iter_child_nodes(n))
    return False
