import numpy as np


class BadNeoHooke:
    "isochoric Neo-Hooke whose stress uses J**(-1/3) instead of J**(-2/3)"

    def __init__(self, mu):
        self.mu = mu

    def _det(self, F):
        return (
            F[0, 0] * (F[1, 1] * F[2, 2] - F[1, 2] * F[2, 1])
            - F[0, 1] * (F[1, 0] * F[2, 2] - F[1, 2] * F[2, 0])
            + F[0, 2] * (F[1, 0] * F[2, 1] - F[1, 1] * F[2, 0])
        )

    def function(self, x):
        F = x[0]
        J = self._det(F)
        return [self.mu / 2 * (J ** (-2 / 3) * np.einsum("ij...,ij...->...", F, F) - 3)]

    def gradient(self, x):
        F = x[0]
        J = self._det(F)
        trC = np.einsum("ij...,ij...->...", F, F)
        iFT = np.zeros_like(F)
        for i in range(3):
            for j in range(3):
                a, b = (i + 1) % 3, (i + 2) % 3
                c, d = (j + 1) % 3, (j + 2) % 3
                iFT[i, j] = (F[a, c] * F[b, d] - F[a, d] * F[b, c]) / J
        return [self.mu * J ** (-1 / 3) * (F - trC / 3 * iFT), x[-1]]
