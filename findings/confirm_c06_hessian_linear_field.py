import numpy as np, felupe as fem
mesh = fem.Rectangle(n=3)
mesh.points[4] += [0.1, 0.07]                       # one perturbed interior node: non-affine quads
region = fem.RegionQuad(mesh, hess=True)
X = mesh.points
u = fem.Field(region, dim=1, values=(2.0 + 3.0*X[:, 0] - 1.5*X[:, 1]).reshape(-1, 1))
print("max |grad - (3, -1.5)| =", abs(u.grad()[0] - np.array([3.0, -1.5]).reshape(2, 1, 1)).max())
print("max |hess of a linear field| =", abs(u.hess()).max())
assert abs(u.hess()).max() < 1e-12
