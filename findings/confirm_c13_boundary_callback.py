"""C13.O6: mesh.update(points=..., callback=region.reload) with a boundary region -- the callback receives the volume mesh; the surface
region must afterwards describe the surface of the moved mesh.  Run with felupe on sys.path (before / after the fix)."""
import numpy as np
import felupe as fem

ok = True
for mesh, Boundary in ((fem.Rectangle(n=3), fem.RegionQuadBoundary), (fem.Cube(n=3), fem.RegionHexahedronBoundary)):
    face = Boundary(mesh)
    new_points = mesh.points * np.array([2.0, 1.0, 1.0])[: mesh.dim]
    mesh.update(points=new_points, callback=face.reload)
    fresh = Boundary(mesh)
    same = face.dA.shape == fresh.dA.shape and np.allclose(face.dA, fresh.dA) and np.allclose(face.normals, fresh.normals)
    print(Boundary.__name__, "sum dA", face.dA.sum(axis=(1, 2)), "fresh", fresh.dA.sum(axis=(1, 2)), "area", face.dV.sum(), "fresh", fresh.dV.sum(), "same:", same)
    ok = ok and same
print("OK" if ok else "DEFECT")
raise SystemExit(0 if ok else 1)
