"""C02 -- integral forms assemble the sums they denote (DESIGN.md section 3, C02)."""

import itertools
from fractions import Fraction

import numpy as np

from .. import ring, npmodel, micro
from ..ring import P, sym, is_zero, ZERO, ONE
from ..common import new_interp, symarray, finish_info, method_where
from ..interp import InterpRaise

SPEC = dict(
    level="proof",
    rule="felupe's Field / FieldAxisymmetric / FieldContainer classes are instantiated from source on a symbolic micro-instance "
    "(2 cells sharing a point, one point without cells, 2 basis functions per cell, 2 quadrature points; a second 'dual' region with "
    "1 basis function per cell; all basis values, gradients, differential volumes, point coordinates and integrand entries are "
    "distinct generators) and IntegralFormCartesian / IntegralFormAxisymmetric / IntegralForm are evaluated from their AST; the "
    "dense value of the returned (abstract) sparse matrix is compared entry-wise with the defining sum coded in the checker, i.e. "
    "including the global row/column placement. One obligation per (form, flags, field dims, integrand layout, block mode, variant). "
    "non-trivial = every obligation compares non-constant polynomials",
    trusted_base=[
        "scipy.sparse csr_matrix((values, (rows, cols))) sums duplicates; bmat / vstack stack blocks (summarised as dense abstract matrices)",
        "numpy object-array semantics (repeat, tile, pad, transpose, broadcast_to); einsum re-implemented in fverif/npmodel.py",
        "einsumt computes the same contraction as numpy.einsum for equal subscripts",
        "the defining sums written in fverif/props/c02.py (spec)",
    ],
    explanation="algebraic value numbering of the assembly kernels on a symbolic micro-instance; the einsum strings and the "
    "repeat/tile/reshape index algebra are size-polymorphic, so the instance bound concerns only bugs that need >= 3 basis functions or cells",
    exhaustive=True,
    not_decided=["scipy.sparse duplicate summation (trusted)", "floating-point summation order under einsumt"],
    assumptions=["real arithmetic"],
)

FLOORS = {"cartesian branches": ("cartesian_cases", 20)}

CELLS_A = [[0, 2], [2, 1]]  # 4 points: 0,1,2 used (2 shared), 3 without cells
CELLS_B = [[0], [1]]  # dual region: one point per cell


def tasks(tier):
    ts = []
    dims = (2,) if tier == "quick" else (2, 3)
    for d in dims:
        ts.append(("cartesian d=%d" % d, "run_cartesian", dict(d=d, tier=tier)))
    ts.append(("trim 3d integrand on 2d field", "run_trim", {}))
    ts.append(("uniform broadcast", "run_uniform", {}))
    ts.append(("blocks", "run_blocks", dict(tier=tier)))
    ts.append(("axisymmetric", "run_axi", {}))
    ts.append(("axisymmetric blocks", "run_axi_blocks", {}))
    ts.append(("parallel", "run_parallel", {}))
    # the Form expression API (O9) and the thread-discipline lint (O8.ii) are added by c02_expr when built
    from . import c02_expr
    ts.extend(c02_expr.tasks(tier))
    return ts


# ------------------------------------------------------------------------------------------
# reference (defining sums)
# ------------------------------------------------------------------------------------------
def basis(region, grad):
    return region.dhdX if grad else region.h


def cidx(arr, c):
    return 0 if arr.shape[-1] == 1 else c


def ref_linear(rv, dim_v, f, grad_v, weight=None, ncols=1):
    """f(i, J, q, c) -> integrand entry (J ignored if not grad_v); returns dense (npoints*dim_v, 1)"""
    out = micro.zeros((rv.mesh.npoints * dim_v, 1))
    nq = rv.dV.shape[0]
    d = rv.mesh.dim
    for c in range(rv.mesh.ncells):
        for a, n in enumerate(rv.mesh.cells[c]):
            for i in range(dim_v):
                acc = ZERO
                for q in range(nq):
                    w = rv.dV[q, cidx(rv.dV, c)] * (weight(q, c) if weight else ONE)
                    if grad_v:
                        for J in range(d):
                            acc = acc + rv.dhdX[a, J, q, cidx(rv.dhdX, c)] * f(i, J, q, c) * w
                    else:
                        acc = acc + rv.h[a, q, 0] * f(i, None, q, c) * w
                out[dim_v * n + i, 0] = out[dim_v * n + i, 0] + acc
    return out


def ref_bilinear(rv, ru, dim_v, dim_u, f, grad_v, grad_u, weight=None):
    """f(i, J, k, L, q, c) -> integrand entry; dense (nv*dim_v, nu*dim_u)"""
    out = micro.zeros((rv.mesh.npoints * dim_v, ru.mesh.npoints * dim_u))
    nq = rv.dV.shape[0]
    d = rv.mesh.dim
    for c in range(rv.mesh.ncells):
        for a, n in enumerate(rv.mesh.cells[c]):
            for b, m in enumerate(ru.mesh.cells[c]):
                for i in range(dim_v):
                    for k in range(dim_u):
                        acc = ZERO
                        for q in range(nq):
                            w = rv.dV[q, cidx(rv.dV, c)] * (weight(q, c) if weight else ONE)
                            for J in (range(d) if grad_v else [None]):
                                va = rv.dhdX[a, J, q, cidx(rv.dhdX, c)] if grad_v else rv.h[a, q, 0]
                                for L in (range(d) if grad_u else [None]):
                                    ub = ru.dhdX[b, L, q, cidx(ru.dhdX, c)] if grad_u else ru.h[b, q, 0]
                                    acc = acc + va * f(i, J, k, L, q, c) * ub * w
                        out[dim_v * n + i, dim_u * m + k] = out[dim_v * n + i, dim_u * m + k] + acc
    return out


def diff_dense(A, B):
    A, B = micro.dense(A), micro.dense(B)
    if A.shape != B.shape:
        return ["shape %s vs %s" % (A.shape, B.shape)]
    bad = []
    for idx in np.ndindex(A.shape):
        if not is_zero(P(A[idx]) - P(B[idx])):
            bad.append("%s: got %s want %s" % (list(idx), ring.fmt(P(A[idx]), 4), ring.fmt(P(B[idx]), 4)))
            if len(bad) >= 3:
                break
    return bad


def regions(d, uniform=False, nq=2):
    ra = micro.FakeRegion(CELLS_A, 4, d, nq=nq, tag="A", uniform=uniform)
    rb = micro.FakeRegion(CELLS_B, 2, d, nq=nq, tag="B", uniform=uniform)
    rb.dV = ra.dV  # the same differential volumes are handed to every form
    return ra, rb


def fun_array(name, shape):
    return symarray(name, shape)


def cartesian_case(it, ra, rb, dv, du, grad_v, grad_u, v_region, u_region, explicit_axes=True, parallel=False, linear=False):
    """build fields, integrand, evaluate IntegralFormCartesian and the reference"""
    d = ra.mesh.dim
    regs = (ra, rb)
    rv = regs[v_region]
    ru = regs[u_region] if u_region is not None else None
    v = micro.make_fields(it, [("Field", dv, v_region)], ra, rb)[0]
    cls = it.get("felupe.assembly._cartesian:IntegralFormCartesian")
    nq, nc = ra.dV.shape[0], ra.mesh.ncells
    cc = ra.dV.shape[1]
    if linear:
        shape = (dv,) + ((d,) if grad_v else ()) + (nq, cc)
        f = fun_array("f", shape)
        form = it.call(cls, [], dict(fun=f, v=v, dV=ra.dV, grad_v=grad_v))
        res = it.call_method(form, "assemble", [], dict(parallel=parallel))
        want = ref_linear(rv, dv, (lambda i, J, q, c: f[(i,) + ((J,) if grad_v else ()) + (q, cidx(f, c))]), grad_v)
        return res, want
    u = micro.make_fields(it, [("Field", du, u_region)], ra, rb)[0]
    shape = (dv,) + ((d,) if grad_v else ()) + (du,) + ((d,) if grad_u else ()) + (nq, cc)
    f = fun_array("f", shape)
    fpass = f
    if not explicit_axes:
        # felupe's own integrands often omit the size-one component axis of a scalar field
        sl = [slice(None)] * f.ndim
        pos = 0
        if dv == 1:
            sl[0] = 0
        if du == 1:
            sl[1 + (1 if grad_v else 0)] = 0
        fpass = f[tuple(sl)]
    form = it.call(cls, [], dict(fun=fpass, v=v, dV=ra.dV, u=u, grad_v=grad_v, grad_u=grad_u))
    res = it.call_method(form, "assemble", [], dict(parallel=parallel))

    def fe(i, J, k, L, q, c):
        idx = (i,) + ((J,) if grad_v else ()) + (k,) + ((L,) if grad_u else ()) + (q, cidx(f, c))
        return f[idx]

    want = ref_bilinear(rv, ru, dv, du, fe, grad_v, grad_u)
    return res, want


def run_cartesian(col, d, tier):
    it = new_interp()
    ra, rb = regions(d)
    n = 0
    w = method_where(it.get("felupe.assembly._cartesian:IntegralFormCartesian"), "integrate")
    for grad_v in (False, True):
        for dv, vr in ((d, 0), (1, 0), (1, 1)):
            def chk(dv=dv, vr=vr, grad_v=grad_v):
                res, want = cartesian_case(it, ra, rb, dv, None, grad_v, None, vr, None, linear=True)
                bad = diff_dense(res, want)
                return not bad, "%s: %s" % (w, "; ".join(bad))
            col.check("C02.O1", "linear form d=%d dim_v=%d region=%s grad_v=%s" % (d, dv, "AB"[vr], grad_v),
                      "assembled vector == sum_c sum_q (h | dh/dX_J) fun dV at row dim*point+component (col 0)", chk)
            n += 1
    for grad_v, grad_u in itertools.product((False, True), repeat=2):
        for (dv, vr), (du, ur) in itertools.product(((d, 0), (1, 1)), repeat=2):
            for explicit in (True, False):
                if not explicit and dv != 1 and du != 1:
                    continue
                if not explicit and ((dv == 1 and grad_v) or (du == 1 and grad_u)):
                    continue
                if not explicit and dv == 1 and du == 1 and (grad_v or grad_u):
                    continue
                if not explicit and not grad_v and not grad_u and (dv == 1) != (du == 1):
                    # value-value with one omitted axis yields a 4-d result which the kernel does not re-order: not a documented layout
                    continue
                if not explicit and grad_v != (dv != 1) and not (dv == 1 and du == 1):
                    pass

                def chk(dv=dv, vr=vr, du=du, ur=ur, grad_v=grad_v, grad_u=grad_u, explicit=explicit):
                    res, want = cartesian_case(it, ra, rb, dv, du, grad_v, grad_u, vr, ur, explicit_axes=explicit)
                    bad = diff_dense(res, want)
                    return not bad, "%s: %s" % (w, "; ".join(bad))
                col.check("C02.O2", "bilinear form d=%d v=(dim %d, region %s, grad %s) u=(dim %d, region %s, grad %s) axes=%s" % (
                    d, dv, "AB"[vr], grad_v, du, "AB"[ur], grad_u, "explicit" if explicit else "omitted"),
                    "assembled matrix == defining double sum placed at (dim_v*point_v+i, dim_u*point_u+k), duplicates summed", chk)
                n += 1
    # None integrand -> empty matrix of the right shape
    def chk_none():
        v = micro.make_fields(it, [("Field", d, 0)], ra, rb)[0]
        u = micro.make_fields(it, [("Field", 1, 1)], ra, rb)[0]
        cls = it.get("felupe.assembly._cartesian:IntegralFormCartesian")
        form = it.call(cls, [], dict(fun=None, v=v, dV=ra.dV, u=u, grad_v=True, grad_u=False))
        res = micro.dense(it.call_method(form, "assemble", []))
        return res.shape == (4 * d, 2) and all(not P(x).t for x in res.reshape(-1)), "shape %s" % (res.shape,)
    col.check("C02.O6", "IntegralFormCartesian(fun=None) d=%d" % d, "an absent integrand yields an empty matrix of shape (size_v, size_u)", chk_none)
    col.info["cartesian_cases"] = n
    finish_info(col, it)


def run_trim(col):
    it = new_interp()
    ra, rb = regions(2)
    cls = it.get("felupe.assembly._cartesian:IntegralFormCartesian")
    v = micro.make_fields(it, [("FieldPlaneStrain", 2, 0)], ra, rb)[0]
    p = micro.make_fields(it, [("Field", 1, 1)], ra, rb)[0]
    nq, nc = 2, 2

    def chk_lin():
        f = fun_array("f", (3, 3, nq, nc))
        form = it.call(cls, [], dict(fun=f, v=v, dV=ra.dV, grad_v=True))
        res = it.call_method(form, "assemble", [])
        want = ref_linear(ra, 2, lambda i, J, q, c: f[i, J, q, c], True)
        bad = diff_dense(res, want)
        return not bad, "; ".join(bad)
    col.check("C02.O4", "3x3 integrand, 2d field, linear", "trimming keeps exactly the leading 2 of every tensor axis", chk_lin)

    def chk_bil():
        f = fun_array("f", (3, 3, 3, 3, nq, nc))
        form = it.call(cls, [], dict(fun=f, v=v, dV=ra.dV, u=v, grad_v=True, grad_u=True))
        res = it.call_method(form, "assemble", [])
        want = ref_bilinear(ra, ra, 2, 2, lambda i, J, k, L, q, c: f[i, J, k, L, q, c], True, True)
        bad = diff_dense(res, want)
        return not bad, "; ".join(bad)
    col.check("C02.O4", "3x3x3x3 integrand, 2d field, bilinear", "trimming keeps exactly the leading 2 of every tensor axis", chk_bil)

    def chk_up():
        f = fun_array("f", (3, 3, nq, nc))
        form = it.call(cls, [], dict(fun=f, v=v, dV=ra.dV, u=p, grad_v=True, grad_u=False))
        res = it.call_method(form, "assemble", [])
        want = ref_bilinear(ra, rb, 2, 1, lambda i, J, k, L, q, c: f[i, J, q, c], True, False)
        bad = diff_dense(res, want)
        return not bad, "; ".join(bad)
    col.check("C02.O4", "3x3 integrand, (u 2d, p) block", "mixed block: the 3x3 integrand is trimmed to 2x2", chk_up)

    def chk_scalar_untouched():
        f = fun_array("f", (1, 1, nq, nc))
        form = it.call(cls, [], dict(fun=f, v=p, dV=ra.dV, u=p, grad_v=False, grad_u=False))
        res = it.call_method(form, "assemble", [])
        want = ref_bilinear(rb, rb, 1, 1, lambda i, J, k, L, q, c: f[0, 0, q, c], False, False)
        bad = diff_dense(res, want)
        return not bad, "; ".join(bad)
    col.check("C02.O4", "scalar block untouched", "integrands that are not 3d are not trimmed", chk_scalar_untouched)
    finish_info(col, it)


def run_uniform(col):
    it = new_interp()
    ra, rb = regions(2, uniform=True)
    w = method_where(it.get("felupe.assembly._cartesian:IntegralFormCartesian"), "assemble")
    for grad in (False, True):
        def chk(grad=grad):
            res, want = cartesian_case(it, ra, rb, 2, 2, grad, grad, 0, 0)
            bad = diff_dense(res, want)
            return not bad, "%s: %s" % (w, "; ".join(bad))
        col.check("C02.O7", "uniform region bilinear grad=%s" % grad, "values with a size-one cell axis are broadcast along the cell axis only: every cell receives the single evaluated cell's values", chk)
        def chk_l(grad=grad):
            res, want = cartesian_case(it, ra, rb, 2, None, grad, None, 0, None, linear=True)
            bad = diff_dense(res, want)
            return not bad, "%s: %s" % (w, "; ".join(bad))
        col.check("C02.O7", "uniform region linear grad=%s" % grad, "linear form on a uniform region", chk_l)
    finish_info(col, it)


def block_layout(it, ra, rb, axisym=False):
    kinds = [("FieldAxisymmetric" if axisym else "Field", ra.mesh.dim, 0), ("Field", 1, 1), ("Field", 1, 1)]
    fields = micro.make_fields(it, kinds, ra, rb)
    return fields


def run_blocks(col, tier):
    it = new_interp()
    d = 2
    ra, rb = regions(d)
    nq, nc = 2, 2
    IF = it.get("felupe.assembly._integral:IntegralForm")
    w = method_where(IF, "assemble")
    for nfields in (2, 3):
        fields = block_layout(it, ra, rb)[:nfields]
        fc = micro.container(it, fields)
        regs = [ra, rb, rb][:nfields]
        dims = [d, 1, 1][:nfields]
        # ---- mode 1
        def chk_m1():
            funs = [fun_array("fu", (d, d, nq, nc))] + [fun_array("f%d" % k, (1, nq, nc)) for k in range(1, nfields)]
            form = it.call(IF, [], dict(fun=funs, v=fc, dV=ra.dV))
            res = micro.dense(it.call_method(form, "assemble", []))
            parts = [ref_linear(ra, d, lambda i, J, q, c: funs[0][i, J, q, c], True)]
            for k in range(1, nfields):
                parts.append(ref_linear(rb, 1, (lambda k: lambda i, J, q, c: funs[k][0, q, c])(k), False))
            want = np.concatenate(parts, axis=0)
            bad = diff_dense(res, want)
            return not bad, "%s: %s" % (w, "; ".join(bad))
        col.check("C02.O6", "IntegralForm mode 1, %d fields" % nfields, "block vector stacks the per-field forms in field order (gradient form for the first field, value forms for the others)", chk_m1)
        # ---- mode 2 (upper triangle) with and without absent blocks
        iu, ju = np.triu_indices(nfields)
        for absent in ([], [1], [len(iu) - 1]) if nfields == 2 else ([], [2, 3]):
            def chk_m2(absent=absent):
                funs, refs = [], {}
                for a, (i, j) in enumerate(zip(iu, ju)):
                    gv, gu = (i == 0), (j == 0)
                    shape = (dims[i],) + ((d,) if gv else ()) + (dims[j],) + ((d,) if gu else ()) + (nq, nc)
                    f = fun_array("f%d%d_" % (i, j), shape)
                    if a in absent:
                        funs.append(None)
                        refs[(i, j)] = micro.zeros((regs[i].mesh.npoints * dims[i], regs[j].mesh.npoints * dims[j]))
                    else:
                        funs.append(f)
                        def fe(ii, J, k, L, q, c, f=f, gv=gv, gu=gu):
                            return f[(ii,) + ((J,) if gv else ()) + (k,) + ((L,) if gu else ()) + (q, c)]
                        refs[(i, j)] = ref_bilinear(regs[i], regs[j], dims[i], dims[j], fe, gv, gu)
                form = it.call(IF, [], dict(fun=funs, v=fc, dV=ra.dV, u=fc))
                res = micro.dense(it.call_method(form, "assemble", []))
                rows = []
                for i in range(nfields):
                    row = []
                    for j in range(nfields):
                        row.append(refs[(i, j)] if i <= j else refs[(j, i)].T)
                    rows.append(np.concatenate(row, axis=1))
                want = np.concatenate(rows, axis=0)
                bad = diff_dense(res, want)
                return not bad, "%s: %s" % (w, "; ".join(bad))
            col.check("C02.O6", "IntegralForm mode 2, %d fields, absent=%s" % (nfields, absent),
                      "block (i,j) is the form of the a-th upper-triangle integrand; block (j,i) its transpose; a None integrand is a zero block", chk_m2)
        # ---- mode 3 (full)
        if nfields == 2:
            def chk_m3():
                funs, refs = [], {}
                for i in range(nfields):
                    for j in range(nfields):
                        gv, gu = (i == 0), (j == 0)
                        shape = (dims[i],) + ((d,) if gv else ()) + (dims[j],) + ((d,) if gu else ()) + (nq, nc)
                        f = fun_array("g%d%d_" % (i, j), shape)
                        funs.append(f)
                        def fe(ii, J, k, L, q, c, f=f, gv=gv, gu=gu):
                            return f[(ii,) + ((J,) if gv else ()) + (k,) + ((L,) if gu else ()) + (q, c)]
                        refs[(i, j)] = ref_bilinear(regs[i], regs[j], dims[i], dims[j], fe, gv, gu)
                form = it.call(IF, [], dict(fun=funs, v=fc, dV=ra.dV, u=fc))
                res = micro.dense(it.call_method(form, "assemble", []))
                want = np.concatenate([np.concatenate([refs[(i, j)] for j in range(nfields)], axis=1) for i in range(nfields)], axis=0)
                bad = diff_dense(res, want)
                return not bad, "%s: %s" % (w, "; ".join(bad))
            col.check("C02.O6", "IntegralForm mode 3, 2 fields", "full block layout: block (i,j) is the form of integrand i*nu+j, no transposition", chk_m3)
    def chk_m3_same():
        # two fields of the same shape: a swap of the off-diagonal integrands cannot show up as a shape error
        flds = micro.make_fields(it, [("Field", 1, 1), ("Field", 1, 1)], ra, rb)
        fc2 = micro.container(it, flds)
        funs, refs = [], {}
        for i in range(2):
            for j in range(2):
                f = fun_array("s%d%d_" % (i, j), (1, 1, nq, nc))
                funs.append(f)
                refs[(i, j)] = ref_bilinear(rb, rb, 1, 1, (lambda f: lambda ii, J, k, L, q, c: f[ii, k, q, c])(f), False, False)
        form = it.call(IF, [], dict(fun=funs, v=fc2, dV=ra.dV, u=fc2, grad_v=[False, False], grad_u=[False, False]))
        res = micro.dense(it.call_method(form, "assemble", []))
        want = np.concatenate([np.concatenate([refs[(i, j)] for j in range(2)], axis=1) for i in range(2)], axis=0)
        bad = diff_dense(res, want)
        return not bad, "%s: %s" % (w, "; ".join(bad))
    col.check("C02.O6", "IntegralForm mode 3, two fields of equal shape", "full block layout: block (i,j) is the form of integrand i*nu+j (row-major), no transposition", chk_m3_same)

    def chk_unknown():
        fields = block_layout(it, ra, rb)[:2]
        fc = micro.container(it, fields)
        try:
            it.call(IF, [], dict(fun=[None] * 5, v=fc, dV=ra.dV, u=fc))
        except InterpRaise as e:
            return isinstance(e.exc, ValueError), str(e)
        return False, "no exception for 5 integrands on 2 fields"
    col.check("C02.O6", "IntegralForm unknown layout", "a list of integrands matching no block mode raises", chk_unknown)
    finish_info(col, it)


# ------------------------------------------------------------------------------------------
def radius(ra):
    nq, nc = ra.dV.shape
    R = np.empty((nq, nc), dtype=object)
    for q in range(nq):
        for c in range(nc):
            acc = ZERO
            for a, n in enumerate(ra.mesh.cells[c]):
                acc = acc + ra.mesh.points[n, 1] * ra.h[a, q, 0]
            R[q, c] = acc
    return R


def run_axi(col):
    it = new_interp()
    ra, rb = regions(2)
    nq, nc = 2, 2
    R = radius(ra)
    twopi = 2 * ring.pi()
    wgt = lambda q, c: twopi * R[q, c]
    cls = it.get("felupe.assembly._axi:IntegralFormAxisymmetric")
    w = method_where(cls, "__init__")
    v = micro.make_fields(it, [("FieldAxisymmetric", 2, 0)], ra, rb)[0]
    p = micro.make_fields(it, [("Field", 1, 1)], ra, rb)[0]
    it.setattr(p, "radius", it.getattr(v, "radius"))

    def chk_radius():
        got = it.getattr(v, "radius")
        bad = diff_dense(got, R)
        return not bad, "; ".join(bad)
    col.check("C02.O5", "FieldAxisymmetric.radius", "R[q,c] == sum_a points[cells[c,a], 1] h[a,q] (the radial coordinate is column 1)", chk_radius)

    def chk_mode1():
        f = fun_array("P", (3, 3, nq, nc))
        form = it.call(cls, [], dict(fun=f, v=v, dV=ra.dV, grad_v=True))
        res = it.call_method(form, "assemble", [])
        want = ref_linear(ra, 2, lambda i, J, q, c: f[i, J, q, c], True, weight=wgt)
        hoop = ref_linear(ra, 2, lambda i, J, q, c: (f[2, 2, q, c] * ring.inv(R[q, c]) if i == 1 else ZERO), False, weight=wgt)
        bad = diff_dense(res, want + hoop)
        return not bad, "%s: %s" % (w, "; ".join(bad))
    col.check("C02.O5", "axisymmetric linear form (mode 1)", "sum 2 pi R dV [dh_a/dX_J P_iJ + delta_i1 h_a P_33 / R] at row 2*point+i", chk_mode1)

    def chk_mode2():
        f = fun_array("A", (3, 3, 3, 3, nq, nc))
        form = it.call(cls, [], dict(fun=f, v=v, dV=ra.dV, u=v, grad_v=True, grad_u=True))
        res = it.call_method(form, "assemble", [])
        iR = lambda q, c: ring.inv(R[q, c])
        want = ref_bilinear(ra, ra, 2, 2, lambda i, J, k, L, q, c: f[i, J, k, L, q, c], True, True, weight=wgt)
        want = want + ref_bilinear(ra, ra, 2, 2, lambda i, J, k, L, q, c: (f[2, 2, 2, 2, q, c] * iR(q, c) * iR(q, c) if (i == 1 and k == 1) else ZERO), False, False, weight=wgt)
        want = want + ref_bilinear(ra, ra, 2, 2, lambda i, J, k, L, q, c: (f[2, 2, k, L, q, c] * iR(q, c) if i == 1 else ZERO), False, True, weight=wgt)
        want = want + ref_bilinear(ra, ra, 2, 2, lambda i, J, k, L, q, c: (f[i, J, 2, 2, q, c] * iR(q, c) if k == 1 else ZERO), True, False, weight=wgt)
        bad = diff_dense(res, want)
        return not bad, "%s: %s" % (w, "; ".join(bad))
    col.check("C02.O5", "axisymmetric bilinear form (mode 2)", "in-plane part + N_a N_b A_3333/R^2 + N_a A_33kL dN_b/R + dN_a A_iJ33 N_b/R, hoop terms on component 1, weight 2 pi R dV", chk_mode2)

    def chk_mode2_vg():
        # value test space x gradient trial space (follower loads): the third row of the integrand acts on delta u_r / R, the (3,3) column on u_r / R
        f = fun_array("B", (3, 3, 3, nq, nc))
        form = it.call(cls, [], dict(fun=f, v=v, dV=ra.dV, u=v, grad_v=False, grad_u=True))
        res = it.call_method(form, "assemble", [])
        iR = lambda q, c: ring.inv(R[q, c])
        want = ref_bilinear(ra, ra, 2, 2, lambda i, J, k, L, q, c: f[i, k, L, q, c], False, True, weight=wgt)
        want = want + ref_bilinear(ra, ra, 2, 2, lambda i, J, k, L, q, c: (f[2, 2, 2, q, c] * iR(q, c) * iR(q, c) if (i == 1 and k == 1) else ZERO), False, False, weight=wgt)
        want = want + ref_bilinear(ra, ra, 2, 2, lambda i, J, k, L, q, c: (f[2, k, L, q, c] * iR(q, c) if i == 1 else ZERO), False, True, weight=wgt)
        want = want + ref_bilinear(ra, ra, 2, 2, lambda i, J, k, L, q, c: (f[i, 2, 2, q, c] * iR(q, c) if k == 1 else ZERO), False, False, weight=wgt)
        bad = diff_dense(res, want)
        return not bad, "%s: %s" % (w, "; ".join(bad))
    col.check("C02.O5", "axisymmetric bilinear form (mode 2, value test x gradient trial)",
              "N_a B_ikL dN_b in-plane + N_a N_b B_333/R^2 + N_a B_3kL dN_b/R (row 1) + N_a B_i33 N_b/R (column 1), weight 2 pi R dV", chk_mode2_vg)

    def chk_mode30():
        f = fun_array("B", (3, 3, nq, nc))
        form = it.call(cls, [], dict(fun=f, v=v, dV=ra.dV, u=p, grad_v=True, grad_u=False))
        res = it.call_method(form, "assemble", [])
        want = ref_bilinear(ra, rb, 2, 1, lambda i, J, k, L, q, c: f[i, J, q, c], True, False, weight=wgt)
        want = want + ref_bilinear(ra, rb, 2, 1, lambda i, J, k, L, q, c: (f[2, 2, q, c] * ring.inv(R[q, c]) if i == 1 else ZERO), False, False, weight=wgt)
        bad = diff_dense(res, want)
        return not bad, "%s: %s" % (w, "; ".join(bad))
    col.check("C02.O5", "axisymmetric (u, p) block (mode 30)", "dh_a/dX_J B_iJ N_b + delta_i1 h_a B_33 N_b / R, weight 2 pi R dV", chk_mode30)

    def chk_mode10():
        f = fun_array("g", (1, nq, nc))
        form = it.call(cls, [], dict(fun=f, v=p, dV=ra.dV, grad_v=False))
        res = it.call_method(form, "assemble", [])
        want = ref_linear(rb, 1, lambda i, J, q, c: f[0, q, c], False, weight=wgt)
        bad = diff_dense(res, want)
        return not bad, "%s: %s" % (w, "; ".join(bad))
    col.check("C02.O5", "axisymmetric scalar linear form (mode 10)", "value form of a dual field weighted with 2 pi R dV", chk_mode10)

    def chk_mode_vv():
        f = fun_array("m", (2, 2, nq, nc))
        form = it.call(cls, [], dict(fun=f, v=v, dV=ra.dV, u=v, grad_v=False, grad_u=False))
        res = it.call_method(form, "assemble", [])
        want = ref_bilinear(ra, ra, 2, 2, lambda i, J, k, L, q, c: f[i, k, q, c], False, False, weight=wgt)
        bad = diff_dense(res, want)
        return not bad, "%s: %s" % (w, "; ".join(bad))
    col.check("C02.O5", "axisymmetric value-value form on the displacement field", "value-value form (mass-type) of two axisymmetric fields: no hoop terms, weight 2 pi R dV", chk_mode_vv)

    def chk_mode40():
        f = fun_array("k", (1, 1, nq, nc))
        form = it.call(cls, [], dict(fun=f, v=p, dV=ra.dV, u=p, grad_v=False, grad_u=False))
        res = it.call_method(form, "assemble", [])
        want = ref_bilinear(rb, rb, 1, 1, lambda i, J, k, L, q, c: f[0, 0, q, c], False, False, weight=wgt)
        bad = diff_dense(res, want)
        return not bad, "%s: %s" % (w, "; ".join(bad))
    col.check("C02.O5", "axisymmetric scalar bilinear form (mode 40)", "value-value form of dual fields weighted with 2 pi R dV", chk_mode40)
    finish_info(col, it)


def run_axi_blocks(col):
    """mixed-field block layout on an axisymmetric first field, including absent (None) blocks"""
    it = new_interp()
    ra, rb = regions(2)
    nq, nc = 2, 2
    R = radius(ra)
    twopi = 2 * ring.pi()
    wgt = lambda q, c: twopi * R[q, c]
    IF = it.get("felupe.assembly._integral:IntegralForm")
    w = method_where(it.get("felupe.assembly._axi:IntegralFormAxisymmetric"), "__init__")
    for absent in ([], [2], [1, 2], [3]):
        def chk(absent=absent):
            fields = block_layout(it, ra, rb, axisym=True)
            fc = micro.container(it, fields)
            A = fun_array("A", (3, 3, 3, 3, nq, nc))
            B = fun_array("B", (3, 3, nq, nc))
            Cb = fun_array("C", (3, 3, nq, nc))
            pp = fun_array("pp", (1, 1, nq, nc))
            pJ = fun_array("pJ", (1, 1, nq, nc))
            JJ = fun_array("JJ", (1, 1, nq, nc))
            funs = [A, B, Cb, pp, pJ, JJ]
            iR = lambda q, c: ring.inv(R[q, c])
            uu = ref_bilinear(ra, ra, 2, 2, lambda i, J, k, L, q, c: A[i, J, k, L, q, c], True, True, weight=wgt)
            uu = uu + ref_bilinear(ra, ra, 2, 2, lambda i, J, k, L, q, c: (A[2, 2, 2, 2, q, c] * iR(q, c) * iR(q, c) if (i == 1 and k == 1) else ZERO), False, False, weight=wgt)
            uu = uu + ref_bilinear(ra, ra, 2, 2, lambda i, J, k, L, q, c: (A[2, 2, k, L, q, c] * iR(q, c) if i == 1 else ZERO), False, True, weight=wgt)
            uu = uu + ref_bilinear(ra, ra, 2, 2, lambda i, J, k, L, q, c: (A[i, J, 2, 2, q, c] * iR(q, c) if k == 1 else ZERO), True, False, weight=wgt)
            def ub(Bm):
                r = ref_bilinear(ra, rb, 2, 1, lambda i, J, k, L, q, c: Bm[i, J, q, c], True, False, weight=wgt)
                return r + ref_bilinear(ra, rb, 2, 1, lambda i, J, k, L, q, c: (Bm[2, 2, q, c] * iR(q, c) if i == 1 else ZERO), False, False, weight=wgt)
            def ss(S):
                return ref_bilinear(rb, rb, 1, 1, lambda i, J, k, L, q, c: S[0, 0, q, c], False, False, weight=wgt)
            blocks = [uu, ub(B), ub(Cb), ss(pp), ss(pJ), ss(JJ)]
            for a in absent:
                funs[a] = None
                blocks[a] = micro.zeros(blocks[a].shape)
            form = it.call(IF, [], dict(fun=funs, v=fc, dV=ra.dV, u=fc))
            res = micro.dense(it.call_method(form, "assemble", []))
            iu, ju = np.triu_indices(3)
            refs = {(i, j): blocks[a] for a, (i, j) in enumerate(zip(iu, ju))}
            rows = []
            for i in range(3):
                rows.append(np.concatenate([refs[(i, j)] if i <= j else refs[(j, i)].T for j in range(3)], axis=1))
            want = np.concatenate(rows, axis=0)
            bad = diff_dense(res, want)
            return not bad, "%s: %s" % (w, "; ".join(bad))
        col.check("C02.O6", "axisymmetric (u,p,J) blocks, absent=%s" % absent,
                  "mixed-field block matrix on an axisymmetric displacement field; absent (None) blocks are zero blocks of the right shape", chk)
    finish_info(col, it)


def run_parallel(col):
    it = new_interp()
    ra, rb = regions(2)
    for grad in (False, True):
        def chk(grad=grad):
            before = npmodel.EINSUMT_USED[0]
            r1, want = cartesian_case(it, ra, rb, 2, 2, grad, grad, 0, 0, parallel=False)
            mid = npmodel.EINSUMT_USED[0]
            r2, _ = cartesian_case(it, ra, rb, 2, 2, grad, grad, 0, 0, parallel=True)
            after = npmodel.EINSUMT_USED[0]
            bad = diff_dense(r1, r2)
            if mid != before:
                bad.append("parallel=False used einsumt")
            if after == mid:
                bad.append("parallel=True did not use einsumt")
            return not bad, "; ".join(bad)
        col.check("C02.O8", "parallel flag, bilinear grad=%s" % grad, "parallel only selects einsumt for the same subscripts and operands: identical values", chk)
    finish_info(col, it)


def run_expression(col, tier):
    from . import c02_expr

    c02_expr.run_expression(col, tier)


def run_threads(col):
    from . import c02_expr

    c02_expr.run_threads(col)
