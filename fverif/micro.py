"""Symbolic micro-instances for the assembly / field obligations (C02, C01, C06, C10, C14, C19).

A *fake region* (python-side object holding exactly the attributes the kernels read) carries symbolic basis
arrays h[a,q,c], dhdX[a,J,q,c], dV[q,c] with distinct generators and a small concrete connectivity; felupe's own
Field / FieldAxisymmetric / FieldPlaneStrain / FieldContainer classes are then instantiated *from source* on it,
so that _indices_per_cell, Indices, radius interpolation, scalar sub-field etc. are the analysed code.
"""

import numpy as np

from . import ring, npmodel
from .ring import P, sym, ZERO, ONE
from .common import symarray


class FakeMesh:
    def __init__(self, cells, npoints, dim, tag="X", cell_type="fake"):
        self.cells = np.array(cells, dtype=int)
        self.npoints = npoints
        self.ncells = self.cells.shape[0]
        self.dim = dim
        self.ndof = npoints * dim
        self.points = symarray(tag, (npoints, dim))
        self.cell_type = cell_type
        used = set(self.cells.reshape(-1).tolist())
        self.points_without_cells = np.array([p for p in range(npoints) if p not in used], dtype=int)
        self.points_with_cells = np.array(sorted(used), dtype=int)


class FakeQuadrature:
    def __init__(self, npoints, dim):
        self.npoints = npoints
        self.dim = dim
        self.weights = symarray("w", (npoints,), positive=True)


class FakeRegion:
    def __init__(self, cells, npoints, dim, nq=2, tag="", uniform=False, hess=False):
        self.mesh = FakeMesh(cells, npoints, dim, tag="X" + tag)
        nc = self.mesh.ncells
        na = self.mesh.cells.shape[1]
        self.quadrature = FakeQuadrature(nq, dim)
        cc = 1 if uniform else nc
        # h is stored with a size-one cell axis in felupe (same reference element for all cells)
        self.h = symarray("h" + tag, (na, nq, 1))
        self.dhdX = symarray("dh" + tag, (na, dim, nq, cc))
        self.dV = symarray("dV" + tag, (nq, cc), positive=True)
        if hess:
            self.d2hdXdX = symarray("d2h" + tag, (na, dim, dim, nq, cc))
        self.uniform = uniform
        self.element = None


def make_fields(it, kinds, region, dual_region=None):
    """kinds: list of (classname, dim, which_region) -> interpreted Field instances"""
    out = []
    for cname, dim, which in kinds:
        mod = {"Field": "felupe.field._base", "FieldAxisymmetric": "felupe.field._axi", "FieldPlaneStrain": "felupe.field._planestrain"}[cname]
        cls = it.get(mod + ":" + cname)
        reg = region if which == 0 else dual_region
        out.append(it.call(cls, [reg], dict(dim=dim)))
    return out


def container(it, fields):
    cls = it.get("felupe.field._container:FieldContainer")
    return it.call(cls, [list(fields)], {})


def dense(x):
    """AbstractSparse / array -> dense object array"""
    if isinstance(x, npmodel.AbstractSparse):
        return x.dense
    return npmodel.to_obj(np.asarray(x))


def zeros(shape):
    a = np.empty(shape, dtype=object)
    a[...] = ZERO
    return a


def bc(arr, idx_c):
    """index the last (cell) axis with broadcasting of size-one"""
    return 0 if arr.shape[-1] == 1 else idx_c
