import numpy as np, felupe as fem
F = np.eye(2).reshape(2,2,1,1) + 0.01*np.arange(4).reshape(2,2,1,1)
for cls in (fem.constitution.LinearElasticPlaneStrain, fem.LinearElasticPlaneStress):
    m = cls(E=1.0, nu=0.3)
    print(cls.__name__)
    try:
        print(" stress", m.stress([F])[0][...,0,0])
    except Exception as e:
        print(" stress raises", type(e).__name__, e)
    print(" strain", m.strain([F])[0][...,0,0])
    print(" gradient", m.gradient([F])[0][...,0,0])
