import argparse
import os
import sys


def main():
    ap = argparse.ArgumentParser(prog="fverif")
    sub = ap.add_subparsers(dest="cmd")
    c = sub.add_parser("check")
    c.add_argument("pid")
    c.add_argument("--tier", default=os.environ.get("VERIF_TIER", "quick"))
    c.add_argument("--jobs", type=int, default=0)
    c.add_argument("--repo", default=None)
    s = sub.add_parser("selftest")
    s.add_argument("--only", default=None)
    s.add_argument("--jobs", type=int, default=0)
    sub.add_parser("setup")
    a = ap.parse_args()
    if a.cmd == "check":
        if a.repo:
            os.environ["FVERIF_REPO"] = a.repo
            os.environ["FVERIF_SRC"] = os.path.join(a.repo, "src")
        # felupe must never be imported by the checker
        sys.modules["felupe"] = None
        from . import runner

        tier = a.tier if a.tier in ("quick", "thorough") else "quick"
        seed = int(os.environ.get("VERIF_SEED", "0") or 0)
        try:
            code = runner.run_property(a.pid.upper(), tier, seed, a.jobs or None)
        except BaseException as e:  # noqa
            import traceback

            traceback.print_exc()
            print("ANALYSIS-ERROR property=%s reason=%s: %s" % (a.pid, type(e).__name__, e))
            code = 2
        sys.stdout.flush()
        os._exit(code)
    elif a.cmd == "setup":
        from . import setup_check

        sys.exit(setup_check.main())
    elif a.cmd == "selftest":
        from . import selftest

        sys.exit(selftest.main(a))
    else:
        ap.print_help()
        sys.exit(2)


main()
