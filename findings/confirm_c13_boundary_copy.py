import numpy as np, felupe as fem
mesh = fem.Rectangle(b=(2, 1), n=3)
rb = fem.RegionQuadBoundary(mesh)
print("perimeter", rb.dV.sum(), " copy:", rb.copy().dV.sum(), " astype:", rb.astype(np.float32).dV.sum())
rb.reload()
print("after reload()", rb.dV.sum(), "normals unit:", np.allclose(np.linalg.norm(rb.normals, axis=0), 1))
assert np.isclose(rb.copy().dV.sum(), 6.0) and np.isclose(rb.dV.sum(), 6.0)
