import numpy as np, felupe as fem
for dim in (1, 2, 3):
    el = fem.ArbitraryOrderLagrangeElement(order=0, dim=dim)
    print("dim", dim, "points", el.points.shape, "h(0) =", el.function(np.zeros(dim)), "sum =", el.function(np.zeros(dim)).sum())
mesh = fem.Rectangle(n=3)
region = fem.RegionLagrange(mesh, order=1, dim=2)
p = fem.FieldDual(region, dim=1, values=1.0)
print("dual region element points", p.region.element.points.shape, " interpolated constant 1 ->", np.unique(p.interpolate().round(12)))
from felupe.element._lagrange import lagrange_line, lagrange_quad, lagrange_hexahedron
print(lagrange_line(0), lagrange_quad(0), lagrange_hexahedron(0))
