"""C01.O7 / C14.O7: a MultiPointConstraint / MultiPointContact whose `points` lists one point twice (ids concatenated from two
selections) -- forces unbalanced, matrix not the derivative of the vector.  Run with felupe on sys.path (before / after the fix)."""
import numpy as np
import felupe as fem

mesh = fem.Rectangle(n=3)
mesh.update(points=np.vstack([mesh.points, [2.0, 0.5]]))
region = fem.RegionQuad(mesh)
field = fem.FieldContainer([fem.Field(region, dim=2)])
rng = np.random.default_rng(1)
field[0].values[:] = rng.normal(size=field[0].values.shape) * 0.1
field[0].values[[2, 5, 8], 0] += 3.0  # the wall of the contact is passed

ok = True
for cls in (fem.MultiPointConstraint, fem.MultiPointContact):
    ref = cls(field, points=[2, 5, 8], centerpoint=9, multiplier=7.0)
    dup = cls(field, points=[2, 5, 8, 5], centerpoint=9, multiplier=7.0)
    r0, r1 = ref.assemble.vector().toarray(), dup.assemble.vector().toarray()
    K0, K1 = ref.assemble.matrix().toarray(), dup.assemble.matrix().toarray()
    s = r1.reshape(-1, 2).sum(0)
    print(cls.__name__, "sum of forces", s, " |r - r_ref|", abs(r1 - r0).max(), " |K - K_ref|", abs(K1 - K0).max())
    ok = ok and abs(s).max() < 1e-12 and abs(r1 - r0).max() < 1e-12 and abs(K1 - K0).max() < 1e-12
print("OK" if ok else "DEFECT")
raise SystemExit(0 if ok else 1)
