"""C07 -- a successful Newton solve returns an equilibrium that honours the constraints (DESIGN.md section 3, C07)."""

import ast
import itertools
import os
from fractions import Fraction

import numpy as np

from .. import ring, npmodel, micro, flow, scenario
from ..ring import P, sym, is_zero, ZERO, ONE
from ..common import new_interp, symarray, finish_info, list_modules
from ..interp import InterpRaise
from ..runner import SRC

SPEC = dict(
    level="proof",
    rule="O1/O6 (flow): abstract interpretation of newtonrhapson's AST with three-valued booleans and the range-loop fact: at every return "
    "`success` is True, with `success` True no raise is reachable after the loop, loop exhaustion / zero iterations / NaN norms end in a "
    "raise; O4 (flow + who-may-write): Results.update_statevars is only called under a guard implying success and nothing else in the "
    "package assigns `.statevars` outside constructors; O3 (AVN): check() computes fnorm = |f[dof1]| / (eps + |f[dof0]|), success = "
    "fnorm < ftol and xnorm < xtol; O2/O5/O7 (scripted abstract runs of the real loop on symbolic data, every convergence pattern up to "
    "3 iterations): the linear solver receives K[dof1][:,dof1] and -f[dof1] - K[dof1][:,dof0] (ext0 - u[dof0]) with f, K assembled at "
    "the current iterate, the increment is ext0 - u0 on the prescribed unknowns (so the returned field carries exactly the prescribed "
    "values), every entry of the increment is written, the returned residual is the one re-assembled at the returned field, items are "
    "linked to the iterate before assembly, multipliers applied, state committed iff converged, non-convergence raises.",
    trusted_base=["scipy.sparse.linalg.spsolve solves the system it is given (opaque)", "numpy object-array semantics; scipy.sparse summaries"],
    explanation="flow analysis on the function's AST + algebraic value numbering of scripted runs",
    exhaustive=True,
    not_decided=["sizes of residuals as numbers; one-step convergence of linear problems (follows from O5 + C01 up to solver accuracy)"],
    assumptions=["real arithmetic"],
)

FLOORS = {}


def tasks(tier):
    ts = [("flow newtonrhapson", "run_flow", {}), ("check formula", "run_check", {}), ("who may commit state", "run_commit", {})]
    mx = 3 if tier == "quick" else 4
    pats = []
    for k in range(1, mx + 1):
        for p in itertools.product((False, True), repeat=k):
            # a run stops at the first success: only patterns whose successes are all at the end position matter
            if True in p[:-1]:
                continue
            pats.append(p)
    for p in pats:
        ts.append(("run %s" % "".join("T" if x else "F" for x in p), "run_scenario", dict(pattern=list(p), maxiter=len(p))))
    ts.append(("run maxiter=0", "run_scenario", dict(pattern=[], maxiter=0)))
    ts.append(("run nan", "run_nan", {}))
    # necessary for "the returned field carries exactly the prescribed values": the prescribed-value vector ext0 lists each boundary's value at its unknown
    ts.append(("prescribed values (dof.partition / dof.apply)", "run_included", dict(modname="c08", fname="run_partition", kwargs=dict(dim=2), oid="C07.O8",
                                                                                 why="ext0 and dof0 handed to the solver come from dof.apply / dof.partition")))
    ts.append(("prescribed values on a third field (u, p, J)", "run_included", dict(modname="c08", fname="run_three_fields", kwargs=dict(dim=2), oid="C07.O8",
                                                                                 why="a boundary on the n-th field of a mixed container is honoured only if dof.apply writes its value at that field's cumulative offset")))
    ts.append(("item multipliers in the residual and tangent", "run_included", dict(modname="c01_items", fname="run_multiplier", kwargs={}, oid="C07.O9",
                                                                                why="the returned field solves sum_i m_i f_i(u) = 0 only if every item enters fun_items / jac_items with its multiplier exactly once")))
    ts.append(("tools.solve", "run_tools_solve", {}))
    # the same obligations on the inputs the generic evaluation leaves out: values that are unequal but within numpy's isclose tolerance
    for p in ([True], [False, True], [False, False]):
        ts.append(("run %s close" % "".join("T" if x else "F" for x in p), "run_scenario", dict(pattern=list(p), maxiter=len(p), close=True)))
    ts.append(("tools.solve close", "run_tools_solve", dict(close=True)))
    # boundary value of the input space: every prescribed value exactly zero while the start state is not
    for p in ([True], [False, True]):
        ts.append(("run %s zero" % "".join("T" if x else "F" for x in p), "run_scenario", dict(pattern=list(p), maxiter=len(p), zero=True)))
    ts.append(("tools.solve zero", "run_tools_solve", dict(zero=True)))
    # boundary values of the partition: no free unknown at all (a patch test on a mesh without interior points), no prescribed unknown at all
    ts.append(("partitioned solve, degenerate partitions", "run_partition_edges", {}))
    return ts


def _newton_tree():
    path = os.path.join(SRC, "felupe", "tools", "_newton.py")
    return ast.parse(open(path).read()), path


def run_flow(col):
    tree, path = _newton_tree()
    fn = flow.function_node(tree, "newtonrhapson")
    if fn is None:
        col.undecided("C07.O1", "tools/_newton.py newtonrhapson", "anchor", "function not found")
        return
    fa = flow.FlowAnalysis(fn).run()
    where = "tools/_newton.py:%d newtonrhapson" % fn.lineno
    rets = [(s, n) for s, n in fa.at_return if n is not None]
    bad = [(n.lineno, s.get("success")) for s, n in rets if s.get("success") == flow.F]
    unknown = [(n.lineno, s.get("success")) for s, n in rets if s.get("success") not in (flow.T, flow.F)]
    rule = "at every return statement the abstract value of `success` is True (all paths, any maxiter)"
    if unknown and not bad:
        # no branch condition the engine understands establishes success on this path: not a verdict (the scripted runs decide the behaviour)
        col.undecided("C07.O1", "newtonrhapson returns", rule, "%s: `success` is not determined at return(s) %s (unrecognised guard idiom)" % (where, sorted({l for l, v in unknown})))
    else:
        col.add("C07.O1", "newtonrhapson returns", rule, bool(rets) and not bad, "%s: returns %d, offending %s" % (where, len(rets), bad[:4]))
    fell = [s for s, n in fa.at_return if n is None]
    col.add("C07.O1", "newtonrhapson falls off the end", "no path leaves the function without an explicit return or raise", not fell, "%s: %d paths" % (where, len(fell)))
    # with success == True after the loop no raise may be reachable (a converged solve is returned, not rejected)
    loop = [n for n in ast.walk(fn) if isinstance(n, ast.For)][0]
    bad = [n.lineno for s, n in fa.at_raise if n.lineno > loop.end_lineno and s.get("success") == flow.T]
    col.add("C07.O1", "newtonrhapson raise after success", "after the iteration loop no raise is reachable in a state where success is True", not bad, "%s: raise at lines %s" % (where, bad))
    # exhaustion / zero iterations end in an exception
    tag_ex = "$exhausted@%d" % loop.lineno
    tag_z = "$zero_iterations@%d" % loop.lineno
    ex_ret = [n.lineno for s, n in rets if s.tags.get(tag_ex)]
    z_ret = [n.lineno for s, n in rets if s.tags.get(tag_z)]
    ex_raise = [n.lineno for s, n in fa.at_raise if s.tags.get(tag_ex)]
    col.add("C07.O1", "newtonrhapson loop exhaustion", "when the iteration limit is reached without success the function raises (never returns)", not ex_ret and bool(ex_raise),
            "%s: returns on exhausted paths %s, raises %s" % (where, ex_ret, sorted(set(ex_raise))))
    col.add("C07.O1", "newtonrhapson maxiter <= 0", "with no iteration at all the function ends in an exception", not z_ret, "%s: returns %s" % (where, z_ret))
    # O6: a raise exists inside the loop that is reachable when the NaN test is true, before the next iteration
    in_loop = [(s, n) for s, n in fa.at_raise if loop.lineno < n.lineno <= loop.end_lineno]
    col.add("C07.O6", "newtonrhapson NaN guard", "inside the loop a raise is reachable (NaN norms) and it is not reachable with success True", bool(in_loop) and all(s.get("success") != flow.T for s, n in in_loop),
            "%s: lines %s" % (where, sorted({n.lineno for s, n in in_loop})))
    # O2 (reaching definitions): the f handed to check() and to the result is (re)assembled after the last update of x
    bad = []
    for callee in ("check", "NewtonResult"):
        for s, n in fa.at_call.get(callee, []):
            vx, vf = s.ver.get("x"), s.ver.get("f")
            if vx is None or vf is None or vf < vx:
                bad.append((callee, n.lineno, vx, vf))
    col.add("C07.O2", "newtonrhapson residual is current", "at check(...) and in the result the residual's reaching definition comes after the iterate's (f is re-assembled from the updated x)",
            not bad and bool(fa.at_call.get("check")) and bool(fa.at_call.get("NewtonResult")), "%s: %s" % (where, bad[:4]))
    col.info["flow_states_at_return"] = len(rets)
    col.info["flow_states_at_raise"] = len(fa.at_raise)
    # ---- check(): update_statevars only under a guard implying success
    fnc = flow.function_node(tree, "check")
    fc = flow.FlowAnalysis(fnc).run()
    calls = fc.at_call.get("update_statevars", [])
    bad = [n.lineno for s, n in calls if s.get("success") == flow.F]
    unknown = [n.lineno for s, n in calls if s.get("success") not in (flow.T, flow.F)]
    if unknown and not bad:
        col.undecided("C07.O4", "check commits only on success", "update_statevars is called only in states where success is True",
                      "tools/_newton.py:%d check: `success` is not determined at the call(s) in lines %s (unrecognised guard idiom)" % (fnc.lineno, unknown))
    else:
        col.add("C07.O4", "check commits only on success", "update_statevars is called only in states where success is True", bool(calls) and not bad, "tools/_newton.py:%d check: lines %s" % (fnc.lineno, bad))


def run_commit(col):
    """who may write `.statevars` / call update_statevars (whole package)"""
    writers, callers = [], []
    for mn in list_modules("felupe"):
        path = os.path.join(SRC, *mn.split("."))
        path = os.path.join(path, "__init__.py") if os.path.isdir(path) else path + ".py"
        try:
            tree = ast.parse(open(path).read())
        except (OSError, SyntaxError):
            continue
        rel = os.path.relpath(path, os.path.join(SRC, "felupe"))
        results_cls = [c for c in ast.walk(tree) if isinstance(c, ast.ClassDef) and c.name == "Results"]
        in_results = {id(f) for c in results_cls for f in ast.walk(c) if isinstance(f, ast.FunctionDef)}

        def committed_path(a, fn):
            """`<expr>.results.statevars`, or `self.statevars` inside class Results"""
            if not (isinstance(a, ast.Attribute) and a.attr == "statevars"):
                return False
            v = a.value
            if isinstance(v, ast.Attribute) and v.attr == "results":
                return True
            return isinstance(v, ast.Name) and v.id == "self" and id(fn) in in_results

        for fn in [n for n in ast.walk(tree) if isinstance(n, ast.FunctionDef)]:
            for n in ast.walk(fn):
                if isinstance(n, (ast.Assign, ast.AugAssign)):
                    tg = n.targets if isinstance(n, ast.Assign) else [n.target]
                    for t in tg:
                        for sub in ast.walk(t):
                            if committed_path(sub, fn) and isinstance(sub.ctx, ast.Store):
                                writers.append((rel, fn.name, n.lineno))
                            # item stores into the committed array: x.results.statevars[...] = ...
                            if isinstance(sub, ast.Subscript) and isinstance(sub.ctx, ast.Store) and committed_path(sub.value, fn):
                                writers.append((rel, fn.name + " (item store)", n.lineno))
                if isinstance(n, ast.Call) and isinstance(n.func, ast.Attribute) and n.func.attr == "update_statevars":
                    callers.append((rel, fn.name, n.lineno))
    allowed_w = {w for w in writers if w[1] in ("__init__", "update_statevars")}
    bad_w = [w for w in writers if w not in allowed_w]
    col.add("C07.O4", "writers of .statevars", "the committed state is assigned only in constructors and in Results.update_statevars", not bad_w and any(w[1] == "update_statevars" for w in writers),
            "other writers: %s" % bad_w)
    bad_c = [c for c in callers if not (c[0] == os.path.join("tools", "_newton.py") and c[1] == "check")]
    col.add("C07.O4", "callers of update_statevars", "update_statevars is called only from tools._newton.check (whose guard is checked by the flow rule)", not bad_c and bool(callers), "callers: %s" % callers)
    col.info["statevars_writers"] = ["%s:%s:%d" % w for w in writers]


def run_check(col):
    it = new_interp()
    check = it.get("felupe.tools._newton:check")
    n = 6
    f = symarray("f", (n,))
    dx = symarray("dx", (n,))
    dof0, dof1 = np.array([1, 4]), np.array([0, 2, 3, 5])
    ftol, xtol = sym("ftol", True), sym("xtol", True)
    for b1, b2 in itertools.product((True, False), repeat=2):
        answers = []

        def oracle(a, b, op, b1=b1, b2=b2):
            if op == "<":
                # distinguish the two comparisons by their right-hand side
                r = b1 if ring.is_zero(b - ftol) else (b2 if ring.is_zero(b - xtol) else None)
                answers.append((str(b), r))
                return r
            return None

        log = []
        items = [scenario.FakeItem(log, "A", None, n), scenario.FakeItem(log, "B", None, n)]
        ring.ORDER_ORACLE[0] = oracle
        try:
            xnorm, fnorm, success = it.call(check, [], dict(dx=dx, x=None, f=f, xtol=xtol, ftol=ftol, dof1=dof1, dof0=dof0, items=items))
        finally:
            ring.ORDER_ORACLE[0] = None
        n1 = ring.power(sum((f[i] * f[i] for i in dof1), ZERO), Fraction(1, 2))
        n0 = ring.power(sum((f[i] * f[i] for i in dof0), ZERO), Fraction(1, 2))
        nx = ring.power(sum((dx[i] * dx[i] for i in range(n)), ZERO), Fraction(1, 2))
        eps = Fraction(1, 1000)
        okf = is_zero(P(fnorm) * (n0 + eps) - n1)
        col.add("C07.O3", "check norms (%s,%s)" % (b1, b2), "fnorm == |f[dof1]| / (eps + |f[dof0]|) with eps = 1e-3 > 0 and xnorm == |dx|", okf and is_zero(P(xnorm) - nx), "fnorm %s" % ring.fmt(P(fnorm), 3))
        col.add("C07.O3", "check success (%s,%s)" % (b1, b2), "success == (fnorm < ftol and xnorm < xtol)", bool(success) == (b1 and b2), "success %s" % success)
        commits = [e for e in log if e[0] == "commit"]
        col.add("C07.O4", "check commit (%s,%s)" % (b1, b2), "every item's state is committed iff success", (len({e[1] for e in commits}) == 2) == (b1 and b2) and (bool(commits) == (b1 and b2)), "%d commits" % len(commits))
    # defaults: no partition given -> all unknowns free, reaction norm empty
    ring.ORDER_ORACLE[0] = lambda a, b, op: True if op == "<" else None
    try:
        xnorm, fnorm, success = it.call(check, [], dict(dx=dx, x=None, f=f, xtol=xtol, ftol=ftol))
    finally:
        ring.ORDER_ORACLE[0] = None
    nall = ring.power(sum((f[i] * f[i] for i in range(n)), ZERO), Fraction(1, 2))
    col.add("C07.O3", "check without partition", "without dof sets the residual of all unknowns is measured against eps alone", is_zero(P(fnorm) * Fraction(1, 1000) - nall))
    finish_info(col, it)


ZERO_EXT0 = [False]  # prescribed values all exactly zero (unloading to zero from a deformed state): a boundary value of the input space


def _maybe_zero(ext0):
    if ZERO_EXT0[0]:
        z = np.empty(ext0.shape, dtype=object)
        z[...] = ZERO
        return z
    return ext0


def _run_newton(it, pattern, maxiter, log, nfields=1, nan_at=None):
    fc, n, dof0, dof1, ext0, regs = scenario.make_problem(it, nfields=nfields)
    ext0 = _maybe_zero(ext0)
    m = sym("mult")
    items = [scenario.FakeItem(log, "A", fc, n), scenario.FakeItem(log, "B", fc, n, multiplier=m)]
    solver = scenario.ScriptedSolver(log)
    script = scenario.ConvergenceScript(pattern)
    newton = it.get("felupe.tools._newton:newtonrhapson")
    u_start = scenario.flat_values(it, fc)
    ring.ORDER_ORACLE[0] = script
    try:
        res = it.call(newton, [], dict(items=items, dof0=dof0, dof1=dof1, ext0=ext0, solver=solver, maxiter=maxiter, verbose=False))
    finally:
        ring.ORDER_ORACLE[0] = None
    return res, fc, n, dof0, dof1, ext0, items, u_start, m


def run_scenario(col, pattern, maxiter, close=False, zero=False):
    npmodel.CLOSE_WORLD[0] = "close" if close else "generic"
    ZERO_EXT0[0] = zero
    try:
        _run_scenario(col, pattern, maxiter, close, zero)
    finally:
        npmodel.CLOSE_WORLD[0] = "generic"
        ZERO_EXT0[0] = False


def _run_scenario(col, pattern, maxiter, close, zero=False):
    it = new_interp()
    log = []
    name = "".join("T" if x else "F" for x in pattern) or "maxiter=0"
    if close:
        name += " [inputs on which tolerance predicates answer 'close']"
    if zero:
        name += " [all prescribed values exactly zero, non-zero start state]"
    converges = bool(pattern) and pattern[-1]
    try:
        res, fc, n, dof0, dof1, ext0, items, u_start, m = _run_newton(it, pattern, maxiter, log)
        raised = None
    except InterpRaise as e:
        raised = e
        res = None
    if not converges:
        col.add("C07.O1", "run %s raises" % name, "a solve that does not converge within maxiter raises instead of returning", raised is not None and res is None,
                "returned a result" if raised is None else str(raised)[:120])
        commits = [e for e in log if e[0] == "commit"]
        col.add("C07.O4", "run %s commits nothing" % name, "no state variables are committed by a solve that does not converge", not commits, "%d commits" % len(commits))
        finish_info(col, it)
        return
    if raised is not None:
        col.add("C07.O1", "run %s returns" % name, "a converging solve returns", False, str(raised)[:200])
        return
    k = len(pattern)
    col.add("C07.O1", "run %s result" % name, "success True, iterations == number of Newton steps taken", it.getattr(res, "success") is True and it.getattr(res, "iterations") == k,
            "success %s iterations %s" % (it.getattr(res, "success"), it.getattr(res, "iterations")))
    # --- replay the linear algebra
    solves = [e for e in log if e[0] == "solve"]
    vectors = [e for e in log if e[0] == "vector"]
    okk = len(solves) == k
    u = list(u_start)
    bad = []
    for step, (_, sn, Kd, rd) in enumerate(solves):
        call = step + 1  # f, K used in iteration `step` stem from assembly call number step+1 (1 = initial residual)
        f = [sym("A.r%d[%d,0]" % (call, i)) + m * sym("B.r%d[%d,0]" % (call, i)) for i in range(n)]
        K = [[sym("A.K%d[%d,%d]" % (call, i, j)) + m * sym("B.K%d[%d,%d]" % (call, i, j)) for j in range(n)] for i in range(n)]
        for a, i in enumerate(dof1):
            want = -f[i] - sum((K[i][j] * (ext0[b] - u[j]) for b, j in enumerate(dof0)), ZERO)
            if not is_zero(P(rd[a]) - want):
                bad.append(("rhs", step, int(i)))
            for bcol, j in enumerate(dof1):
                if not is_zero(P(Kd[a, bcol]) - K[i][j]):
                    bad.append(("K11", step, int(i), int(j)))
        # update
        du = [None] * n
        for a, i in enumerate(dof1):
            du[i] = sym("dx%d[%d]" % (sn, a))
        for b, j in enumerate(dof0):
            du[j] = ext0[b] - u[j]
        u = [u[i] + du[i] for i in range(n)]
    col.add("C07.O5", "run %s linear systems" % name,
            "each solve receives K[dof1][:,dof1] and -f[dof1] - K[dof1][:,dof0] (ext0 - u[dof0]) with f, K (multipliers applied) assembled at the current iterate", okk and not bad,
            "%d solves; %s" % (len(solves), bad[:4]))
    xres = it.getattr(res, "x")
    got = scenario.flat_values(it, xres)
    badu = [i for i in range(n) if not is_zero(P(got[i]) - u[i])]
    col.add("C07.O5", "run %s returned field" % name, "returned field == start + sum of increments: solver output on the free unknowns, ext0 - u0 on the prescribed ones (no entry left unwritten)",
            not badu and not any("UNINIT" in str(v) for v in got), "entries %s" % badu)
    badp = [int(j) for b, j in enumerate(dof0) if not is_zero(P(got[j]) - ext0[b])]
    col.add("C07.O5", "run %s prescribed values" % name, "the returned field carries exactly the prescribed values on all prescribed unknowns", not badp, "unknowns %s" % badp)
    # --- residual re-assembled at the returned iterate
    last = {}
    for e in vectors:
        last[e[1]] = e
    vals_res = xres.attrs["fields"][0].attrs["values"]
    ok_link = all(e[3] == id(vals_res) for e in last.values())
    fres = npmodel.to_obj(np.asarray(it.getattr(res, "fun"))).reshape(-1)
    callno = k + 1
    okf = all(is_zero(P(fres[i]) - (sym("A.r%d[%d,0]" % (callno, i)) + m * sym("B.r%d[%d,0]" % (callno, i)))) for i in range(n))
    col.add("C07.O2", "run %s residual" % name, "the returned residual is the one assembled (all items, multipliers applied) at the returned field, after the last update", ok_link and okf,
            "assembled on the returned values: %s; values match: %s" % (ok_link, okf))
    # O7: every assembly sees the current iterate (items linked before assembling)
    by_call = {}
    for e in vectors:
        by_call.setdefault(e[2], set()).add(e[3])
    col.add("C07.O7", "run %s items linked" % name, "in every evaluation all items assemble on the same (current) value arrays", all(len(v) == 1 for v in by_call.values()) and len(by_call) == k + 1, str({c: len(v) for c, v in by_call.items()}))
    # --- state committed exactly once the solve converged, from the last evaluation
    commits = [e for e in log if e[0] == "commit"]
    first_commit = min((log.index(e) for e in commits), default=None)
    last_vec = max(log.index(e) for e in vectors)
    okc = bool(commits) and first_commit > last_vec and all(e[2] == ("trial", e[1], callno) for e in commits)
    col.add("C07.O4", "run %s commit" % name, "state variables are committed only after the converged evaluation and receive that evaluation's trial state", okc, "%d commits" % len(commits))
    finish_info(col, it)


def run_nan(col):
    it = new_interp()
    log = []
    fc, n, dof0, dof1, ext0, regs = scenario.make_problem(it)

    class NanItem(scenario.FakeItem):
        def vector(self, field=None, parallel=False, **kw):
            r = super().vector(field, parallel, **kw)
            if self.calls >= 2:
                r.dense[0, 0] = ring.sym("NaN")
            return r

    items = [NanItem(log, "A", fc, n)]
    newton = it.get("felupe.tools._newton:newtonrhapson")
    ring.ORDER_ORACLE[0] = scenario.ConvergenceScript([False, False, False])
    try:
        try:
            it.call(newton, [], dict(items=items, dof0=dof0, dof1=dof1, ext0=ext0, solver=scenario.ScriptedSolver(log), maxiter=3, verbose=False))
            raised = None
        except InterpRaise as e:
            raised = e
    finally:
        ring.ORDER_ORACLE[0] = None
    nsolves = len([e for e in log if e[0] == "solve"])
    col.add("C07.O6", "run with NaN residual", "NaN norms raise before the next iteration is started", raised is not None and nsolves == 1 and "NaN" in str(raised), "%s; solves %d" % (str(raised)[:80], nsolves))
    finish_info(col, it)


def run_tools_solve(col, close=False, zero=False):
    npmodel.CLOSE_WORLD[0] = "close" if close else "generic"
    ZERO_EXT0[0] = zero
    try:
        _run_tools_solve(col, close, zero)
    finally:
        npmodel.CLOSE_WORLD[0] = "generic"
        ZERO_EXT0[0] = False


def _run_tools_solve(col, close, zero=False):
    """tools._solve.solve: the partitioned solve split by field offsets"""
    it = new_interp()
    fc, n, dof0, dof1, ext0, regs = scenario.make_problem(it, nfields=2)
    ext0 = _maybe_zero(ext0)
    log = []
    K = npmodel.AbstractSparse(symarray("K", (n, n)))
    f = symarray("f", (n,))
    solve = it.get("felupe.tools._solve:solve")
    offs = it.getattr(fc, "offsets")
    # the default solver is scipy's spsolve: replace it by the scripted one through a call hook on solve.solve's default
    solver = scenario.ScriptedSolver(log)
    it.call_hooks[("felupe.solve._solve", "solve")] = lambda interp, fn, args, kwargs: (NotImplemented if "solver" in kwargs else interp._call_function(fn, args, dict(kwargs, solver=solver)))
    d = it.call(solve, [K, f, fc, dof0, dof1, offs, ext0], {})
    u = scenario.flat_values(it, fc)
    sol = [e for e in log if e[0] == "solve"][0]
    bad = []
    for a, i in enumerate(dof1):
        # tools.solve takes the right-hand side f of K u = f (it hands r = -f to partition): K11 du1 = f1 - K10 (ext0 - u0)
        want = f[i] - sum((K.dense[i, j] * (ext0[b] - u[j]) for b, j in enumerate(dof0)), ZERO)
        if not is_zero(P(sol[3][a]) - want):
            bad.append(int(i))
    flat = np.concatenate([npmodel.to_obj(np.asarray(x)).reshape(-1) for x in d])
    okp = all(is_zero(P(flat[j]) - (ext0[b] - u[j])) for b, j in enumerate(dof0))
    sizes = [len(np.asarray(x).reshape(-1)) for x in d]
    col.add("C07.O5", "tools.solve" + (" [inputs on which tolerance predicates answer 'close']" if close else "") + (" [all prescribed values exactly zero]" if zero else ""), "for the right-hand side f of K u = f: K11 du1 = f1 - K10 (ext0 - u0), du0 = ext0 - u0, result split by the field offsets", not bad and okp and sizes == [8, 2], "rows %s sizes %s" % (bad, sizes))
    finish_info(col, it)


def run_included(col, modname, fname, kwargs, oid, why):
    from ..common import include

    include(col, modname, fname, kwargs, oid, why)


def run_partition_edges(col):
    """solve.partition + solve.solve with an empty set of free (resp. prescribed) unknowns"""
    it = new_interp()
    fc, n, dof0, dof1, ext0, regs = scenario.make_problem(it)
    part = it.get("felupe.solve._solve:partition")
    solve = it.get("felupe.solve._solve:solve")
    K = npmodel.AbstractSparse(symarray("K", (n, n)))
    r = symarray("r", (n,))
    u = scenario.flat_values(it, fc)
    for label, d1, d0 in (("no free unknown", np.zeros(0, dtype=int), np.arange(n)), ("no prescribed unknown", np.arange(n), np.zeros(0, dtype=int))):
        def chk(d1=d1, d0=d0):
            log = []
            solver = scenario.ScriptedSolver(log)
            e0 = symarray("e", (len(d0),))
            system = it.call(part, [fc, K, d1, d0, r], {})
            du = npmodel.to_obj(np.asarray(it.call(solve, list(system), dict(ext0=e0, solver=solver)))).reshape(-1)
            bad = [int(j) for b, j in enumerate(d0) if not is_zero(P(du[j]) - (e0[b] - u[j]))]
            sols = [e for e in log if e[0] == "solve"]
            if len(d1):
                want = [-r[i] for i in d1]
                okr = len(sols) == 1 and all(is_zero(P(a) - b) for a, b in zip(np.asarray(sols[0][3]).reshape(-1), want))
                oku = all(is_zero(P(du[i]) - ring.sym("dx1[%d]" % a)) for a, i in enumerate(d1))
            else:
                okr, oku = True, True
            return not bad and okr and oku and du.shape == (n,), "solve/_solve.py solve: prescribed unknowns without their increment %s" % bad
        col.check("C07.O5", "partitioned solve, %s" % label, "du0 == ext0 - u0 on every prescribed unknown and K11 du1 == -r1 - K10 (ext0 - u0) on the free ones, also when one of the two sets is empty", chk)

    # no prescribed values given (ext0=None: the prescribed unknowns are driven to zero) while the field carries non-zero values there --
    # continuation from a state with moved boundaries: the increment -u0 the routine sets has to be the one the right-hand side accounts for
    def chk_none():
        log = []
        solver = scenario.ScriptedSolver(log)
        system = it.call(part, [fc, K, dof1, dof0, r], {})
        du = npmodel.to_obj(np.asarray(it.call(solve, list(system), dict(ext0=None, solver=solver)))).reshape(-1)
        sols = [e for e in log if e[0] == "solve"]
        du0 = {int(j): P(du[j]) for j in dof0}
        want = [-r[i] - sum((K.dense[i, j] * du0[int(j)] for j in dof0), ZERO) for i in dof1]
        okr = len(sols) == 1 and all(is_zero(P(a) - b) for a, b in zip(np.asarray(sols[0][3]).reshape(-1), want))
        return okr, "solve/_solve.py solve(ext0=None): the prescribed unknowns receive the increments %s but the right-hand side handed to the linear solver is not -r1 - K10 du0" % (
            [ring.fmt(v, 2) for v in list(du0.values())[:3]])
    col.check("C07.O5", "partitioned solve, ext0=None with non-zero prescribed unknowns", "whatever increment du0 the routine puts on the prescribed unknowns, the free unknowns solve K11 du1 == -r1 - K10 du0 (the reduced system)", chk_none)
    finish_info(col, it)
